#!/venv/bin/python
"""py2lean: a small Python-subset -> Lean 4 translator for FUNCTION BODIES (arithmetic and string
formatting code).  The source text is parsed with `ast`, never imported or executed.

    translate(src_dir) -> (lean_text, fingerprints)      used by tools/extract.py (gen_bodies)
    python tools/py2lean.py --src /repo/src/icalendar --out /tmp/Bodies.lean

The output (lean/ICal/Gen/Bodies.lean) uses only lean/ICal/Model/PyRT.lean.  The theorems in
lean/ICal/Lemmas/Bodies.lean prove every generated body equal to the hand-written model, so a
changed body that no longer means the same makes `lake build` fail.

Subset (anything else raises Untranslatable naming the function, the line and the construct):
  statements   x = e; a, b = e1, e2; x += e; if/elif/else; return e; pass; the docstring.
               Re-assignment is `let` shadowing.  An `if` without `return` inside becomes
               `let (vars) := if c then .. else ..` over the variables it assigns that are read
               later (a variable read later but bound on one path only is refused); an `if` with a
               `return` inside becomes an if-then-else whose branches both continue with the rest
               of the function (what follows a `return` on a path never runs and is dropped).
               Every path must end in `return e`; all returns have one type.
  expressions  int / str / ASCII bytes / bool literals; names; `+ - *`, unary minus; `//` and `%`
               with a non-zero int literal divisor; `abs`; comparisons (one operator); `not/and/or`
               with Python truthiness (`or`/`and` return an operand outside a test); `x if c else y`;
               `str(x)`, `int(x)` on ints; f-strings with `{x}` and `{x:0N}`; `fmt % x` where every
               literal that can reach `fmt` has exactly one `%s` and no other `%`;
               `s.encode('utf-8')`; bytes are represented by the str they encode;
               timedelta: `.days .seconds`, `-td`, `td - td`, `td < td`, `timedelta(0)`;
               date/datetime: attribute reads; `self.<attr>` and calls listed in TARGETS are
               PARAMETERS of the generated definition (external code is never guessed).
               `str int abs` must not be rebound at module level; `timedelta` must come from
               `from datetime import timedelta`; `str(self)` follows a `__str__` of the class
               (which must itself be a translated target), other uses of `self` as an int require
               the class to derive from exactly `int` without overriding the special method.
Types are inferred (Int Str Bytes Bool TD OptStr PyDate PyDateTime ...); a type clash is refused.

Wave 2 (decoders and helpers; groups `dec` -> Gen/BodiesDec.lean, `parser` -> Gen/BodiesParser.lean):
  functions    staticmethod / classmethod / module-level functions with arguments (types declared in
               TARGETS; an argument declared `None` is SPECIALISED to its default `None`: tests that
               are decided by that - `isinstance(x, str)`, `x is not None`, `if x` - are evaluated
               at translation time, the branch not taken is not translated and is named in the
               comment of the definition).
  exceptions   a function that can raise becomes `Py T = Except Exc T` (a `do` block).  Exceptions
               come only from the partial runtime functions and from `raise ValueError(...)`.
               `try: BODY except <classes>: raise ValueError(...) [from e]` (one handler, no
               else/finally) is `remap <classes> BODY` / `remapAll BODY`; BODY either returns/raises
               on every path or on none.  Any other handler is refused.
  partial      `int(<str>)`, `int(<str or str-or-None> or <int literal>)`, `date(y, m, d)`,
               `time(h, m, s)`, `datetime(y, m, d, h, mi, s)` (also through `f(*t)` where `t` was
               assigned a tuple display), `m.groups()`; `cls(x)` for an int subclass whose `__new__`
               is `self = super().__new__(cls, *args, **kwargs)` plus attribute assignments.
               They are hoisted in evaluation order; inside `a or b`, `a and b`, `x if c else y`
               (lazily evaluated positions) they are refused.
  also         `timedelta(weeks=, days=, hours=, minutes=, seconds=)` on ints, `td >= td`, `td <= td`;
               `s[a:b]`, `s[a:]`, `s[:b]` with literal bounds >= 0; `len(s)`; `s in ('a', 'b')`;
               `s.replace('a', 'b')`; `sep.join(f(x) for x in lst)`; `cls.<NAME>` where NAME is a
               class-level literal; calls of functions translated earlier in the same group;
               `REGEX.match(s)` (the match object - None or the tuple of groups, arity read from the
               compiled pattern - is a PARAMETER) and `REGEX.search(s)` (a predicate parameter).

Wave 3 (loops; groups `line` `fold` `text` -> Gen/BodiesLine.lean, BodiesFold.lean, BodiesText.lean):
  for          `for ch in s:` / `for i, ch in enumerate(s):` over a str (no else clause, not nested) becomes a
               separate structurally recursive definition `<fn>_loop<k>` over the characters.  Its arguments
               are the variables of the enclosing function that the body reads, the index, and the STATE: the
               variables bound before the loop that the body assigns.  `break` ends the recursion, `continue`
               and the end of the body recurse, `return v` inside the loop makes the result `Loop σ ρ`.  A
               variable first bound in the body must not be read after the loop.  The index read after
               the loop is `Option Int` (`none` = the loop never ran; reading it is `getBound`: UnboundLocalError).
               A state variable that starts as `None` and is assigned an int is `Option Int`; one that
               starts as the literal 0/1, is assigned a bool and is only ever used as a truth value is a Bool.
  while        only `while i < len(s):` : a recursion on FUEL = len(s) + 1; running out of fuel is the
               distinguished error `Exc.fuel` (never a value; the equality theorem shows it cannot occur).
  lists        `x = []` where x is only appended to and consumed by `''.join(x)` is its concatenation
               (a Str: `x.append(ch)`, `x.append(s)`); where x is returned it is a list of str.
  characters   the loop variable is a `Char`: `ch == 'x'`, `ch == s`, `ch in 'xyz'`, `ch in ('x', 'y')`,
               `len(ch.encode(DEFAULT_ENCODING))` (DEFAULT_ENCODING must be 'utf-8' in parser_tools.py).
  also         `s[a:b]` with int expressions as bounds (CPython clamping), `s[i]` (IndexError: partial),
               `self` as a str for a class deriving from exactly `str` without overriding
               __len__/__getitem__/__iter__; `sep.join(f(i) for i in range(a, b, c))` (ValueError for c == 0);
               `try: s.encode('ascii') except (UnicodeEncodeError, UnicodeDecodeError): pass else: ..`
               (exactly this shape) is `if isAsciiStr s then .. `; `assert e` is NOT evaluated: it is
               listed as a precondition in the comment of the definition (python -O is not modelled).
  int or None  a variable that is `None` on one path and an int on another is `Option Int`: usable as a slice
               bound (`None` = the default of that side), in `==`, as a truth value; as an operand of `+`/`-`
               it is partial (`None` raises TypeError).  In `not x or E` / `x and E` the operand E is translated
               with x known to be an int (it is evaluated only when x is true).
  externals    besides results of calls and pure function parameters: ('proc') an expression statement
               `f(x)` that may raise, ('pfun') a function parameter that may raise, with declared keyword
               arguments and possibly an OPAQUE result type (a type parameter `{P : Type}` of the definition),
               ('expr') a whole expression, matched by its text, that stays external as a function of the
               local variables named in TARGETS.  A method may call module-level functions translated earlier
               in the same group.  `return (a, b, c)` returns a tuple.
  objects      (wave 4) `date`/`datetime` OBJECTS are values of the hand model's sum type (`Alarms.Trig`; an
               optional one is `Option Trig`, true iff not None): `a > b` and `max(a, b)` are partial (TypeError
               across kinds), `x.tzinfo is None` is partial (a date has no tzinfo).  `if x is None:` /
               `if x is not None:` / `if not x:` on an optional value is a `match`: in the branch where
               the value is present every later read of that variable or `self.<attr>` is the value itself.
               `if A and B:` whose operand B can raise is the nested `if A: if B:` (Python's short circuit).
               `@property` methods; `self.<prop>` of a property translated earlier is a call of it;
               `self.a.b` may be declared as one parameter.  `raise <E>(..)` for the ValueError subclasses
               of icalendar (`LocalTimezoneMissing` .. `IncompleteComponent`; the class must derive from
               ValueError in the source), which `except ValueError` catches.  A declared return type
               (TARGETS) lets `return x` of a present value stand for the optional.
  components   (wave 4) a method of `Component` whose `self` is the hand model's tree `Comp` is a definition by
               pattern matching `| .mk name' props' subs', <arguments>`: `self.name`, `self.subcomponents` are
               the fields, `self` the whole value; its Python arguments follow the pattern, external code
               precedes it.  `for x in self.subcomponents:` is a loop definition over `List Comp`; a call
               `x.<the same method>(..)` is a RECURSIVE call (the definitions form a `mutual` block, structural
               on the tree).  Arguments of such calls and of calls of other translated methods are bound BY THE
               CALLEE'S SIGNATURE as Python does: positionally, then by keyword, then the defaults.
               A list whose element type is declared in TARGETS (`locals`): `x = []`, `x.append(v)`, `x += ys`.
               An argument that is a function (`select`) is applied as such.  `s.upper()` is the ASCII `upper`.
  dict methods (wave 4) a method of `CaselessDict` whose `self` is the ordered-dict state of the hand model
               (`CDict.Store V`): exactly ONE call `super().<m>(..)`, either returned or as the last statement
               (the method then returns None); each `super().<m>` is a parameter - a step of the underlying
               ordered dict: state and arguments to the new state and what the call returns (`CDict.Out V`).
               The defaults of the method's keyword parameters are emitted as constants `<def>_default_<arg>`.
  start / end  (wave 4, group `se`) date / datetime / other value OBJECTS are the hand model's `SE.Val`: `isinstance(x, date)`
               is `SE.Val.isDT`, `isinstance(x, datetime)` is `SE.Val.isDatetime`, `x + td` is `SE.Val.addDur`, a
               timedelta is the model's Int of seconds (`timedelta(days=1)` = 86400).  A call whose result is unpacked
               (`a, b, c = self.m()`) may be declared external: the values it returned are parameters.
  parse loop   (wave 5) `Component.from_ical`.  Objects of external classes are OPAQUE type parameters (`C` a component,
               `P` a parameter map, `F` a value class, `K` a component class, `PV` a parsed value); everything done
               with them is a parameter (TARGETS).  Python lists of such objects: `x = []`, `x.append(v)`, `if x`,
               `len(x)`, `x[-1]`, `x[0]`, `v = x.pop()` (IndexError on an empty list), `for v in x`.
               `c = xs[-1] if xs else None` makes `c` an ALIAS of the top of `xs`: a read is `xs.getLast?` at that
               point, a mutating method call `c.m(..)` (and `xs[-1].m(..)`) replaces the last element of `xs`
               by what the method leaves (`modLast`).  `obj.attr = v` on a local object rebinds it through a
               setter parameter.  `not c or E` / `c and E` on an optional object: E sees the object.
               GENERAL `try`: `try: BODY except <classes> [as e]: HANDLER .. [else: ELSE]` (no finally; BODY
               without return/break/continue): BODY is evaluated to an `Except` value; on an exception the
               first handler whose classes contain it runs (bare `raise` re-raises it, `str(e)` is an
               opaque message), otherwise ELSE; an exception no handler names propagates.  `[E for v in xs]`
               whose E can raise is `mapM` (the first exception ends it).  `s.split(',')`.
               A function that returns a list on one path and an element on another returns a `PyResult`.
               `if c:` on an optional object is a test for None only when the class's `__bool__` is `return True` in the
               source and no other class of that file defines `__bool__` / `__len__` (NEVER_FALSE, looked up on every run).
  wave 5 more  `[E for a in XS for b in YS(a)]` (the concatenation of the inner lists over XS); a call of a translated
               method that takes an object used only through declared attributes (`Object`): the callee's parameters
               `<arg>.<ATTR>` are the caller's `<actual>.<ATTR>`; None handed where the callee takes the object is
               TypeError; `getattr(x, "tzinfo", None) is None` on a date / datetime object.
               FIELDS: a method of a class with self_type 'Fields' that assigns / appends to declared attributes of self
               is a function from their values before to the tuple of their values after (bare `return` and the end of
               the function return it); `self.m(..)` of such a method rebinds the attributes it writes.
               `E(x) if x is not None else None`; handlers for icalendar's ValueError subclasses by name.
               `for name, value in <list of pairs>`; `Cls()` for a declared ('listctor', file, type) class that is a plain
               `class Cls(list)` without constructor / append / iteration methods is the empty list.
               `A and B and ..` where an operand is `x is not None` / `isinstance(x, date | datetime)` on an optional
               date / timedelta variable: the operands after it see the object; operands that can raise are placed by
               nested `if`s.  A translated method that returns a tuple display: `m()[k]` and `a, b, c = m()`.
               `d1 - d2` of date / datetime objects is an external partial operation ('datetime.__sub__').
  wave 6       UNION types (`U:<Name>`, table UNIONS): a value that is one of several kinds of object (`PyDDD`: date | datetime |
               time | timedelta | a pair; one-or-many: an object or a list of them).  `isinstance(x, C)` on such a variable is a
               `match`: in the branch where the test holds (and, with two members, in the other one) x IS the member; tests
               already decided are dropped with a note; a function declared to return the union wraps what it returns; a
               variable declared (locals) to hold a union is brought to it where paths meet; a member is accepted where an
               external takes the union.  `Cls(x).m()` for a translated m that reads `self.<attr>`: the constructor must store
               its argument there unchanged and may otherwise only guard its type (noted).  `Cls.m(..)` / `cls.m(..)` of a
               translated classmethod / staticmethod: value parameters of the callee that stand for `REGEX.match(arg)` or
               `f(arg)` become FUNCTION parameters of the caller.  Two functions that call each other are each translated
               with the other as a parameter (the knot is tied, and justified, in the Pieces file).
               `s.startswith((..literals..))`, `s.lower()`, `'c' in s`, `n in (1, 2)`, `x in [..literals..]`, `a, b = xs`
               (ValueError unless two elements), `obj[k] = v` and `obj[k]` on a declared opaque object (setter / partial
               getter), self_type 'State:S' (the method returns the state it leaves), a `try` whose body ends in `return`,
               `continue` / `break` of an inner loop inside a `try`, `continue` in a handler, `sep.join(E for v in xs)` over
               objects, `for k, v in <pairs>` with k, v rebound in the iteration, SEQUENCE_TYPES checked to be (list, tuple).
  wave 7       Python SETS: `{E for v in xs}` is a duplicate-free list (`pyDedup`; the element type needs `BEq`), `len(s)`,
               `None not in s`, `s.pop()` only of a one-element set (anything else ends in `fuel`: an arbitrary element is not
               modelled).  `hasattr(x, '__iter__')` on a one-or-many value is an instance test.  `if x:` on a str-or-None is
               "not None AND not empty" (the earlier narrowing took an empty str for true; no generated file depended on it).
               A truth value declared external (`'truthy <name>'`).  `obj.attr[k] = v`, `del obj.attr[k]` and a mutating call
               on an attribute the method writes (`fieldset`) as declared setters.  Binary operations and comparisons of opaque
               objects as whole-expression externals KEYED BY THEIR SOURCE TEXT (`start > end`: `>=` is refused).  A pair
               argument unpacked (`a, b = per`).  `isinstance(dt[0], C)` on a component of a pair known by an earlier test;
               instance tests on unions as boolean expressions; an and-chain with an operand already decided false is false.
               `return NotImplemented` (None of an optional bool).  `s.isdigit()` (ASCII), `__new__` (first parameter `cls`).
               A method that is REMOVED from the source makes the translation fail (`function .. not found`).
  wave 8       Python SETS built imperatively: `set()` (element type declared), `.add` / `.update(list)` / `.discard`, `s - {None}`;
               a set is NEVER iterated (`for x in s` is refused: the order is unspecified), only `sorted(s)` lets its elements out
               (`sorted` of str: code-point order; `sorted(xs, key=lambda k: E)` with an int key: keys first, then a stable sort).
               A group may call another group's functions (GROUP_USES); a method is looked up in the class, else in its single
               base class of the same file; a callee's default `lambda c: True`; a method that changes `self` through a declared
               'mut' external returns the tree it leaves.  `{k: i for i, k in enumerate(xs)}`, `k in d`, `d[k]` (KeyError),
               `[k for k in xs if C]`, `x or []`, `list(x)`.  `*args` / `**kwargs` when declared; whole call statements that change
               `self` ('selfstmt'); iteration of an opaque object through a declared parameter (`'for <name>'`).  A generator bound
               to a name that only the `return sep.join(name)` right after it consumes.  FRAGMENT by marker ({'after': text,
               'result': names}); `[E for a, b, _ in xs]` / `for i, (a, b, ..) in enumerate(xs)` over tuples, `xs[i]`, `t[k]`;
               nested loops with their own break (group tz); a local that is `False` or an int (`FalseOrInt`: Option Int) and
               `assert x is not False` on it, which IS evaluated (AssertionError).
  wave 9       CLOSURES: a target `outer.inner` is a def directly in the body of a module-level def, bound once; its declared free
               variables must be parameters of `outer` that nothing rebinds: they are parameters of the definition (`Target.free`).  A
               function without a class whose first parameter is `self` (a property accessor) with self_type 'State:S'; `sibling(self)`
               of a closure translated earlier rebinds `self`; bare `return` of a state; `raise TypeError(..)`; `x in self.<attr>` on a
               declared sequence of str; one mutating method declared per arity (`'self.pop/1'`, `'self.pop/2'`) (group sedesc).
  parameters   the order of the generated parameters follows their first use in the source: apply the definitions BY NAME
               (`f (last_ack := ..) (snooze_until := ..)`), never positionally - two parameters of one type could
               otherwise change places together with the source and no proof or test would notice.
  fragments    a target may name a FRAGMENT: the first `for` loop of the function together with the
               constant initialisations directly in front of it; its free variables are parameters and
               its result is the tuple of the variables named in TARGETS.
"""
import ast
import os
import sys
import re
from collections import namedtuple

sys.path.insert(0, os.path.dirname(os.path.abspath(__file__)))
import extract as X  # noqa: E402  (helpers only: parse, find_class, find_func, fingerprint, lstr)


class Untranslatable(X.Untranslatable):
    pass


LEAN_TYPE = {'Int': 'Int', 'Str': 'Str', 'Bytes': 'Str', 'Bool': 'Bool', 'TD': 'TD', 'OptStr': 'Option Str',
             'PyDate': 'PyDate', 'PyDateTime': 'PyDateTime', 'PyTime': 'PyTime', 'None': 'Unit', 'StrList': 'List Str',
             'Truth': 'Bool', 'Char': 'Char', 'OptInt': 'Option Int', 'Builder': 'Str', 'IntList': 'List Int',
             'Unbound:Int': 'Option Int', 'D': 'Trig', 'OptD': 'Option Trig', 'TDS': 'Int', 'OptTDS': 'Option Int', 'DList': 'List Trig',
             'ATList': 'List AT', 'Comp': 'Comp', 'CompList': 'List Comp', 'Fn:Comp:Bool': 'Comp → Bool', 'Object': 'Unit', 'OptBool': 'Option Bool', 'U:PyDDD': 'PyDDD', 'U:RVals': 'PyOneMany RV', 'U:ArgU': 'PyOneMany PV', 'U:DLU': 'PyOneMany DV', 'U:StoredU': 'PyOneMany OV', 'IV': 'PyIV', 'Vals': 'PyVals', 'Val': 'Val', 'ValList': 'List Val',
             'Store': 'CDict.Store V', 'StepOut': 'CDict.Store V × CDict.Out V', 'V': 'V', 'OptV': 'Option V', 'Msg': 'Unit', 'ExcVal': 'Exc', 'Item': 'PyItem', 'ItemList': 'List PyItem', 'EntryList': 'List Entry', 'U:TZP': 'PyTzid'}


def lean_type(t):
    """translator type -> Lean type; `MatchN` = result of REGEX.match: None or N groups (each str or None)"""
    if t.startswith('Match'):
        return 'Option (' + ' × '.join(['Option Str'] * int(t[5:])) + ')'
    if t.startswith('Groups'):
        return ' × '.join(['Option Str'] * int(t[6:]))
    if t.startswith('List:'):
        inner = lean_type(t[5:])
        return 'List ' + (f'({inner})' if ' ' in inner else inner)
    if t.startswith('Opt:'):
        inner = lean_type(t[4:])
        return 'Option ' + (f'({inner})' if ' ' in inner else inner)
    if t.startswith('Result:'):
        return 'PyResult ' + lean_type(t[7:])
    if t.startswith('Tuple:'):
        return t[6:]
    if t.startswith('Set:'):
        inner = lean_type(t[4:])
        return 'List ' + (f'({inner})' if ' ' in inner else inner)
    if t == 'Dict:Str:Int':
        return 'List (Str × Int)'
    if t.startswith('Pairs:'):
        inner = lean_type(t[6:])
        return f'List (Str × {"(" + inner + ")" if " " in inner else inner})'
    return LEAN_TYPE.get(t, t)


def opaque_types(texts):
    """the opaque type parameters (single capital names that are no Lean type) mentioned in these Lean types"""
    known = {'Str', 'Int', 'Bool', 'Nat', 'Unit', 'Py', 'List', 'Option', 'Char', 'Exc', 'TD', 'Trig', 'Comp', 'Val', 'Entry',
             'PyVals', 'PyItem', 'PyIV', 'PyDate', 'PyTime', 'PyDateTime', 'PyResult', 'PyOneMany', 'PyDDD', 'Loop', 'Type', 'CDict', 'SE', 'Store', 'Out', 'PyTzid'}
    out = []
    for t in texts:
        for w in re.findall(r"(?<![\w.'])[A-Z][A-Za-z]*(?![\w.'])", t):
            if w not in known and w not in out:
                out.append(w)
    return out


NEVER_FALSE = {'C': ('cal.py', 'Component')}     # opaque type -> the class whose __bool__ must be `return True`

RECORDS = {  # attribute reads: type -> attr -> (lean projection, type)
    'TD': {'days': ('days', 'Int'), 'seconds': ('secondsI', 'Int')},
    'PyDate': {k: (k, 'Int') for k in ('year', 'month', 'day')},
    'PyDateTime': {k: (k, 'Int') for k in ('year', 'month', 'day', 'hour', 'minute', 'second')},
    'PyTime': {},
}
LEAN_KEYWORDS = {'at', 'do', 'end', 'from', 'fun', 'have', 'in', 'let', 'open', 'show', 'then', 'else', 'if',
                 'match', 'with', 'where', 'by', 'def', 'theorem', 'namespace', 'section', 'import', 'instance',
                 'structure', 'class', 'Type', 'Prop', 'Sort', 'mutual', 'private', 'protected', 'variable',
                 'universe', 'example', 'abbrev', 'inductive', 'deriving', 'extends', 'using', 'calc', 'suffices',
                 'obtain', 'return', 'repeat', 'for', 'unless', 'try', 'catch', 'finally', 'macro', 'syntax', 'notation'}

# What is translated.  group: which generated file; cls None: module-level function; self_type: the builtin the
# class derives from when `self` itself is used as a value; self_attrs: `self.<attr>` -> (parameter, type);
# args: argument -> type ('None' = specialised to the default None); optional: a failure is recorded in the header
# instead of breaking the tie.  externals: callee (as written) -> how external code enters as a PARAMETER:
#   (args, param, type)          the RESULT of that call with exactly these arguments is the parameter
#   ('fun', param, argtypes, rtype)   the callee is a function parameter, applied to the translated arguments
#   ('pred', param)              REGEX.search(s): truthiness of the match, a predicate parameter Str -> Bool
#   ('match', param, REGEX)      REGEX.match(s): the match object (None or its groups) is the parameter
#   ('ctor_int',)                cls(x) of an int subclass whose __new__ only wraps int.__new__ (shape checked)
#   ('proc', param, argtypes)    an expression statement `f(x)`: a parameter `.. -> Py Unit` (it may raise)
#   ('pfun', param, argtypes, rtype, {kw: type})   a function parameter that may raise, keyword arguments as declared;
#                                an rtype that is not a translator type (e.g. 'P') is an OPAQUE type parameter of the definition
#   ('expr', param, locals, rtype)   the key is a whole expression (as `ast.unparse` prints it): a function parameter
#                                applied to the named local variables; the expression itself is not translated
Target = namedtuple('Target', 'file cls fn lean self_type self_attrs externals optional group args fragment ret locals free',
                    defaults=('enc', None, None, None, None, None))
FROM_ICAL = {
    'Contentlines.from_ical': ('fun', 'lines_from_ical', ['Str'], 'StrList'),
    'line.parts': ('ptuple', 'parts', ['line'], ['Str', 'P', 'Str']),
    'line.raw_value()': ('expr', 'raw_value', ['line'], 'Str'),
    'component.ignore_exceptions': ('expr', 'ignore_exceptions', ['component'], 'Bool'),
    'component.errors.append': ('mut', 'errors_append', ['ErrPair']),
    'component_factory.get(c_name, Component)': ('expr', 'component_class', ['c_name'], 'K'),
    'c_class': ('callopaque', 'instantiate', 'K', 'C'),
    "getattr(component, 'name', '')": ('expr', 'name_of', ['component'], 'Str'),
    'component.name=': ('setattr', 'set_name', 'Str'),
    'stack[-1].add_component': ('mutlast', 'add_component', ['C']),
    'isinstance(component, Timezone)': ('expr', 'is_timezone', ['component'], 'Bool'),
    'in component': ('contains', 'has_property', 'C'),
    'tzp.cache_timezone_component': ('proc', 'cache_timezone_component', ['C']),
    'types_factory.for_property': ('fun', 'for_property', ['Str'], 'F'),
    'factory in (vText, vCategory)': ('expr', 'is_text_class', ['factory'], 'Bool'),
    'in params': ('contains', 'params_has', 'P'),
    "factory(factory.from_ical(val, params['TZID']))": ('pexpr', 'decode_tz', ['factory', 'val', 'params'], 'PV'),
    'factory(factory.from_ical(val))': ('pexpr', 'decode', ['factory', 'val'], 'PV'),
    "factory(factory.from_ical(vals, params['TZID']))": ('pexpr', 'decode_tz', ['factory', 'vals', 'params'], 'PV'),
    'factory(factory.from_ical(vals))': ('pexpr', 'decode', ['factory', 'vals'], 'PV'),
    'parsed_component.params=': ('setattr', 'set_params', 'P'),
    'component.add': ('mut', 'add', ['Str', 'PV'], {'encode': 0}),
}
SED = [('start', 'OptD'), ('end_', 'OptD'), ('duration', 'OptTDS')]
# how the object operations are spelled for the value type of a group (the hand model's type of date / datetime objects)
OBJ = {'alarm': {'isdate': 'true', 'isdatetime': '(!(Trig.isDate {x}))', 'add': '(pyAdd {a} {b})', 'naive': '(!(Trig.isAware {x}))'},
       'se': {'isdate': '(SE.Val.isDT {x})', 'isdatetime': '(SE.Val.isDatetime {x})', 'add': '(SE.Val.addDur {a} {b})'}}
ALARMTIME = {'_last_ack': ('last_ack', 'OptD'), '_snooze_until': ('snooze_until', 'OptD'), '_trigger': ('trigger_raw', 'D'),
             'alarm.ACKNOWLEDGED': ('alarm_acknowledged', 'OptD')}
ALARMS = {'_absolute_alarms': ('absolute_alarms', 'List:A'), '_start_alarms': ('start_alarms', 'List:A'),
          '_end_alarms': ('end_alarms', 'List:A'), '_start': ('start', 'OptD'), '_end': ('end_', 'OptD'),
          '_local_tzinfo': ('local_tzinfo', 'Opt:TZ'), '_last_ack': ('last_ack', 'OptD'),
          '_snooze_until': ('snooze_until', 'OptD'), '_parent': ('parent', 'Par')}
ALARMS_F = {'_absolute_alarms': ('absolute_alarms', 'List:A'), '_start_alarms': ('start_alarms', 'List:A'),
            '_end_alarms': ('end_alarms', 'List:A'), '_start': ('start', 'OptD'), '_end': ('end_', 'OptD'),
            '_last_ack': ('last_ack', 'OptD'), '_snooze_until': ('snooze_until_', 'OptD'), '_parent': ('parent_now', 'Opt:CO')}
ALARMS_EXT = {'to_datetime': ('fun', 'to_datetime', ['D'], 'D'), 'normalize_pytz': ('fun', 'normalize_pytz', ['D'], 'D'),
              'tzp.localize': ('fun', 'localize', ['D', 'TZ'], 'D'),
              'AlarmTime': ('fun', 'mk_alarm_time', ['A', 'D', 'OptD', 'OptD', 'Par'], 'AT'),
              'alarm.REPEAT': ('expr', 'alarm_repeat', ['alarm'], 'Int'),
              'alarm.DURATION': ('expr', 'alarm_duration', ['alarm'], 'OptTDS')}
SER_LINE = {"getattr(value, 'params', Parameters())": ('expr', 'params_of', ['value'], 'P'),
            'isinstance(value, bytes)': ('expr', 'is_bytes', ['value'], 'Bool'),
            "types_factory['inline'](value)": ('expr', 'inline_of', ['value'], 'IV'),
            'Contentline.from_parts': ('pfun', 'from_parts', ['Str', 'P', 'IV'], 'Str', {'sorted': 'Bool'})}
SE_GET_EVENT = {'self.DTSTART': ('pexpr', 'dtstart', [], 'OptD'), 'self.DTEND': ('pexpr', 'dtend', [], 'OptD'),
                'self.DURATION': ('pexpr', 'duration_prop', [], 'OptTDS')}
SE_GET_TODO = {'self.DTSTART': ('pexpr', 'dtstart', [], 'OptD'), 'self.DUE': ('pexpr', 'due', [], 'OptD'),
               'self.DURATION': ('pexpr', 'duration_prop', [], 'OptTDS')}
SE_SUB = {'datetime.__sub__': ('pfun', 'dt_sub', ['D', 'D'], 'TDS')}
TARGETS = [
    Target('prop.py', 'vDuration', 'to_ical', 'vDuration_to_ical', None, {'td': ('td', 'TD')}, {}, False),
    Target('prop.py', 'vUTCOffset', 'to_ical', 'vUTCOffset_to_ical', None, {'td': ('td', 'TD')}, {}, False),
    Target('prop.py', 'vDate', 'to_ical', 'vDate_to_ical', None, {'dt': ('dt', 'PyDate')}, {}, False),
    Target('prop.py', 'vDatetime', 'to_ical', 'vDatetime_to_ical', None, {'dt': ('dt', 'PyDateTime')},
           {'tzid_from_dt': (['dt'], 'tzid', 'OptStr')}, False),
    Target('prop.py', 'vTime', 'to_ical', 'vTime_to_ical', None, {'dt': ('dt', 'PyTime')}, {}, True),
    Target('prop.py', 'vMonth', '__str__', 'vMonth_str', 'Int', {'leap': ('leap', 'Bool')}, {}, False),
    Target('prop.py', 'vMonth', 'to_ical', 'vMonth_to_ical', 'Int', {'leap': ('leap', 'Bool')}, {}, False),
    Target('prop.py', 'vBoolean', 'to_ical', 'vBoolean_to_ical', 'Int', {}, {}, False),
    Target('prop.py', 'vInt', 'to_ical', 'vInt_to_ical', 'Int', {}, {}, False),
    Target('prop.py', 'vDDDTypes', 'to_ical', 'vDDDTypes_to_ical', None, {'dt': ('dt', 'U:PyDDD')},
           {'vPeriod(dt).to_ical()': ('pexpr', 'period_to_ical', ['dt'], 'Bytes'),
            'vTime(dt).to_ical()': ('expr', 'time_to_ical', ['dt'], 'Bytes')}, False, 'enc', None, None, 'Bytes'),
    Target('prop.py', 'vPeriod', 'to_ical', 'vPeriod_to_ical', None,
           {'by_duration': ('by_duration', 'Int'), 'start': ('start', 'U:PyDDD'), 'end': ('end_', 'U:PyDDD'), 'duration': ('duration', 'TD')},
           {}, False, 'enc', None, None, 'Bytes'),
    # wave 8: vDDDLists.to_ical (C11): the elements are opaque objects `DO`; `dt.to_ical()` of an element and `from_unicode` are
    # parameters; the generator bound to a name is consumed by the join that follows
    Target('prop.py', 'vDDDLists', 'to_ical', 'vDDDLists_to_ical', None, {'dts': ('dts', 'List:DO')},
           {'dt.to_ical()': ('pexpr', 'elem_to_ical', ['dt'], 'Bytes'),
            'from_unicode': ('fun', 'from_unicode', ['Bytes'], 'Bytes')}, False, 'enc', None, None, 'Bytes'),
    # ---- decoders
    Target('prop.py', 'vDate', 'from_ical', 'vDate_from_ical', None, {}, {}, False, 'dec', {'ical': 'Str'}),
    Target('prop.py', 'vTime', 'from_ical', 'vTime_from_ical', None, {}, {}, False, 'dec', {'ical': 'Str'}),
    Target('prop.py', 'vDatetime', 'from_ical', 'vDatetime_from_ical', None, {},
           {'tzp.localize_utc': ('fun', 'localize_utc', ['PyDateTime'], 'PyDateTime')}, False, 'dec',
           {'ical': 'Str', 'timezone': 'None'}),
    Target('prop.py', 'vUTCOffset', 'from_ical', 'vUTCOffset_from_ical', None, {}, {}, False, 'dec', {'ical': 'Str'}),
    Target('prop.py', 'vDuration', 'from_ical', 'vDuration_from_ical', None, {},
           {'DURATION_REGEX.match': ('match', 'm', 'DURATION_REGEX')}, False, 'dec', {'ical': 'Str'}),
    Target('prop.py', 'vInt', 'from_ical', 'vInt_from_ical', None, {}, {'cls': ('ctor_int',)}, False, 'dec',
           {'ical': 'Str'}),
    # wave 6: the typed dispatchers.  What vDDDTypes holds is the union `PyDDD` (date | datetime | time | timedelta | a pair);
    # vDDDTypes.from_ical and vPeriod.from_ical call each other: each takes the other as a function parameter
    Target('prop.py', 'vDDDTypes', 'from_ical', 'vDDDTypes_from_ical', None, {},
           {'vPeriod.from_ical': ('pfun', 'period_from_ical', ['Str'], 'Tuple:PyDDD × PyDDD', {'timezone': 'None'}),
            'tzp.localize_utc': ('fun', 'localize_utc', ['PyDateTime'], 'PyDateTime'),
            'DURATION_REGEX.match': ('match', 'm', 'DURATION_REGEX')}, False, 'dec',
           {'ical': 'Str', 'timezone': 'None'}, None, 'U:PyDDD'),
    Target('prop.py', 'vPeriod', 'from_ical', 'vPeriod_from_ical', None, {},
           {'vDDDTypes.from_ical': ('pfun', 'ddd_from_ical', ['Str'], 'U:PyDDD', {'timezone': 'None'})}, False, 'dec',
           {'ical': 'Str', 'timezone': 'None'}),
    # wave 8: vDDDLists.from_ical (C11): `ical.split(',')`, every part through the regenerated vDDDTypes.from_ical
    Target('prop.py', 'vDDDLists', 'from_ical', 'vDDDLists_from_ical', None, {}, {}, False, 'dec',
           {'ical': 'Str', 'timezone': 'None'}, None, 'List:U:PyDDD', {'out': 'List:U:PyDDD'}),
    # ---- recurrence rules (C19): vRecur.parse_type / from_ical / to_ical.  The rule under construction is an opaque `R`
    # (a CaselessDict), a part class an opaque `F`, a part value an opaque `RV`; what is stored under a key is one value or
    # a sequence of them (the union `RVals`, told apart by `isinstance(vals, SEQUENCE_TYPES)`)
    Target('prop.py', 'vRecur', 'parse_type', 'vRecur_parse_type', None, {},
           {'cls.types.get(key, vText)': ('expr', 'type_of', ['key'], 'F'),
            'parser.from_ical(v)': ('pexpr', 'part_from', ['parser', 'v'], 'RV')}, False, 'recur',
           {'key': 'Str', 'values': 'Str'}, None, 'List:RV'),
    Target('prop.py', 'vRecur', 'from_ical', 'vRecur_from_ical', None, {},
           {'cls.types.get(key, vText)': ('expr', 'type_of', ['key'], 'F'),
            'parser.from_ical(v)': ('pexpr', 'part_from', ['parser', 'v'], 'RV'),
            'cls()': ('expr', 'new_rule', [], 'R'), 'cls(recur)': ('expr', 'init_rule', ['recur'], 'R'),
            'recur[]=': ('setitem', 'set_item', 'Str', 'List:RV')}, False, 'recur', {'ical': 'Str'}, None, 'R'),
    Target('prop.py', 'vRecur', 'to_ical', 'vRecur_to_ical', None, {},
           {'self.sorted_items()': ('expr', 'sorted_items', [], 'Pairs:U:RVals'),
            'self.types.get(key, vText)': ('expr', 'type_of', ['key'], 'F'),
            'typ(val).to_ical()': ('pexpr', 'part_to', ['typ', 'val'], 'Bytes'),
            'from_unicode': ('fun', 'from_unicode', ['Bytes'], 'Bytes')}, False, 'recur', None, None, 'Bytes',
           {'result': 'List:Bytes'}),
    # ---- Component.add (C02).  `self` is an opaque mapping state `S` (self_type 'State:S'): `name in self`, `self[name]`,
    # `self[name] = value` are parameters and the function returns the state it leaves.  The argument is one Python value
    # or a list of them (`ArgU`), what is stored is one value object or a list (`StoredU`); `self._encode`,
    # `isinstance(value, datetime)`, `tzp.localize_utc` are parameters
    Target('cal.py', 'Component', 'add', 'Component_add', 'State:S', {},
           {'isinstance(value, datetime)': ('expr', 'is_datetime', ['value'], 'Bool'),
            'tzp.localize_utc': ('fun', 'localize_utc', ['U:ArgU'], 'U:ArgU'),
            'self._encode': ('pfun', 'encode_value', ['Str', 'U:ArgU', 'PD', 'Int'], 'OV', {}),
            'in self': ('contains', 'has_key', 'S'),
            'self[]': ('pgetitem', 'get_item', 'Str', 'U:StoredU'),
            'self[]=': ('setitem', 'set_item', 'Str', 'U:StoredU')}, False, 'add',
           {'name': 'Str', 'value': 'U:ArgU', 'parameters': 'PD', 'encode': 'Int'}, None, 'S', {'value': 'U:StoredU'}),
    # Component._encode (C02): the value and the object made of it are one opaque kind `OBJ`; the class lookup, the
    # constructor call, what is asked of and done to `obj.params` are parameters; `parameters` is None or a mapping: its
    # truth value and its items (a key with a value or None) are parameters
    Target('cal.py', 'Component', '_encode', 'Component_encode', None, {},
           {'isinstance(value, types_factory.all_types)': ('expr', 'is_typed', ['value'], 'Bool'),
            'types_factory.for_property': ('fun', 'for_property', ['Str'], 'F'),
            'klass(value)': ('pexpr', 'construct', ['klass', 'value'], 'OBJ'),
            'truthy parameters': ('expr', 'has_parameters', ['parameters'], 'Bool'),
            "hasattr(obj, 'params')": ('expr', 'has_params', ['obj'], 'Bool'),
            'Parameters()': ('expr', 'no_params', [], 'P'),
            'obj.params=': ('setattr', 'set_params', 'P'),
            'parameters.items()': ('expr', 'items_of', ['parameters'], 'Pairs:Opt:PVL'),
            'key in obj.params': ('expr', 'params_has', ['obj', 'key'], 'Bool'),
            'del obj.params[]': ('delitem', 'params_del', 'Str'),
            'obj.params[]=': ('setitem', 'params_set', 'Str', 'PVL')}, False, 'add',
           {'name': 'Str', 'value': 'OBJ', 'parameters': 'PD', 'encode': 'Int'}, None, 'OBJ'),
    # vDDDLists.__init__ (C02): VALUE and TZID of a list.  The argument is one object or an iterable of them (`DLU`:
    # `hasattr(dt_list, '__iter__')` tells which); `vDDDTypes(dt)` and what is read of its `.params` are parameters;
    # `{.. for dt in vDDD}` is a Python set (duplicate-free; `pop()` only of a one-element set is modelled)
    Target('prop.py', 'vDDDLists', '__init__', 'vDDDLists_init', 'Fields', {'params': ('params', 'P'), 'dts': ('dts', 'List:DO')},
           {'vDDDTypes(dt)': ('pexpr', 'make_ddd', ['dt'], 'DO'),
            "'TZID' in dt.params": ('expr', 'has_tzid', ['dt'], 'Bool'),
            "dt.params['TZID']": ('expr', 'tzid_of', ['dt'], 'PVL'),
            'Parameters()': ('expr', 'no_params', [], 'P'),
            "dt.params.get('VALUE')": ('expr', 'value_of', ['dt'], 'Opt:PVL'),
            'truthy tzid': ('expr', 'tzid_truthy', ['tzid'], 'Bool'),
            'self__params[]=': ('setitem', 'params_set', 'Str', 'Opt:PVL')}, False, 'add',
           {'dt_list': 'U:DLU'}, None, None, {'vDDD': 'List:DO', 'tzid': 'Opt:PVL'}),
    # ---- CaselessDict, what is left (C17): __ne__, __eq__, sorted_keys, sorted_items.  The mapping and the other operand are
    # opaque; the comparisons, `hasattr(other, 'items')`, `canonsort_keys` / `canonsort_items`, `self.keys()` and
    # `self.canonical_order` are parameters.  `NotImplemented` is None of an optional bool.  A method that is REMOVED from the
    # source makes the translation fail (`function not found`), which breaks the tie of C17
    Target('caselessdict.py', 'CaselessDict', '__ne__', 'cd_ne', 'State:S', {},
           {'self == other': ('expr', 'eq_other', ['self', 'other'], 'Bool')}, False, 'cdmeta', {'other': 'O'}, None, 'Bool'),
    Target('caselessdict.py', 'CaselessDict', '__eq__', 'cd_eq', 'State:S', {},
           {'self is other': ('expr', 'same_object', ['self', 'other'], 'Bool'),
            "hasattr(other, 'items')": ('expr', 'has_items', ['other'], 'Bool'),
            'dict(self.items()) == dict(CaselessDict(other).items())': ('expr', 'dict_eq', ['self', 'other'], 'Bool')},
           False, 'cdmeta', {'other': 'O'}, None, 'OptBool'),
    Target('caselessdict.py', 'CaselessDict', 'sorted_keys', 'cd_sorted_keys', 'State:S', {},
           {'canonsort_keys': ('fun', 'canonsort_keys', ['StrList', 'ORD'], 'StrList'),
            'self.keys()': ('expr', 'keys', ['self'], 'StrList'),
            'self.canonical_order': ('expr', 'canonical_order', ['self'], 'ORD')}, False, 'cdmeta', {}, None, 'StrList'),
    Target('caselessdict.py', 'CaselessDict', 'sorted_items', 'cd_sorted_items', 'State:S', {},
           {'canonsort_items': ('fun', 'canonsort_items', ['S', 'ORD'], 'Pairs:V'),
            'self.canonical_order': ('expr', 'canonical_order', ['self'], 'ORD')}, False, 'cdmeta', {}, None, 'Pairs:V'),
    # wave 8: update / __init__ / copy.  `*args` is a list of opaque objects `M` (a mapping, or an iterable of pairs), `**kwargs`
    # one more; what is asked of them (`hasattr(mapping, 'items')`, `iter(mapping.items())`, the pairs an iteration yields - or
    # the exception), `super().__init__(*args, **kwargs)`, `self.items()` (a snapshot), `super().__delitem__(key)`,
    # `self[key] = value`, `super().copy()` and `type(self)(..)` are parameters
    Target('caselessdict.py', 'CaselessDict', 'update', 'cd_update', 'State:S', {},
           {"hasattr(mapping, 'items')": ('expr', 'has_items', ['mapping'], 'Bool'),
            'iter(mapping.items())': ('expr', 'items_iter', ['mapping'], 'M'),
            'for mapping': ('pexpr', 'pairs_of', ['mapping'], 'Pairs:V'),
            'self[]=': ('setitem', 'set_item', 'Str', 'V')}, False, 'cdmeta', {'*args': 'List:M', '**kwargs': 'M'}, None, 'S'),
    Target('caselessdict.py', 'CaselessDict', '__init__', 'cd_init', 'State:S', {},
           {'super().__init__(*args, **kwargs)': ('selfstmt', 'super_init', ['args', 'kwargs']),
            'self.items()': ('expr', 'items', ['self'], 'Pairs:V'),
            'to_unicode': ('fun', 'to_unicode', ['Str'], 'Str'),
            'super().__delitem__(key)': ('selfstmt', 'super_delitem', ['key']),
            'self[]=': ('setitem', 'set_item', 'Str', 'V')}, False, 'cdmeta', {'*args': 'List:M', '**kwargs': 'M'}, None, 'S'),
    Target('caselessdict.py', 'CaselessDict', 'copy', 'cd_copy', 'State:S', {},
           {'type(self)': ('pfun', 'construct', ['S'], 'S', {}),
            'super().copy()': ('expr', 'super_copy', ['self'], 'S')}, False, 'cdmeta', {}, None, 'S'),
    # vDDDTypes.__init__ (C02 / C11): the VALUE and TZID parameters derived from what is wrapped (the union `PyDDD`); the
    # `Parameters(..)` constants, `tzid_from_dt` and `self.params.update({'TZID': tzid})` are parameters
    Target('prop.py', 'vDDDTypes', '__init__', 'vDDDTypes_init', 'Fields', {'params': ('params', 'P'), 'dt': ('dt_', 'U:PyDDD')},
           {'Parameters()': ('expr', 'params_none', [], 'P'),
            "Parameters({'value': 'DATE'})": ('expr', 'params_date', [], 'P'),
            "Parameters({'value': 'TIME'})": ('expr', 'params_time', [], 'P'),
            "Parameters({'value': 'PERIOD'})": ('expr', 'params_period', [], 'P'),
            'tzid_from_dt': ('fun', 'tzid_from_dt', ['U:PyDDD'], 'OptStr'),
            "self__params.update({'TZID': tzid})": ('fieldset', 'params_with_tzid', 'params', ['tzid'])}, False, 'add',
           {'dt': 'U:PyDDD'}),
    # vPeriod.__init__ (C02 / C11): the two members of the pair are opaque objects `PO`; every instance test, `start + duration`,
    # `end - start` and `start > end` (which may raise TypeError / OverflowError) are parameters KEYED BY THEIR SOURCE TEXT:
    # `start >= end` or a comparison of other operands is not the declared one and is refused
    Target('prop.py', 'vPeriod', '__init__', 'vPeriod_init', 'Fields',
           {'params': ('params', 'P'), 'start': ('start_', 'PO'), 'end': ('end_', 'PO'), 'by_duration': ('by_duration_', 'Int'),
            'duration': ('duration_', 'PO')},
           {'isinstance(start, datetime)': ('expr', 'start_is_datetime', ['start'], 'Bool'),
            'isinstance(start, date)': ('expr', 'start_is_date', ['start'], 'Bool'),
            'isinstance(end_or_duration, datetime)': ('expr', 'other_is_datetime', ['end_or_duration'], 'Bool'),
            'isinstance(end_or_duration, date)': ('expr', 'other_is_date', ['end_or_duration'], 'Bool'),
            'isinstance(end_or_duration, timedelta)': ('expr', 'other_is_timedelta', ['end_or_duration'], 'Bool'),
            'start + duration': ('pexpr', 'add', ['start', 'duration'], 'PO'),
            'end - start': ('pexpr', 'sub', ['end', 'start'], 'PO'),
            'start > end': ('pexpr', 'start_gt_end', ['start', 'end'], 'Bool'),
            "Parameters({'value': 'PERIOD'})": ('expr', 'params_period', [], 'P'),
            'tzid_from_dt': ('fun', 'tzid_from_dt', ['PO'], 'OptStr'),
            'self__params[]=': ('setitem', 'params_set', 'Str', 'Str')}, False, 'add',
           {'per': 'Tuple:PO × PO'}, None, None, {'end': 'PO', 'duration': 'PO', 'by_duration': 'Int'}),
    # vMonth.__new__ (C19 / C03) on a str: digits, or digits and a last character; the int object made by
    # `super().__new__(cls, month_index)` and the attributes set on it are parameters (`str.isdigit` is the ASCII one, as `upper`)
    Target('prop.py', 'vMonth', '__new__', 'vMonth_new', None, {},
           {'super().__new__(cls, month_index)': ('expr', 'new_int', ['month_index'], 'MO'),
            'self.leap=': ('setattr', 'set_leap', 'Bool'),
            'Parameters(params)': ('expr', 'params_of', ['params'], 'P'),
            'self.params=': ('setattr', 'set_params', 'P')}, False, 'dec',
           {'month': 'Str', 'params': 'PD'}, None, 'MO'),
    # ---- parser helpers
    Target('parser.py', None, 'dquote', 'dquote', None, {}, {'QUOTABLE.search': ('pred', 'quotable_search')}, False,
           'parser', {'val': 'Str'}),
    Target('parser.py', None, 'q_join', 'q_join', None, {}, {}, False, 'parser', {'lst': 'StrList', 'sep': 'Str'}),
    Target('parser.py', None, 'q_split', 'q_split', None, {}, {}, False, 'parser',
           {'st': 'Str', 'sep': 'Str', 'maxsplit': 'Int'}),
    # ---- content lines (C05)
    Target('parser.py', None, 'escape_string', 'escape_string', None, {}, {}, False, 'line', {'val': 'Str'}),
    Target('parser.py', None, 'unescape_string', 'unescape_string', None, {}, {}, False, 'line', {'val': 'Str'}),
    Target('parser.py', 'Contentline', 'raw_value', 'raw_value', 'Str', {}, {}, False, 'line'),
    Target('parser.py', 'Contentline', 'parts', 'parts_scan', None, {}, {}, False, 'line', {'st': 'Str'},
           ('name_split', 'value_split', 'i')),
    Target('parser.py', 'Contentline', 'parts', 'parts', 'Str', {'strict': ('strict', 'Bool')},
           {'validate_token': ('proc', 'validate_token', ['Str']),
            'Parameters.from_ical': ('pfun', 'params_from_ical', ['Str'], 'P', {'strict': 'Bool'}),
            'Parameters(((unescape_string(key), unescape_list_or_string(value)) for key, value in iter(params.items())))':
                ('expr', 'params_unescape', ['params'], 'P')}, False, 'line'),
    # ---- folding (C06), TEXT lists (C07)
    Target('parser.py', None, 'foldline', 'foldline', None, {}, {}, False, 'fold',
           {'line': 'Str', 'limit': 'Int', 'fold_sep': 'Str'}),
    Target('parser.py', None, 'split_on_unescaped_comma', 'split_on_unescaped_comma', None, {}, {}, False, 'text',
           {'text': 'Str'}),
    # ---- alarms (C15): AlarmTime.  `self.alarm.ACKNOWLEDGED` (the property `alarm` returns `self._alarm`; ACKNOWLEDGED
    # is a property of cal.Alarm, external) is one parameter; `to_datetime` of tools.py is a function parameter
    Target('tools.py', None, 'is_date', 'is_date', None, {}, {}, False, 'alarm', {'dt': 'D'}),
    Target('tools.py', None, 'is_datetime', 'is_datetime', None, {}, {}, False, 'alarm', {'dt': 'D'}),
    Target('alarms.py', 'AlarmTime', 'acknowledged', 'AlarmTime_acknowledged', None, ALARMTIME, {}, False, 'alarm',
           None, None, 'OptD'),
    Target('alarms.py', 'AlarmTime', 'trigger', 'AlarmTime_trigger', None, ALARMTIME,
           {'to_datetime': ('fun', 'to_datetime', ['D'], 'D')}, False, 'alarm', None, None, 'D'),
    Target('alarms.py', 'AlarmTime', 'is_active', 'AlarmTime_is_active', None, ALARMTIME,
           {'to_datetime': ('fun', 'to_datetime', ['D'], 'D')}, False, 'alarm', None, None, 'Bool'),
    # Alarms: a timedelta is the hand model's Int of seconds (`td.seconds` = seconds mod 86400); `normalize_pytz`,
    # `to_datetime` are function parameters; `alarm.REPEAT`, `alarm.DURATION` (properties of cal.Alarm) are parameters;
    # `self.times` (a property that builds AlarmTime objects) and `alarm_time.is_active()` are parameters of `active`
    Target('alarms.py', 'Alarms', '_add', 'Alarms_add', None, {},
           {'to_datetime': ('fun', 'to_datetime', ['D'], 'D'), 'normalize_pytz': ('fun', 'normalize_pytz', ['D'], 'D')},
           False, 'alarm', {'dt': 'D', 'td': 'TDS'}, None, 'D'),
    Target('alarms.py', 'Alarms', '_repeat', 'Alarms_repeat', None,
           {'alarm.REPEAT': ('alarm_repeat', 'Int'), 'alarm.DURATION': ('alarm_duration', 'OptTDS')},
           {'to_datetime': ('fun', 'to_datetime', ['D'], 'D'), 'normalize_pytz': ('fun', 'normalize_pytz', ['D'], 'D')},
           False, 'alarm', {'first': 'D', 'alarm': 'Object'}, None, 'DList'),
    Target('alarms.py', 'Alarms', 'active', 'Alarms_active', None, {'times': ('times', 'ATList')},
           {'is_active': ('pmeth', 'is_active', 'AT')}, False, 'alarm', None, None, 'ATList'),
    # Alarms.times and what it is made of (C14).  An alarm component is an opaque `A`; its properties TRIGGER, REPEAT,
    # DURATION (properties of cal.Alarm) are function parameters of it; TRIGGER is a datetime for the alarms of
    # `_absolute_alarms` and a timedelta for those of `_start_alarms` / `_end_alarms` (add_alarm sorts them so);
    # `tzp.localize`, the constructor `AlarmTime(..)` are function parameters; the local time zone `TZ` and the
    # parent `Par` are opaque
    Target('alarms.py', 'Alarms', '_alarm_time', 'Alarms_alarm_time', None, ALARMS, ALARMS_EXT, False, 'alarm',
           {'alarm': 'A', 'trigger': 'D'}, None, 'AT'),
    Target('alarms.py', 'Alarms', '_get_absolute_alarm_times', 'Alarms_get_absolute_alarm_times', None, ALARMS,
           dict(ALARMS_EXT, **{'alarm.TRIGGER': ('expr', 'alarm_trigger_abs', ['alarm'], 'D')}), False, 'alarm', None, None, 'List:AT'),
    Target('alarms.py', 'Alarms', '_get_start_alarm_times', 'Alarms_get_start_alarm_times', None, ALARMS,
           dict(ALARMS_EXT, **{'alarm.TRIGGER': ('expr', 'alarm_trigger_rel', ['alarm'], 'TDS')}), False, 'alarm', None, None, 'List:AT'),
    Target('alarms.py', 'Alarms', '_get_end_alarm_times', 'Alarms_get_end_alarm_times', None, ALARMS,
           dict(ALARMS_EXT, **{'alarm.TRIGGER': ('expr', 'alarm_trigger_rel', ['alarm'], 'TDS')}), False, 'alarm', None, None, 'List:AT'),
    Target('alarms.py', 'Alarms', 'times', 'Alarms_times', None, ALARMS, ALARMS_EXT, False, 'alarm', None, None, 'List:AT'),
    # Alarms.add_component and the setters it calls (C14): methods that write attributes of self return what they leave in them
    Target('alarms.py', 'Alarms', 'set_parent', 'Alarms_set_parent', 'Fields', ALARMS_F,
           {'self._parent is not parent': ('expr', 'parent_differs', ['self._parent', 'parent'], 'Bool')}, False, 'alarm', {'parent': 'CO'}),
    Target('alarms.py', 'Alarms', 'add_alarm', 'Alarms_add_alarm', 'Fields', ALARMS_F,
           {'alarm.TRIGGER': ('expr', 'alarm_trigger', ['alarm'], 'Opt:TR'),
            'isinstance(trigger, date)': ('expr', 'trigger_is_date', ['trigger'], 'Bool'),
            "alarm.TRIGGER_RELATED == 'START'": ('expr', 'related_is_start', ['alarm'], 'Bool')}, False, 'alarm', {'alarm': 'A'}),
    Target('alarms.py', 'Alarms', 'set_start', 'Alarms_set_start', 'Fields', ALARMS_F, {}, False, 'alarm', {'dt': 'OptD'}),
    Target('alarms.py', 'Alarms', 'set_end', 'Alarms_set_end', 'Fields', ALARMS_F, {}, False, 'alarm', {'dt': 'OptD'}),
    Target('alarms.py', 'Alarms', 'acknowledge_until', 'Alarms_acknowledge_until', 'Fields', ALARMS_F,
           {'tzp.localize_utc': ('fun', 'localize_utc', ['D'], 'D')}, False, 'alarm', {'dt': 'OptD'}),
    Target('alarms.py', 'Alarms', 'snooze_until', 'Alarms_snooze_until', 'Fields', ALARMS_F,
           {'tzp.localize_utc': ('fun', 'localize_utc', ['D'], 'D')}, False, 'alarm', {'dt': 'OptD'}),
    Target('alarms.py', 'Alarms', 'add_component', 'Alarms_add_component', 'Fields', ALARMS_F,
           {'isinstance(component, (Event, Todo))': ('expr', 'is_event_or_todo', ['component'], 'Bool'),
            'component.start': ('pexpr', 'component_start', ['component'], 'D'),
            'component.end': ('pexpr', 'component_end', ['component'], 'D'),
            'component.is_thunderbird()': ('expr', 'is_thunderbird', ['component'], 'Bool'),
            'component.X_MOZ_LASTACK': ('expr', 'x_moz_lastack', ['component'], 'OptD'),
            'component.X_MOZ_SNOOZE_TIME': ('expr', 'x_moz_snooze_time', ['component'], 'OptD'),
            'component.DTSTAMP': ('expr', 'dtstamp', ['component'], 'OptD'),
            "component.walk('VALARM')": ('expr', 'walk_valarm', ['component'], 'List:A')}, False, 'alarm', {'component': 'CO'}),
    # ---- component trees (C20): `self` is the hand model's `Comp`; `select` is a function argument
    Target('cal.py', 'Component', '_walk', 'Component__walk', 'Comp', {}, {}, False, 'walk',
           {'name': 'OptStr', 'select': 'Fn:Comp:Bool'}, None, 'CompList', {'result': 'CompList'}),
    Target('cal.py', 'Component', 'walk', 'Component_walk', 'Comp', {}, {}, False, 'walk',
           {'name': 'OptStr', 'select': 'Fn:Comp:Bool'}, None, 'CompList'),
    # ---- serialisation (C10): Component.property_items.  External: the value class lookup `types_factory['text']`
    # (unused as a value), `vText(self.name).to_ical()` (the bytes of BEGIN / END, a function of the name),
    # `self.sorted_keys()` / `self.keys()` (CaselessDict, functions of the component) and `self[name]`
    Target('cal.py', 'Component', 'property_items', 'Component_property_items', 'Comp', {},
           {"types_factory['text']": ('expr', None, [], 'Object'),
            'vText(self.name).to_ical()': ('expr', 'name_to_ical', ['self.name'], 'Bytes'),
            'self.sorted_keys': ('sfun', 'sorted_keys', 'StrList'), 'self.keys': ('sfun', 'keys', 'StrList'),
            'self[]': ('getitem', 'getitem', 'Vals')}, False, 'ser',
           {'recursive': 'Bool', 'sorted': 'Bool'}, None, 'ItemList', {'properties': 'ItemList'}),
    # Component.content_line / content_lines / to_ical (C10).  A value of a pair is a `PyIV` (bytes, a value object, a list);
    # what is read of it (`.params`, is it bytes, the inline wrapper), `Contentline.from_parts` and `Contentlines.to_ical`
    # are parameters; `Contentlines()` is the empty list (the class derives from list and defines no constructor)
    Target('cal.py', 'Component', 'content_line', 'Component_content_line', 'Comp', {}, SER_LINE, False, 'ser',
           {'name': 'Str', 'value': 'IV', 'sorted': 'Bool'}, None, 'Str'),
    Target('cal.py', 'Component', 'content_lines', 'Component_content_lines', 'Comp', {},
           dict(SER_LINE, Contentlines=('listctor', 'parser.py', 'StrList')), False, 'ser',
           {'sorted': 'Bool'}, None, 'StrList', {'contentlines': 'StrList'}),
    Target('cal.py', 'Component', 'to_ical', 'Component_to_ical', 'Comp', {},
           dict(SER_LINE, **{'content_lines.to_ical()': ('expr', 'lines_to_ical', ['content_lines'], 'Bytes')}), False, 'ser',
           {'sorted': 'Bool'}, None, 'Bytes'),
    # ---- wave 8, time-zone discovery (C18): Calendar.timezones / get_used_tzids / get_missing_tzids / add_missing_timezones.
    # `self` is the tree; `self.property_items(..)` / `self.walk(..)` are the regenerated Component methods of the groups `ser` /
    # `walk` (GROUP_USES).  What is asked of a value of a pair (`hasattr(value, 'params')`, `value.params.get('TZID')`: None,
    # a str, or a list / tuple of str - the union `TZP`), `'TZID' in timezone`, `timezone.tz_name` (a property of Timezone that
    # may raise), `Timezone.from_tzid(..)` (may raise; the dates are opaque) and `self.add_component(..)` are parameters
    Target('cal.py', 'Calendar', 'timezones', 'Calendar_timezones', 'Comp', {}, {}, False, 'tzuse', {}, None, 'CompList'),
    Target('cal.py', 'Calendar', 'get_used_tzids', 'Calendar_get_used_tzids', 'Comp', {},
           {"hasattr(value, 'params')": ('expr', 'has_params', ['value'], 'Bool'),
            "value.params.get('TZID')": ('expr', 'tzid_param', ['value'], 'U:TZP')}, False, 'tzuse',
           {}, None, 'Set:Str', {'result': 'Set:OptStr'}),
    Target('cal.py', 'Calendar', 'get_missing_tzids', 'Calendar_get_missing_tzids', 'Comp', {},
           {"'TZID' in timezone": ('expr', 'has_tzid', ['timezone'], 'Bool'),
            'timezone.tz_name': ('pexpr', 'tz_name', ['timezone'], 'Str')}, False, 'tzuse', {}, None, 'Set:Str'),
    Target('cal.py', 'Calendar', 'add_missing_timezones', 'Calendar_add_missing_timezones', 'Comp', {},
           {'Timezone.from_tzid': ('pfun', 'from_tzid', ['Str'], 'Comp', {'first_date': 'DT', 'last_date': 'DT'}),
            'self.add_component': ('mut', 'add_component', ['Comp'])}, False, 'tzuse',
           {'first_date': 'DT', 'last_date': 'DT'}, None, 'Comp'),
    # ---- wave 8, canonsort_keys (C17): a dict comprehension over enumerate, filtered comprehensions, keyed stable sort
    Target('caselessdict.py', None, 'canonsort_keys', 'canonsort_keys', None, {}, {}, False, 'cdsort',
           {'keys': 'StrList', 'canonical_order': 'Opt:StrList'}, None, 'StrList'),
    # ---- wave 8, the second half of Timezone.get_transitions (C12) as a FRAGMENT: everything after `transitions.sort()`.  A
    # transition is the tuple (transtime, osfrom, osto, name) with instants and timedeltas as ints of seconds (the hand model's
    # convention); `dst` (a dict from name to bool) is opaque, `dst[name]` a parameter that may raise KeyError
    Target('cal.py', 'Timezone', 'get_transitions', 'get_transitions_info', None, {},
           {'dst[]': ('pgetitem', 'dst_of', 'Str', 'Bool')}, False, 'tz',
           {'transitions': 'List:Tuple:Int × Int × Int × Str', 'dst': 'DST'},
           {'after': 'transitions.sort()', 'result': ('transition_times', 'transition_info')}, None,
           {'dst_offset': 'FalseOrInt', 'transition_info': 'List:Tuple:Int × Int × Str'}),
    # ---- the parse loop (C01 / C04 / C09): Component.from_ical.  Everything done with the opaque objects is a parameter
    Target('cal.py', 'Component', 'from_ical', 'Component_from_ical', None, {}, FROM_ICAL, False, 'parse',
           {'st': 'Str', 'multiple': 'Bool'}, None, 'Result:C', {'stack': 'List:C', 'comps': 'List:C'}),
    # ---- start / end (C16): the values are the hand model's `SE.Val`; `self._get_start_end_duration()` (the validity
    # checks, which may raise InvalidCalendar) is external: the three values it returned are parameters
    Target('tools.py', None, 'is_date', 'is_date', None, {}, {}, False, 'se', {'dt': 'D'}),
    Target('cal.py', 'Event', 'end', 'Event_end', None, {}, {'self._get_start_end_duration': ('tuple', SED)}, False, 'se',
           None, None, 'OptD'),
    Target('cal.py', 'Todo', 'end', 'Todo_end', None, {}, {'self._get_start_end_duration': ('tuple', SED)}, False, 'se',
           None, None, 'OptD'),
    # wave 5: the checks themselves.  The getters `self.DTSTART` / `self.DTEND` / `self.DUE` / `self.DURATION` (descriptors
    # that may raise InvalidCalendar) are parameters: computations that give a value or raise; `end - start` of two
    # date / datetime objects (it depends on the tzinfo objects) is a parameter.  `.start`, `.duration` and a second
    # translation of `.end` (`Event_end_full`, ..) call the translated checks
    Target('cal.py', 'Event', '_get_start_end_duration', 'Event_get_start_end_duration', None, {}, SE_GET_EVENT, False, 'se'),
    Target('cal.py', 'Todo', '_get_start_end_duration', 'Todo_get_start_end_duration', None, {}, SE_GET_TODO, False, 'se'),
    Target('cal.py', 'Event', 'start', 'Event_start', None, {}, SE_GET_EVENT, False, 'se', None, None, 'D'),
    Target('cal.py', 'Todo', 'start', 'Todo_start', None, {}, SE_GET_TODO, False, 'se', None, None, 'D'),
    Target('cal.py', 'Event', 'end', 'Event_end_full', None, {}, SE_GET_EVENT, False, 'se', None, None, 'OptD'),
    Target('cal.py', 'Todo', 'end', 'Todo_end_full', None, {}, SE_GET_TODO, False, 'se', None, None, 'OptD'),
    Target('cal.py', 'Event', 'duration', 'Event_duration', None, {}, dict(SE_GET_EVENT, **SE_SUB), False, 'se', None, None, 'TDS'),
    Target('cal.py', 'Todo', 'duration', 'Todo_duration', None, {}, dict(SE_GET_TODO, **SE_SUB), False, 'se', None, None, 'TDS'),
    # ---- wave 9 (C16): the setter / deleter closures of `create_single_property` and `_set_duration` / `_del_duration`.  `self` is an
    # opaque state `S` (the component as a mapping); the free variables of the closures (`prop`, `value_type`, `vProp`) are
    # parameters; the assigned object is an opaque `AV` or None; `isinstance(value, value_type)`, the wrapper `vProp(value)` /
    # `vDuration(value)` (may raise), `self[k] = v`, `self.pop(k)` / `self.pop(k, None)` and the class attribute `exclusive` are parameters
    Target('cal.py', None, 'create_single_property.p_del', 'p_del', 'State:S', {},
           {'self.pop': ('mut', 'pop', ['Str'])}, False, 'sedesc', {}, None, 'S', None, {'prop': 'Str'}),
    Target('cal.py', None, 'create_single_property.p_set', 'p_set', 'State:S', {'exclusive': ('exclusive', 'StrList')},
           {'isinstance(value, value_type)': ('expr', 'is_instance', ['value', 'value_type'], 'Bool'),
            'vProp(value)': ('pexpr', 'wrap', ['vProp', 'value'], 'SV'),
            'self[]=': ('setitem', 'set_item', 'Str', 'SV'),
            'self.pop': ('mut', 'pop_default', ['Str', 'None'])}, False, 'sedesc', {'value': 'Opt:AV'}, None, 'S', None,
           {'prop': 'Str', 'value_type': 'VT', 'vProp': 'VP'}),
    Target('cal.py', None, '_set_duration', 'set_duration', 'State:S', {},
           {'isinstance(value, timedelta)': ('expr', 'is_timedelta', ['value'], 'Bool'),
            'vDuration(value)': ('pexpr', 'wrap_duration', ['value'], 'SV'),
            'self[]=': ('setitem', 'set_item', 'Str', 'SV'),
            'self.pop/1': ('mut', 'pop', ['Str']),
            'self.pop/2': ('mut', 'pop_default', ['Str', 'None'])}, False, 'sedesc', {'value': 'Opt:AV'}, None, 'S'),
    Target('cal.py', None, '_del_duration', 'del_duration', 'State:S', {},
           {'self.pop': ('mut', 'pop', ['Str'])}, False, 'sedesc', {}, None, 'S'),
] + [   # ---- CaselessDict (C17): the delegating methods; `to_unicode` is a function parameter
    Target('caselessdict.py', 'CaselessDict', m, 'cd_' + m.strip('_'), 'Store', {},
           {'to_unicode': ('fun', 'to_unicode', ['Str'], 'Str'),
            'super().' + sup: ('super', 'super_' + sup.strip('_'), [a for a in supargs])}, False, 'cdict',
           args, None, 'StepOut')
    for m, sup, args, supargs in (
        ('__getitem__', '__getitem__', {'key': 'Str'}, ['Str']),
        ('__setitem__', '__setitem__', {'key': 'Str', 'value': 'V'}, ['Str', 'V']),
        ('__delitem__', '__delitem__', {'key': 'Str'}, ['Str']),
        ('__contains__', '__contains__', {'key': 'Str'}, ['Str']),
        ('get', 'get', {'key': 'Str', 'default': 'OptV'}, ['Str', 'OptV']),
        ('setdefault', 'setdefault', {'key': 'Str', 'value': 'V'}, ['Str', 'V']),
        ('pop', 'pop', {'key': 'Str', 'default': 'OptV'}, ['Str', 'OptV']),
        ('popitem', 'popitem', {}, []),
        ('move_to_end', 'move_to_end', {'key': 'Str', 'last': 'Bool'}, ['Str', 'Bool']),
        ('has_key', '__contains__', {'key': 'Str'}, ['Str']))
]

# a translated expression; lits: possible str literals or None; elts: the components of a tuple display
V = namedtuple('V', 'lean type lits elts', defaults=(None,))
Tail = namedtuple('Tail', 'names make')        # what a block continues with when its statements run out
ALIAS = 'alias'     # V.elts of a variable that is `xs[-1] if xs else None`: (ALIAS, the list's name)
Done = namedtuple('Done', 'lean params rtype monadic nargs objself func argtypes fields elts', defaults=(False, 0, False, None, None, None, None))  # a translated function
SUBVALUE = {'LocalTimezoneMissing': 'localTimezoneMissing', 'ComponentStartMissing': 'componentStartMissing',
            'ComponentEndMissing': 'componentEndMissing', 'InvalidCalendar': 'invalidCalendar',
            'IncompleteComponent': 'incompleteComponent'}       # ValueError subclasses of icalendar
EXC = {'ValueError': ['valueError'] + list(SUBVALUE.values()), 'OverflowError': ['overflowError'], 'KeyError': ['keyError'],
       'IndexError': ['indexError'], 'AttributeError': ['attributeError'], 'TypeError': ['typeError'],
       'LookupError': ['keyError', 'indexError'], 'ArithmeticError': ['overflowError']}


ITER = {'ItemList': 'Item', 'Str': 'Char', 'IntList': 'Int', 'CompList': 'Comp', 'StrList': 'Str', 'ValList': 'Val'}     # what a `for` runs over


class NeedMonad(Exception):
    """the function can raise: translate it again into `Py T`"""


class LazyPartial(X.Untranslatable):
    """a call that can raise stands in a lazily evaluated operand (an `if A and B:` is then tried as nested ifs)"""


class Widen(Exception):
    """a state variable of a loop needs a wider type: translate the loop again"""

    def __init__(self, name, typ):
        self.name, self.typ = name, typ


# union types `U:<Name>`: member type -> constructor; (Python classes an instance test names -> the constructors it accepts)
UNIONS = {'DLU': {'members': {'DV': 'one', 'List:DV': 'many'}, 'lean': 'PyOneMany DV', 'classes': {'hasattr:__iter__': ['many']}},
          'ArgU': {'members': {'PV': 'one', 'List:PV': 'many'}, 'lean': 'PyOneMany PV', 'classes': {'list': ['many']}},
          'StoredU': {'members': {'OV': 'one', 'List:OV': 'many'}, 'lean': 'PyOneMany OV', 'classes': {'list': ['many']}},
          'RVals': {'members': {'RV': 'one', 'List:RV': 'many'}, 'lean': 'PyOneMany RV',
                    # SEQUENCE_TYPES of parser_tools.py must be (list, tuple): looked up on every run
                    'classes': {'SEQUENCE_TYPES': ['many']}},
          'PyDDD': {'members': {'PyDate': 'date', 'PyDateTime': 'dt', 'PyTime': 'time', 'TD': 'dur'},
                    'pair': 'period',       # a tuple display of two values of the union
                    'classes': {'datetime': ['dt'], 'date': ['date', 'dt'], 'time': ['time'], 'timedelta': ['dur'], 'tuple': ['period']}},
          # wave 8: what `params.get('TZID')` gives: None or a str (`one`, an optional str), or a list / tuple of str (`many`)
          # (`many` stands for both list and tuple: a test that names only one of them does not decide it and is refused)
          'TZP': {'members': {'OptStr': 'one', 'StrList': 'many'}, 'lean': 'PyTzid', 'classes': {'list': ['many'], 'tuple': ['many']},
                  'all_of': {'many': ['list', 'tuple']}}}


def others_rebind(func, name):
    """is the parameter `name` assigned anywhere in the function"""
    return any(isinstance(n, ast.Name) and n.id == name and isinstance(n.ctx, ast.Store) for n in ast.walk(func))


def to_union(v, want):
    """a value of a member type (or a pair of union values) as a value of the union `want` = 'U:<Name>', else None"""
    u = UNIONS.get(want[2:]) if want.startswith('U:') else None
    if u is None:
        return None
    head = u.get('lean', want[2:]).split()[0]
    if v.type in u['members']:
        return V(f'({head}.{u["members"][v.type]} {v.lean})', want, None)
    if v.type == 'Tuple' and len(v.elts) == 2 and 'pair' in u:
        a, b = (x if x.type == want else to_union(x, want) for x in v.elts)
        if a is not None and b is not None:
            return V(f'({head}.{u["pair"]} {a.lean} {b.lean})', want, None)
    if v.type == f'Tuple:{want[2:]} × {want[2:]}' and 'pair' in u:
        return V(f'({head}.{u["pair"]} {v.lean}.1 {v.lean}.2)', want, None)
    return None


FIELD_LNAME = {}       # `self__<attr>` (an attribute of self that the function being translated writes) -> its Lean name


def lname(name):
    if name in FIELD_LNAME:
        return FIELD_LNAME[name]
    if name == "out'":      # the list of what a generator yields (not a Python identifier: cannot clash)
        return name
    return name + '_' if name in LEAN_KEYWORDS or name.endswith("'") else name


def reads(nodes):
    """names read by the statements (`x += e` reads x)"""
    out = set()
    for s in nodes:
        for n in ast.walk(s):
            if isinstance(n, ast.Name) and isinstance(n.ctx, ast.Load):
                out.add(n.id)
            if isinstance(n, ast.AugAssign) and isinstance(n.target, ast.Name):
                out.add(n.target.id)
    return out


def is_append(n):
    """`x.append(v)` on a name"""
    return isinstance(n, ast.Call) and isinstance(n.func, ast.Attribute) and isinstance(n.func.value, ast.Name) and not n.keywords \
        and ((n.func.attr == 'append' and len(n.args) == 1) or (n.func.attr == 'pop' and not n.args))


def assigned(nodes):
    """names bound or appended to by the statements"""
    out = []
    for s in nodes:
        for n in ast.walk(s):
            name = n.id if isinstance(n, ast.Name) and isinstance(n.ctx, ast.Store) else \
                n.func.value.id if is_append(n) else "out'" if isinstance(n, ast.Yield) else \
                n.targets[0].value.id if isinstance(n, ast.Assign) and len(n.targets) == 1 and isinstance(n.targets[0], (ast.Attribute, ast.Subscript)) \
                and isinstance(n.targets[0].value, ast.Name) and n.targets[0].value.id != 'self' else \
                n.targets[0].value.value.id if isinstance(n, (ast.Assign, ast.Delete)) and len(n.targets) == 1 \
                and isinstance(n.targets[0], ast.Subscript) and isinstance(n.targets[0].value, ast.Attribute) \
                and isinstance(n.targets[0].value.value, ast.Name) and n.targets[0].value.value.id != 'self' else None
            if name is not None and name not in out:
                out.append(name)
    return out


def module_bindings(tree):
    """module-level names -> what binds them (only plain top-level statements are looked at)"""
    out = {}
    for n in tree.body:
        if isinstance(n, (ast.FunctionDef, ast.ClassDef)):
            out[n.name] = 'def'
        elif isinstance(n, (ast.Assign, ast.AnnAssign, ast.AugAssign)):
            for x in ast.walk(n):
                if isinstance(x, ast.Name) and isinstance(x.ctx, ast.Store):
                    out[x.id] = 'assign'
        elif isinstance(n, ast.ImportFrom):
            for a in n.names:
                out[a.asname or a.name] = f'{n.module}.{a.name}'
        elif isinstance(n, ast.Import):
            for a in n.names:
                out[a.asname or a.name.split('.')[0]] = a.name
    return out


def find_fragment(func):
    """the statements of a FRAGMENT target: the first `for` loop of the function and the assignments of constants
    directly in front of it (also used by the harness to run exactly these source lines)"""
    for n in ast.walk(func):
        for f in ('body', 'orelse', 'finalbody'):
            stmts = getattr(n, f, None)
            if isinstance(stmts, list) and any(isinstance(x, ast.For) for x in stmts):
                k = next(i for i, x in enumerate(stmts) if isinstance(x, ast.For))
                a = k
                while a > 0 and isinstance(stmts[a - 1], ast.Assign) and len(stmts[a - 1].targets) == 1 \
                        and isinstance(stmts[a - 1].targets[0], ast.Name) and isinstance(stmts[a - 1].value, ast.Constant):
                    a -= 1
                return stmts[a:k + 1]
    return None


def find_closure(tree, dotted, free):
    """wave 9: the nested function `outer.inner`.  `inner` must be bound exactly once in `outer` (by that def, directly in
    its body); the declared free variables must be parameters of `outer` that nothing in `outer` (the closures included)
    rebinds, so that inside the closure each stands for the value the factory was called with."""
    outer_name, inner_name = dotted.split('.')
    outer = X.find_func(tree, outer_name)
    defs = [n for n in outer.body if isinstance(n, ast.FunctionDef) and n.name == inner_name]
    binds = [n for n in ast.walk(outer) if n is not outer and
             ((isinstance(n, (ast.FunctionDef, ast.ClassDef, ast.AsyncFunctionDef)) and n.name == inner_name)
              or (isinstance(n, ast.Name) and n.id == inner_name and isinstance(n.ctx, (ast.Store, ast.Del)))
              or (isinstance(n, ast.arg) and n.arg == inner_name)
              or (isinstance(n, (ast.Global, ast.Nonlocal)) and inner_name in n.names))]
    if len(defs) != 1 or len(binds) != 1:
        raise Untranslatable(f'line {outer.lineno}: closure `{dotted}`: `{inner_name}` is not bound exactly once, by a def directly in `{outer_name}`')
    a = outer.args
    params = [x.arg for x in a.posonlyargs + a.args + a.kwonlyargs]
    for n in free:
        if n not in params:
            raise Untranslatable(f'line {outer.lineno}: closure `{dotted}`: the free variable `{n}` is no parameter of `{outer_name}`')
        for m in ast.walk(outer):
            if (isinstance(m, ast.Name) and m.id == n and isinstance(m.ctx, (ast.Store, ast.Del))) \
                    or (isinstance(m, (ast.Global, ast.Nonlocal)) and n in m.names) \
                    or (isinstance(m, ast.arg) and m.arg == n and m not in a.posonlyargs + a.args + a.kwonlyargs) \
                    or (isinstance(m, (ast.FunctionDef, ast.ClassDef)) and m.name == n) \
                    or (isinstance(m, ast.ExceptHandler) and m.name == n) \
                    or (isinstance(m, ast.alias) and (m.asname or m.name) == n):
                raise Untranslatable(f'line {getattr(m, "lineno", outer.lineno)}: closure `{dotted}`: the free variable `{n}` is rebound in `{outer_name}`')
    return defs[0]


def has_return(nodes):
    """does a `return` or `raise` occur inside (the statement can end the function)"""
    return any(isinstance(n, (ast.Return, ast.Raise, ast.Break, ast.Continue)) for s in nodes for n in ast.walk(s))


class Fn:
    """translation of one function"""

    def __init__(self, target, cls_node, func, registry, modnames=None):
        self.t, self.cls, self.func, self.registry = target, cls_node, func, registry
        self.pairtarget = {}
        self.tupletarget = {}
        self.setelts = set()
        self.excluded = {}
        self.modnames = modnames or {}
        self.qual = f'{target.file[:-3]}.' + (f'{target.cls}.' if target.cls else '') + target.fn
        self.used = []            # parameters actually referenced, in order of first use
        self.rtype = None
        self.fresh = 0
        self.monadic = False      # the function can raise: Py T, `do` block
        self.pre = []             # hoisted partial calls of the statement being translated
        self.lazy = 0             # > 0 inside an operand that Python may not evaluate
        self.notes = []           # tests decided at translation time (specialised arguments)
        self.tree = None          # module AST (regex sources)
        self.src_dir = None
        self.aux = []             # generated loop definitions (text), emitted before the function
        self.nloops = 0
        self.loopctx = []         # the loop being translated: what break / continue / return / end of body become
        self.slots = {}           # state variables of that loop -> their type
        self.slot_init = {}
        self.rtype_lean = None    # fragments: the Lean result type
        self.consts = {}
        self.narrow = {}          # Lean name of an optional variable / parameter -> the value it is known to hold here
        self.dictself = target.self_type == 'Store'  # `self` is the state of an ordered dict
        self.objself = target.self_type == 'Comp'    # `self` is a tree: definition by pattern matching, Python arguments after it
        self.recursive = False
        self.super_used = False
        self.handling = []        # Lean names of the exceptions of the handlers being translated

    def fail(self, node, what):
        raise Untranslatable(f'{self.qual}: line {getattr(node, "lineno", "?")}: {what}')

    def param(self, name, typ):
        if (name, typ) not in self.used:
            self.used.append((name, typ))
        return V(name, typ, None)

    def hoist(self, node, lean, typ):
        """a call that can raise: bound by `←` before the statement, in evaluation order"""
        if self.lazy:
            raise LazyPartial(f'{self.qual}: line {getattr(node, "lineno", "?")}: `{ast.unparse(node)[:40]}` can raise and '
                              'stands where Python may not evaluate it')
        if not self.monadic:
            raise NeedMonad()
        self.fresh += 1
        self.pre.append(f"let t{self.fresh}' : {lean_type(typ)} ← {lean}")
        return V(f"t{self.fresh}'", typ, None)

    def take_pre(self):
        p, self.pre = self.pre, []
        return p

    def lazily(self, f, *a):
        self.lazy += 1
        try:
            return f(*a)
        finally:
            self.lazy -= 1

    def static(self, node, env):
        """a test that the declared argument types decide: True / False, else None"""
        if isinstance(node, ast.UnaryOp) and isinstance(node.op, ast.Not):
            st = self.static(node.operand, env)
            return None if st is None else not st
        if any(isinstance(n, ast.Name) and n.id in self.slots for n in ast.walk(node)):
            return None         # a state variable of the loop being translated may change its type
        if isinstance(node, ast.Name) and node.id in env and env[node.id].type == 'None':
            return False
        if isinstance(node, ast.Compare) and len(node.ops) == 1 and isinstance(node.ops[0], (ast.Is, ast.IsNot)) \
                and isinstance(node.comparators[0], ast.Constant) and node.comparators[0].value is None \
                and isinstance(node.left, ast.Name) and node.left.id in env \
                and env[node.left.id].type in ('None', 'Str', 'Int', 'TD', 'StrList'):
            return (env[node.left.id].type == 'None') == isinstance(node.ops[0], ast.Is)
        if isinstance(node, ast.Call) and isinstance(node.func, ast.Name) and node.func.id == 'isinstance' \
                and 'isinstance' not in self.modnames and len(node.args) == 2 and not node.keywords \
                and isinstance(node.args[0], ast.Name) and node.args[0].id in env and isinstance(node.args[1], ast.Tuple) \
                and env[node.args[0].id].type.startswith('U:') and env[node.args[0].id].lean in self.narrow \
                and all(isinstance(c, ast.Name) and c.id in UNIONS[env[node.args[0].id].type[2:]]['classes'] for c in node.args[1].elts):
            xv = env[node.args[0].id]       # a value of a union already known to be of one member, tested for several classes
            u, nv = UNIONS[xv.type[2:]], self.narrow[xv.lean]
            ctor = u.get('pair') if nv.type == 'Tuple' else u['members'].get(nv.type)
            if ctor is not None:
                return any(ctor in u['classes'][c.id] for c in node.args[1].elts)
        if isinstance(node, ast.Call) and isinstance(node.func, ast.Name) and node.func.id == 'isinstance' \
                and 'isinstance' not in self.modnames and len(node.args) == 2 and not node.keywords \
                and isinstance(node.args[0], ast.Name) and node.args[0].id in env and isinstance(node.args[1], ast.Name):
            typ, what = env[node.args[0].id].type, node.args[1].id
            xv = env[node.args[0].id]
            if typ.startswith('U:') and xv.lean in self.narrow and what in UNIONS[typ[2:]]['classes']:
                # a value of a union already known to be of one member
                u, nv = UNIONS[typ[2:]], self.narrow[xv.lean]
                ctor = u.get('pair') if nv.type == 'Tuple' else u['members'].get(nv.type)
                if ctor is not None:
                    return ctor in u['classes'][what]
            if what == 'str' and 'str' not in self.modnames and typ in ('None', 'Str'):
                return typ == 'Str'
            self.static_typ = typ
            if what == self.t.cls and self.cls is not None and self.modnames.get(what) == 'def' and typ == 'Str' and self.plain_class(self.cls):
                return False        # a str is not an instance of this class (its builtin ancestors are not str)
            if what == 'cls' and self.cls is not None and typ in ('None', 'Str', 'Int') and self.plain_class(self.cls):
                return False        # a str / int / None is not an instance of a class whose bases (in this file) end in object
        return None

    def plain_class(self, c, seen=0, tree=None):
        """no ancestor of the class is str / int / another builtin a str or int could be an instance of: every base is a
        class of this file or of an icalendar module with that property, or OrderedDict / dict / list / object"""
        if seen > 6:
            return False
        tree = tree or self.tree
        for b in c.bases:
            if not isinstance(b, ast.Name):
                return False
            how = module_bindings(tree).get(b.id)
            if how == 'def':
                d = next((n for n in tree.body if isinstance(n, ast.ClassDef) and n.name == b.id), None)
                if d is None or not self.plain_class(d, seen + 1, tree):
                    return False
            elif how == 'collections.OrderedDict' or (how is None and b.id in ('dict', 'list', 'object')) \
                    or (how is None and b.id in ('int', 'float') and getattr(self, 'static_typ', None) == 'Str'):
                continue        # a str / int / None is no mapping and no list
            elif how is not None and how.startswith('icalendar.'):
                mod = how.rsplit('.', 1)[0]
                other = X.parse(os.path.join(self.src_dir, *mod.split('.')[1:]) + '.py')
                d = next((n for n in other.body if isinstance(n, ast.ClassDef) and n.name == b.id), None)
                if d is None or not self.plain_class(d, seen + 1, other):
                    return False
            else:
                return False
        return True

    def builtin_method_ok(self, node, *dunder):
        """`self` is used as the builtin it derives from: the class must derive from exactly that builtin and
        must not override the special methods involved"""
        want = {'Int': 'int', 'Str': 'str'}[self.t.self_type]
        if [ast.unparse(b) for b in self.cls.bases] != [want]:
            self.fail(node, f'class {self.t.cls} does not derive from exactly `{want}`')
        for st in self.cls.body:
            if isinstance(st, ast.FunctionDef) and st.name in dunder:
                self.fail(node, f'class {self.t.cls} overrides {st.name}')

    # ------------------------------------------------------------ expressions

    def never_false(self, typ, node):
        """`if x:` on an optional object tests for None only when the object itself is never false: the class must
        define `__bool__` as `return True` (looked up in the source on every run)"""
        where = NEVER_FALSE.get(typ)
        if where is None:
            self.fail(node, f'truthiness of an object of the opaque type {typ}')
        tree = X.parse(os.path.join(self.src_dir, where[0]))
        for c in ast.walk(tree):
            if isinstance(c, ast.ClassDef) and c.name != where[1]:
                for st in c.body:
                    if isinstance(st, ast.FunctionDef) and st.name in ('__bool__', '__len__'):
                        self.fail(node, f'truthiness of a {where[1]}: class {c.name} of {where[0]} defines {st.name}')
        for c in ast.walk(tree):
            if isinstance(c, ast.ClassDef) and c.name == where[1]:
                for st in c.body:
                    if isinstance(st, ast.FunctionDef) and st.name == '__bool__':
                        body = [b for b in st.body if not (isinstance(b, ast.Expr) and isinstance(b.value, ast.Constant))]
                        if len(body) == 1 and isinstance(body[0], ast.Return) and isinstance(body[0].value, ast.Constant) \
                                and body[0].value.value is True:
                            return
                        self.fail(node, f'truthiness of a {where[1]}: its __bool__ is not `return True`')
        self.fail(node, f'truthiness of a {where[1]}: the class defines no __bool__ (a mapping without items is false)')

    def truth(self, v, node):
        if isinstance(node, ast.Name) and self.t.externals.get('truthy ' + node.id, ('',))[0] == 'expr':
            e = self.t.externals['truthy ' + node.id]       # the truth value of an opaque object: a parameter
            f = self.param(e[1], f'{lean_type(v.type)} → Bool')
            return f'({f.lean} {v.lean})'
        if v.type == 'Bool':
            return v.lean
        if v.type == 'Truth':
            return v.lean
        if v.type in ('Int', 'Str', 'Bytes', 'TD', 'OptStr', 'None', 'OptInt'):
            return f'(truthy {v.lean})'
        if v.type.startswith('Match') or v.type == 'OptD':
            return f'{v.lean}.isSome'
        if v.type.startswith('List:'):
            return f'(!{v.lean}.isEmpty)'
        if v.type.startswith('Opt:'):
            self.never_false(v.type[4:], node)
            return f'{v.lean}.isSome'
        if v.type == 'Tuple' and v.elts:
            return 'true'       # a pair is not empty
        if v.type == 'D':
            return 'true'       # a date / datetime object is never false
        if isinstance(node, ast.Name) and self.t.externals.get('truthy ' + node.id, ('',))[0] == 'expr':
            e = self.t.externals['truthy ' + node.id]       # the truth value of an opaque object: a parameter
            f = self.param(e[1], f'{lean_type(v.type)} → Bool')
            return f'({f.lean} {v.lean})'
        self.fail(node, f'truthiness of a value of type {v.type}')

    def presence(self, v, env):
        """`x is not None` / `isinstance(x, date | datetime)` on a variable that holds an optional date / timedelta and
        is not yet known to be present: (variable, the test on the object or None)"""
        if isinstance(v, ast.Compare) and len(v.ops) == 1 and isinstance(v.ops[0], ast.IsNot) and isinstance(v.left, ast.Name) \
                and isinstance(v.comparators[0], ast.Constant) and v.comparators[0].value is None and v.left.id in env:
            x = env[v.left.id]
            if x.type in ('OptD', 'OptTDS') and x.lean not in self.narrow and re.fullmatch(r"[A-Za-z_][\w']*", x.lean):
                return x, None
        if isinstance(v, ast.Call) and isinstance(v.func, ast.Name) and v.func.id == 'isinstance' and 'isinstance' not in self.modnames \
                and len(v.args) == 2 and not v.keywords and isinstance(v.args[0], ast.Name) and v.args[0].id in env \
                and isinstance(v.args[1], ast.Name) and v.args[1].id in ('date', 'datetime') \
                and self.modnames.get(v.args[1].id) == 'datetime.' + v.args[1].id:
            x = env[v.args[0].id]
            if x.type == 'OptD' and x.lean not in self.narrow and re.fullmatch(r"[A-Za-z_][\w']*", x.lean):
                return x, 'is' + v.args[1].id
        return None

    def and_chain(self, values, env):
        if not values:
            return 'true'
        p = self.presence(values[0], env) if len(values) > 1 else None
        if p is None:
            a = self.test(values[0], env)
            if len(values) == 1:
                return a
            return f'({a} && {self.lazily(self.and_chain, values[1:], env)})'
        x, what = p
        self.fresh += 1
        v = f"n{self.fresh}'"
        old = dict(self.narrow)
        self.narrow[x.lean] = V(v, {'OptD': 'D', 'OptTDS': 'TDS'}[x.type], None)
        try:
            rest = self.lazily(self.and_chain, values[1:], env)
        finally:
            self.narrow = old
        here = '' if what is None else OBJ[self.t.group][what].format(x=v) + ' && '
        return f'(match {x.lean} with | none => false | some {v} => ({here}{rest}))'

    def test(self, node, env):
        """an expression in a boolean context -> Lean Bool term"""
        if isinstance(node, ast.BoolOp) and isinstance(node.op, ast.And) and any(self.presence(v, env) for v in node.values[:-1]):
            return self.and_chain(list(node.values), env)
        if isinstance(node, ast.BoolOp):
            op = ' && ' if isinstance(node.op, ast.And) else ' || '
            first, env2 = node.values[0], env
            g0 = first.operand if isinstance(node.op, ast.Or) and isinstance(first, ast.UnaryOp) \
                and isinstance(first.op, ast.Not) else first if isinstance(node.op, ast.And) else None
            if isinstance(g0, ast.Name) and g0.id in env and env[g0.id].type.startswith('Opt:') and len(node.values) == 2:
                x = self.narrow.get(env[g0.id].lean, env[g0.id])
                if x.type.startswith('Opt:'):       # `not c or E` / `c and E`: E is evaluated only when c is an object
                    self.never_false(x.type[4:], node)
                    self.fresh += 1
                    v = f"n{self.fresh}'"
                    old = dict(self.narrow)
                    self.narrow[env[g0.id].lean] = V(v, x.type[4:], None)
                    try:
                        e2 = self.lazily(self.test, node.values[1], env)
                    finally:
                        self.narrow = old
                    dflt = 'true' if isinstance(node.op, ast.Or) else 'false'
                    return f'(match {x.lean} with | none => {dflt} | some {v} => {e2})'
            guard = first.operand if isinstance(node.op, ast.Or) and isinstance(first, ast.UnaryOp) \
                and isinstance(first.op, ast.Not) else first if isinstance(node.op, ast.And) else None
            if isinstance(guard, ast.Name) and guard.id in env and env[guard.id].type == 'OptInt':
                # `not x or E` / `x and E`: E is evaluated only when x is true, hence not None
                env2 = dict(env, **{guard.id: V(f'({env[guard.id].lean}.getD 0)', 'Int', None)})
            parts = [self.test(node.values[0], env)] + [self.lazily(self.test, x, env2) for x in node.values[1:]]
            return '(' + op.join(parts) + ')'
        if isinstance(node, ast.UnaryOp) and isinstance(node.op, ast.Not):
            return f'(!{self.test(node.operand, env)})'
        v = self.expr(node, env)
        if isinstance(node, ast.Name) and node.id == 'self':
            self.builtin_method_ok(node, '__bool__', '__len__')
        return self.truth(v, node)

    def expr(self, node, env):
        whole = self.t.externals.get(ast.unparse(node)) if isinstance(node, (ast.Call, ast.Subscript, ast.Attribute, ast.Compare, ast.BinOp)) else None
        if whole is not None and whole[0] == 'expr' and whole[1] is None:
            return V('()', whole[3], None)      # an external value that the translated code never looks at
        if whole is not None and whole[0] in ('expr', 'pexpr'):        # an expression that stays external, as a whole
            args = [self.expr(ast.parse(n, mode='eval').body, env) for n in whole[2]]
            args = [x for a in args for x in (a.elts if a.type == 'Tuple' and a.elts and all(e.lean for e in a.elts) else [a])]   # a pair: its parts
            if any(a.type.startswith('Opt:') for a in args):
                self.fail(node, f'`{ast.unparse(node)[:50]}` on a value that may be None')
            rt = lean_type(whole[3])
            rt = f'({rt})' if ' ' in rt and whole[0] == 'pexpr' else rt
            f = self.param(whole[1], ' → '.join([lean_type(a.type) for a in args] + [f'Py {rt}' if whole[0] == 'pexpr' else rt]))
            lean = ' '.join([f.lean] + [a.lean for a in args])
            return self.hoist(node, lean, whole[3]) if whole[0] == 'pexpr' else V(f'({lean})', whole[3], None)
        f = getattr(self, 'e_' + type(node).__name__, None)
        if f is None:
            self.fail(node, f'expression {type(node).__name__}: `{ast.unparse(node)[:50]}`')
        return f(node, env)

    def e_Constant(self, node, env):
        c = node.value
        if isinstance(c, bool):
            return V('true' if c else 'false', 'Bool', None)
        if isinstance(c, int):
            return V(f'({c} : Int)', 'Int', None)
        if isinstance(c, str):
            return V(f'({X.lstr(c)} : Str)', 'Str', frozenset([c]))
        if isinstance(c, bytes):
            if any(b >= 128 for b in c):
                self.fail(node, 'non-ASCII bytes literal')
            return V(f'({X.lstr(c)} : Str)', 'Bytes', None)
        if c is None:
            return V('()', 'None', None)
        self.fail(node, f'constant {c!r}')

    def e_Tuple(self, node, env):
        """a tuple display: only to be unpacked (`a, b = ...`) or spread (`f(*t)`)"""
        return V('', 'Tuple', None, [self.expr(e, env) for e in node.elts])

    def e_Subscript(self, node, env):
        if isinstance(node.value, ast.Name) and node.value.id in env and env[node.value.id].type == 'Dict:Str:Int':
            k = self.expr(node.slice, env)      # wave 8: `d[k]` of a dict from str to int: KeyError without the key
            if k.type != 'Str':
                self.fail(node, f'`{ast.unparse(node)[:40]}`: key of type {k.type}')
            return self.hoist(node, f'pyDictGet {env[node.value.id].lean} {k.lean}', 'Int')
        if self.objself and isinstance(node.value, ast.Name) and node.value.id == 'self' and 'self[]' in self.t.externals \
                and not isinstance(node.slice, ast.Slice):
            k, e = self.expr(node.slice, env), self.t.externals['self[]']
            if k.type != 'Str':
                self.fail(node, f'self[..] with a key of type {k.type}')
            f = self.param(e[1], f'Comp → Str → Py {lean_type(e[2])}')     # CaselessDict.__getitem__: external, may raise
            return self.hoist(node, f"{f.lean} (Comp.mk name' props' subs') {k.lean}", e[2])
        if isinstance(node.value, ast.Name) and node.value.id in env and not isinstance(node.slice, ast.Slice) \
                and self.t.externals.get(node.value.id + '[]', ('',))[0] == 'pgetitem':
            e, obj, k = self.t.externals[node.value.id + '[]'], env[node.value.id], self.expr(node.slice, env)
            if k.type != e[2]:
                self.fail(node, f'`{ast.unparse(node)[:40]}`: key of type {k.type}, declared {e[2]}')
            f = self.param(e[1], f'{lean_type(obj.type)} → {lean_type(e[2])} → Py {"(" + lean_type(e[3]) + ")" if " " in lean_type(e[3]) else lean_type(e[3])}')
            return self.hoist(node, f'{f.lean} {obj.lean} {k.lean}', e[3])      # KeyError when the key is missing
        v, sl = self.expr(node.value, env), node.slice
        if v.type == 'Tuple' and isinstance(sl, ast.Constant) and type(sl.value) is int and 0 <= sl.value < len(v.elts):
            return self.narrow.get(v.elts[sl.value].lean, v.elts[sl.value])     # a component of a tuple display
        if v.type.startswith('Tuple:') and v.elts is None and isinstance(sl, ast.Constant) and type(sl.value) is int \
                and self.tuple_parts(v) is not None and 0 <= sl.value < len(self.tuple_parts(v)):
            return self.tuple_parts(v)[sl.value]        # wave 8: a component of a tuple value
        if v.type.startswith('List:Tuple:') and not isinstance(sl, ast.Slice) and ast.unparse(sl) not in ('-1', '0'):
            i = self.expr(sl, env)       # wave 8: `xs[i]` with an int: IndexError outside the list, a negative index counts from the end
            if i.type != 'Int':
                self.fail(node, f'index `{ast.unparse(node)[:40]}` is not an int')
            return self.hoist(node, f'listGetI {v.lean} {i.lean}', v.type[5:])
        if v.type.startswith('List:') and not isinstance(sl, ast.Slice) and ast.unparse(sl) in ('-1', '0'):
            return self.hoist(node, f'{"listLast" if ast.unparse(sl) == "-1" else "listHead"} {v.lean}', v.type[5:])
        lit = lambda b: b is None or (isinstance(b, ast.Constant) and type(b.value) is int and b.value >= 0)  # noqa: E731
        if v.type != 'Str':
            self.fail(node, f'subscript of a value of type {v.type}')
        if not isinstance(sl, ast.Slice):
            i = self.expr(sl, env)
            if i.type != 'Int':
                self.fail(node, f'index `{ast.unparse(node)[:40]}` is not an int')
            return self.hoist(node, f'strIndex {v.lean} {i.lean}', 'Char')
        if sl.step is not None or (sl.lower is None and sl.upper is None):
            self.fail(node, f'subscript `{ast.unparse(node)[:40]}`')
        if lit(sl.lower) and lit(sl.upper):
            if sl.upper is None:
                return V(f'(pySliceFrom {v.lean} {sl.lower.value})', 'Str', None)
            if sl.lower is None:
                return V(f'(pySliceTo {v.lean} {sl.upper.value})', 'Str', None)
            return V(f'(pySlice {v.lean} {sl.lower.value} {sl.upper.value})', 'Str', None)
        a = None if sl.lower is None else self.expr(sl.lower, env)      # int expressions: CPython clamping
        b = None if sl.upper is None else self.expr(sl.upper, env)
        if any(x is not None and x.type == 'OptInt' for x in (a, b)) and all(x is None or x.type in ('Int', 'OptInt') for x in (a, b)):
            w = lambda x: 'none' if x is None else x.lean if x.type == 'OptInt' else f'(some {x.lean})'   # noqa: E731
            return V(f'(pySliceO {v.lean} {w(a)} {w(b)})', 'Str', None)
        if any(x is not None and x.type != 'Int' for x in (a, b)):
            self.fail(node, f'slice `{ast.unparse(node)[:40]}` whose bounds are not ints')
        if b is None:
            return V(f'(pySliceFromI {v.lean} {a.lean})', 'Str', None)
        if a is None:
            return V(f'(pySliceToI {v.lean} {b.lean})', 'Str', None)
        return V(f'(pySliceI {v.lean} {a.lean} {b.lean})', 'Str', None)

    def e_Name(self, node, env):
        if node.id == 'NotImplemented' and node.id not in env and node.id not in self.modnames and self.t.ret == 'OptBool':
            return V('none', 'OptBool', None)
        if node.id == 'self' and self.dictself:
            self.fail(node, '`self` of a dict method outside `super().<m>(..)`')
        if node.id == 'self' and self.objself and 'self' in env:
            return env['self']      # wave 8: a method that changes `self` (declared 'mut' on self.<m>): the tree it is now
        if node.id == 'self' and self.objself:
            return V("(Comp.mk name' props' subs')", 'Comp', None)
        if node.id == 'self' and 'self' in env:
            return env['self']
        if node.id == 'self':
            if self.t.self_type is None:
                self.fail(node, '`self` used as a value')
            if self.t.self_type == 'Str':
                self.builtin_method_ok(node, '__len__', '__getitem__', '__iter__', '__contains__', '__eq__')
            return self.param('self', self.t.self_type)
        if node.id not in env:
            self.fail(node, f'name `{node.id}` is not a local variable (globals and builtins are outside the subset)')
        v = self.narrow.get(env[node.id].lean, env[node.id])
        if v.type.startswith('Unbound:'):       # a `for` target after the loop
            return self.hoist(node, f'getBound {v.lean}', v.type[8:])
        return v

    def tuple_parts(self, v):
        """the components of a value whose type is a product of simple types (`Tuple:Int × Int × Str`), else None"""
        if not v.type.startswith('Tuple:') or v.elts is not None:
            return None
        comps = v.type[6:].split(' × ')
        if any(c not in ('Int', 'Str', 'Bool') for c in comps):
            return None
        n = len(comps)
        return [V(v.lean + '.2' * i + ('.1' if i < n - 1 else ''), c, None) for i, c in enumerate(comps)]

    def as_item(self, v, node):
        """a pair `(name, x)` as a value: the name and what x is (bytes, a value object, what `self[name]` gave)"""
        if v.type == 'Item':
            return v
        if v.type == 'Tuple' and len(v.elts) == 2 and v.elts[0].type == 'Str' and v.elts[1].type in ('Bytes', 'Val', 'Vals'):
            b = v.elts[1]
            iv = {'Bytes': f'(PyIV.bytes {b.lean})', 'Val': f'(PyIV.obj {b.lean})', 'Vals': f'(PyVals.toIV {b.lean})'}[b.type]
            return V(f'({v.elts[0].lean}, {iv})', 'Item', None)
        self.fail(node, f'a {v.type} where a pair (name, value) is expected')

    def e_SetComp(self, node, env):
        """`{E for v in xs}` over a list of objects, E a declared expression: a Python set (duplicate-free list)"""
        g = node.generators[0]
        if len(node.generators) == 1 and not g.is_async and not g.ifs and isinstance(g.target, ast.Name):
            xs = self.expr(g.iter, env)
            if xs.type.startswith('List:'):
                x = lname(g.target.id)
                keep, self.pre = self.pre, []
                try:
                    elt = self.expr(node.elt, dict(env, **{g.target.id: V(x, xs.type[5:], None)}))
                    inner = self.pre
                finally:
                    self.pre = keep
                if not inner:
                    self.setelts.add(lean_type(elt.type).split()[-1].strip('()'))
                    return V(f'(pyDedup ({xs.lean}.map (fun {x} => {elt.lean})))', 'Set:' + elt.type, None)
        self.fail(node, f'set comprehension `{ast.unparse(node)[:50]}`')

    def e_DictComp(self, node, env):
        """wave 8: `{k: i for i, k in enumerate(xs)}` over a list of str: a dict from str to int (a later duplicate overwrites)"""
        g = node.generators[0]
        if len(node.generators) == 1 and not g.is_async and not g.ifs and isinstance(g.target, ast.Tuple) and len(g.target.elts) == 2 \
                and all(isinstance(e, ast.Name) for e in g.target.elts) and g.target.elts[0].id != g.target.elts[1].id \
                and isinstance(g.iter, ast.Call) and isinstance(g.iter.func, ast.Name) and g.iter.func.id == 'enumerate' \
                and 'enumerate' not in self.modnames and 'enumerate' not in env and len(g.iter.args) == 1 and not g.iter.keywords \
                and isinstance(node.key, ast.Name) and node.key.id == g.target.elts[1].id \
                and isinstance(node.value, ast.Name) and node.value.id == g.target.elts[0].id:
            xs = self.expr(g.iter.args[0], env)
            if xs.type == 'StrList':
                return V(f'(pyDictOfEnum {xs.lean})', 'Dict:Str:Int', None)
        self.fail(node, f'dict comprehension `{ast.unparse(node)[:50]}` (only `{{k: i for i, k in enumerate(<list of str>)}}`)')

    def e_List(self, node, env):
        vals = [self.expr(e, env) for e in node.elts]
        if vals and len({v.type for v in vals}) == 1 and re.fullmatch(r'[A-Z][A-Za-z]*', vals[0].type) and vals[0].type not in LEAN_TYPE and vals[0].type != 'Tuple':
            return V('[' + ', '.join(v.lean for v in vals) + ']', 'List:' + vals[0].type, None)     # objects of one opaque type
        if vals and all(v.type == 'Tuple' for v in vals):
            return V('([' + ', '.join(self.as_item(v, node).lean for v in vals) + '] : List PyItem)', 'ItemList', None)
        if not vals or any(v.type != 'Str' for v in vals):
            self.fail(node, f'list display `{ast.unparse(node)[:40]}` (only non-empty lists of str; `x = []` is a statement)')
        return V('([' + ', '.join(v.lean for v in vals) + '] : List Str)', 'StrList', None)

    def e_Attribute(self, node, env):
        if isinstance(node.value, ast.Name) and node.value.id == 'cls' and self.cls is not None and 'cls' not in env:
            for st in self.cls.body:     # a class-level literal, read from the source
                if isinstance(st, ast.Assign) and len(st.targets) == 1 and isinstance(st.targets[0], ast.Name) \
                        and st.targets[0].id == node.attr and isinstance(st.value, ast.Constant):
                    return self.e_Constant(st.value, env)
            self.fail(node, f'cls.{node.attr} is not a class-level literal')
        dotted = ast.unparse(node)
        if self.objself and dotted in ('self.name', 'self.subcomponents') and 'self' in env:
            self.fail(node, f'`{dotted}` in a method that changes `self` through a declared external (read it before, or declare it)')
        if self.objself and dotted in ('self.name', 'self.subcomponents'):
            return V("name'", 'Str', None) if node.attr == 'name' else V("subs'", 'CompList', None)
        if dotted in self.t.self_attrs and isinstance(node.value, ast.Name) and node.value.id in (self.t.args or {}):
            v = self.param(*self.t.self_attrs[dotted])      # an attribute of an argument object, declared a parameter
            return self.narrow.get(v.lean, v)
        if dotted.startswith('self.') and dotted[5:] in self.t.self_attrs:
            v = self.param(*self.t.self_attrs[dotted[5:]])
            return self.narrow.get(v.lean, v)
        if isinstance(node.value, ast.Name) and node.value.id == 'self':
            d = self.resolve(node.attr) if self.objself else self.registry.get((self.t.cls, node.attr))
            if d is not None and self.is_property(node.attr):      # a property of the class, translated earlier
                for p in d.params:
                    self.param(*p)
                lean = ' '.join([d.lean] + [p[0] for p in d.params] + ([self.e_Name(node.value, env).lean] if d.objself else []))
                return self.hoist(node, lean, d.rtype) if d.monadic else V(f'({lean})', d.rtype, None)
            self.fail(node, f'attribute self.{node.attr} is not a declared parameter')
        if node.attr == 'tzinfo':
            self.fail(node, '`.tzinfo` outside `x.tzinfo is None`')
        base = self.expr(node.value, env)
        if base.type == 'TDS' and node.attr in ('seconds', 'days'):     # a timedelta given by its seconds
            f = 'pyMod' if node.attr == 'seconds' else 'floorDiv'
            return V(f'({f} {base.lean} (86400 : Int))', 'Int', None)
        if node.attr not in RECORDS.get(base.type, {}):
            self.fail(node, f'attribute .{node.attr} of a value of type {base.type}')
        proj, typ = RECORDS[base.type][node.attr]
        return V(f'{base.lean}.{proj}', typ, None)

    def is_property(self, name):
        c = self.defining_class(name) or self.cls
        return any(isinstance(st, ast.FunctionDef) and st.name == name
                   and [ast.unparse(d) for d in st.decorator_list] == ['property'] for st in c.body)

    def defining_class(self, name):
        """the class whose body binds `name` as Python finds it on `self`: the class of the target, else its single base
        class defined in the same file, and so on (several bases, or a base from elsewhere: None)"""
        c = self.cls
        for _ in range(8):
            if c is None:
                return None
            for st in c.body:
                if isinstance(st, (ast.FunctionDef, ast.AsyncFunctionDef, ast.ClassDef)) and st.name == name:
                    return c
                if isinstance(st, (ast.Assign, ast.AnnAssign, ast.AugAssign)) and any(
                        isinstance(n, ast.Name) and n.id == name and isinstance(n.ctx, ast.Store) for n in ast.walk(st)):
                    return c
            if len(c.bases) != 1 or not isinstance(c.bases[0], ast.Name) or self.modnames.get(c.bases[0].id) != 'def' or self.tree is None:
                return None
            c = next((n for n in self.tree.body if isinstance(n, ast.ClassDef) and n.name == c.bases[0].id), None)
        return None

    def resolve(self, name):
        """the translated method `name` of `self` (wave 8: also one inherited from a base class of the same file, when no
        class in between defines the name)"""
        d = self.registry.get((self.t.cls, name))
        if d is not None or self.cls is None:
            return d
        c = self.defining_class(name)
        return self.registry.get((c.name, name)) if c is not None else None

    def e_UnaryOp(self, node, env):
        if isinstance(node.op, ast.Not):
            return V(self.test(node, env), 'Bool', None)
        v = self.expr(node.operand, env)
        if isinstance(node.op, ast.USub) and v.type == 'Int':
            return V(f'(-{v.lean})', 'Int', None)
        if isinstance(node.op, ast.USub) and v.type == 'TD':
            return V(f'(TD.neg {v.lean})', 'TD', None)
        self.fail(node, f'unary {type(node.op).__name__} on {v.type}')

    def e_BinOp(self, node, env):
        if isinstance(node.op, ast.Sub) and isinstance(node.right, ast.Set) and len(node.right.elts) == 1 \
                and isinstance(node.right.elts[0], ast.Constant) and node.right.elts[0].value is None:
            a = self.expr(node.left, env)       # wave 8: `s - {None}`: a new set without None
            if a.type == 'Set:OptStr':
                return V(f'(setDropNone {a.lean})', 'Set:Str', None)
            if a.type == 'Set:Str':
                return a        # None is no element of it
            self.fail(node, f'`- {{None}}` on a value of type {a.type}')
        return self.binop(node, node.op, self.expr(node.left, env), self.expr(node.right, env), node.right)

    def binop(self, node, op, a, b, right_node=None):
        if type(op).__name__ in ('Add', 'Sub') and {a.type, b.type} == {'Int', 'OptInt'}:
            # an `int or None` operand: None raises TypeError
            a = self.hoist(node, f'intOfOpt {a.lean}', 'Int') if a.type == 'OptInt' else a
            b = self.hoist(node, f'intOfOpt {b.lean}', 'Int') if b.type == 'OptInt' else b
        k, ts = type(op).__name__, (a.type, b.type)
        if k == 'Add' and ts == ('D', 'TDS'):       # date / datetime object + timedelta: the hand model's `pyAdd`
            return V(OBJ[self.t.group]['add'].format(a=a.lean, b=b.lean), 'D', None)
        if k == 'Mult' and ts in (('TDS', 'Int'), ('Int', 'TDS')):
            return V(f'({a.lean} * {b.lean})', 'TDS', None)
        if ts == ('Int', 'Int') and k in ('Add', 'Sub', 'Mult'):
            return V(f'({a.lean} {dict(Add="+", Sub="-", Mult="*")[k]} {b.lean})', 'Int', None)
        if ts == ('Int', 'Int') and k in ('FloorDiv', 'Mod'):
            if not (isinstance(right_node, ast.Constant) and type(right_node.value) is int and right_node.value != 0):
                self.fail(node, f'{k} whose divisor is not a non-zero int literal')
            return V(f'({"floorDiv" if k == "FloorDiv" else "pyMod"} {a.lean} {b.lean})', 'Int', None)
        if k == 'Add' and a.type == b.type and (a.type in ('CompList', 'ItemList', 'StrList') or a.type.startswith('List:')):
            return V(f'({a.lean} ++ {b.lean})', a.type, None)
        if k == 'Add' and ts in (('Str', 'Str'), ('Bytes', 'Bytes')):
            return V(f'({a.lean} ++ {b.lean})', a.type, None)
        if k == 'Sub' and set(ts) <= {'D', 'OptD'} and 'datetime.__sub__' in self.t.externals:
            # the difference of two date / datetime objects is external (it depends on their tzinfo objects) and may
            # raise; None as an operand is a TypeError
            e = self.t.externals['datetime.__sub__']
            a, b = (self.none_is_error(node, x) if x.type == 'OptD' else x for x in (a, b))
            f = self.param(e[1], f'{lean_type("D")} → {lean_type("D")} → Py {lean_type(e[3])}')
            return self.hoist(node, f'{f.lean} {a.lean} {b.lean}', e[3])
        if k == 'Sub' and ts == ('TD', 'TD'):
            return V(f'(TD.sub {a.lean} {b.lean})', 'TD', None)
        if k == 'Mod' and a.type == 'Str' and b.type in ('Str', 'Int'):
            if a.lits is None or any(s.count('%') != 1 or s.count('%s') != 1 for s in a.lits):
                self.fail(node, '`%` formatting whose format is not known to be literals with exactly one %s')
            arg = b.lean if b.type == 'Str' else f'(strInt {b.lean})'
            return V(f'(fmt1 {a.lean} {arg})', 'Str', None)
        self.fail(node, f'operator {k} on {a.type}, {b.type}')

    def e_Compare(self, node, env):
        if len(node.ops) != 1:
            self.fail(node, 'chained comparison')
        k = type(node.ops[0]).__name__
        none = isinstance(node.comparators[0], ast.Constant) and node.comparators[0].value is None
        if k in ('Is', 'IsNot') and none and isinstance(node.left, ast.Attribute) and node.left.attr == 'tzinfo':
            x = self.expr(node.left.value, env)
            if x.type == 'D':       # a date has no tzinfo: AttributeError
                g = self.hoist(node, f'tzinfoIsNone {x.lean}', 'Bool')
                return g if k == 'Is' else V(f'(!{g.lean})', 'Bool', None)
        if k in ('Is', 'IsNot') and none and isinstance(node.left, ast.Call) and ast.unparse(node.left.func) == 'getattr' \
                and 'getattr' not in self.modnames and len(node.left.args) == 3 and not node.left.keywords \
                and isinstance(node.left.args[1], ast.Constant) and node.left.args[1].value == 'tzinfo' \
                and isinstance(node.left.args[2], ast.Constant) and node.left.args[2].value is None \
                and 'naive' in OBJ.get(self.t.group, {}):
            x = self.expr(node.left.args[0], env)
            if x.type == 'D':
                g = OBJ[self.t.group]['naive'].format(x=x.lean)
                return V(g if k == 'Is' else f'(!{g})', 'Bool', None)
        if k in ('Is', 'IsNot') and none:
            x = self.expr(node.left, env)
            if x.type.startswith('Opt:'):
                return V(f'{x.lean}.{"isNone" if k == "Is" else "isSome"}', 'Bool', None)
            if x.type in ('OptD', 'OptInt', 'OptStr', 'OptTDS'):
                return V(f'{x.lean}.{"isNone" if k == "Is" else "isSome"}', 'Bool', None)
            if x.type in ('D', 'Int', 'Str', 'TD', 'TDS'):
                return V('false' if k == 'Is' else 'true', 'Bool', None)
        a, b = self.expr(node.left, env), self.expr(node.comparators[0], env)
        ts = (a.type, b.type)
        if ts == ('Int', 'Int') and k in ('Lt', 'LtE', 'Gt', 'GtE'):
            return V(f'(decide ({a.lean} {dict(Lt="<", LtE="≤", Gt=">", GtE="≥")[k]} {b.lean}))', 'Bool', None)
        if ts in (('Int', 'Int'), ('Str', 'Str'), ('Bytes', 'Bytes'), ('Bool', 'Bool')) and k in ('Eq', 'NotEq'):
            return V(f'({a.lean} {"==" if k == "Eq" else "!="} {b.lean})', 'Bool', None)
        if ts in (('Int', 'OptInt'), ('OptInt', 'Int'), ('OptInt', 'OptInt')) and k in ('Eq', 'NotEq'):
            w = lambda v: f'(some {v.lean})' if v.type == 'Int' else v.lean   # noqa: E731
            return V(f'({w(a)} {"==" if k == "Eq" else "!="} {w(b)})', 'Bool', None)
        if ts == ('Str', 'OptStr') and k in ('Eq', 'NotEq'):
            return V(f'(some {a.lean} {"==" if k == "Eq" else "!="} {b.lean})', 'Bool', None)
        if ts == ('OptStr', 'Str') and k in ('Eq', 'NotEq'):
            return V(f'({a.lean} {"==" if k == "Eq" else "!="} some {b.lean})', 'Bool', None)
        if ts == ('D', 'D') and k in ('Gt', 'Lt'):     # date / datetime objects: TypeError across kinds
            x, y = (a, b) if k == 'Gt' else (b, a)
            return self.hoist(node, f'dtGt {x.lean} {y.lean}', 'Bool')
        if ts == ('TD', 'TD') and k in ('Lt', 'Gt', 'LtE', 'GtE'):
            x, y = (a, b) if k in ('Lt', 'LtE') else (b, a)
            return V(f'(TD.{"lt" if k in ("Lt", "Gt") else "le"} {x.lean} {y.lean})', 'Bool', None)
        one = lambda v: v.type == 'Str' and v.lits is not None and all(len(x) == 1 for x in v.lits) and len(v.lits) == 1  # noqa: E731
        neg = '!' if k in ('NotEq', 'NotIn') else ''
        if a.type == 'Char' and k in ('Eq', 'NotEq'):
            if one(b):
                return V(f'({neg}({a.lean} == {X.lchar(next(iter(b.lits)))}))', 'Bool', None)
            if b.type == 'Str':
                return V(f'({neg}([{a.lean}] == {b.lean}))', 'Bool', None)
            if b.type == 'Char':
                return V(f'({neg}({a.lean} == {b.lean}))', 'Bool', None)
        if a.type == 'Char' and k in ('In', 'NotIn'):
            if b.type == 'Str':         # a one-character str is in `s` iff the character occurs in it
                return V(f'({neg}({b.lean}.contains {a.lean}))', 'Bool', None)
            if b.type == 'Tuple' and all(one(e) for e in b.elts):
                lst = '[' + ', '.join(X.lchar(next(iter(e.lits))) for e in b.elts) + ']'
                return V(f'({neg}(({lst} : List Char).contains {a.lean}))', 'Bool', None)
        if k in ('In', 'NotIn') and a.type == 'Str':
            e = self.t.externals.get('in ' + ast.unparse(node.comparators[0]))
            if e is not None and e[0] == 'contains' and b.type == e[2]:     # `'KEY' in obj` on an opaque object
                f = self.param(e[1], f'{lean_type(e[2])} → Str → Bool')
                return V(f'({"!" if k == "NotIn" else ""}({f.lean} {b.lean} {a.lean}))', 'Bool', None)
        if k in ('In', 'NotIn') and a.type == 'Str' and b.type == 'Dict:Str:Int':
            return V(f'({neg}(pyDictHas {b.lean} {a.lean}))', 'Bool', None)
        if k in ('In', 'NotIn') and a.type == 'None' and b.type.startswith('Set:Opt:'):
            return V(f'({neg}({b.lean}.contains none))', 'Bool', None)
        if k in ('In', 'NotIn') and one(a) and b.type == 'Str':       # a one-character literal in a str
            return V(f'({neg}({b.lean}.contains {X.lchar(next(iter(a.lits)))}))', 'Bool', None)
        if k in ('In', 'NotIn') and a.type == 'Int' and b.type == 'Tuple' and b.elts and all(e.type == 'Int' for e in b.elts):
            lst = '([' + ', '.join(e.lean for e in b.elts) + '] : List Int)'
            return V(f'({neg}{lst}.contains {a.lean})', 'Bool', None)
        if a.type == 'Str' and b.type == 'StrList' and k in ('In', 'NotIn') and isinstance(node.comparators[0], ast.List):
            return V(f'({"" if k == "In" else "!"}{b.lean}.contains {a.lean})', 'Bool', None)
        if a.type == 'Str' and b.type == 'StrList' and k in ('In', 'NotIn') and isinstance(node.comparators[0], ast.Attribute) \
                and self.t.group == 'sedesc':
            # wave 9: `x in self.<attr>`, the attribute a declared sequence of str (list or tuple): membership by `==`
            return V(f'({"" if k == "In" else "!"}{b.lean}.contains {a.lean})', 'Bool', None)
        if a.type == 'Str' and b.type == 'Tuple' and k in ('In', 'NotIn') and all(e.lits is not None for e in b.elts):
            lst = '([' + ', '.join(e.lean for e in b.elts) + '] : List Str)'
            return V(f'({"" if k == "In" else "!"}{lst}.contains {a.lean})', 'Bool', None)
        self.fail(node, f'comparison {k} on {a.type}, {b.type}')

    def e_BoolOp(self, node, env):
        """value context: `a or b` / `a and b` return an operand"""
        if isinstance(node.op, ast.Or) and len(node.values) == 2 and isinstance(node.values[1], ast.List) and not node.values[1].elts:
            a = self.expr(node.values[0], env)      # wave 8: `x or []` on a list-or-None: None and the empty list give []
            if a.type == 'Opt:StrList':
                return V(f'(pyListOrEmpty {a.lean})', 'StrList', None)
            if a.type == 'StrList':
                return a
            self.fail(node, f'`{ast.unparse(node)[:40]}` on a value of type {a.type}')
        vals = [self.expr(node.values[0], env)] + [self.lazily(self.expr, x, env) for x in node.values[1:]]
        if len({v.type for v in vals}) != 1:
            self.fail(node, 'and/or over operands of different types, used as a value')
        self.truth(vals[0], node)
        f = 'pyOr' if isinstance(node.op, ast.Or) else 'pyAnd'
        acc = vals[0]
        for v in vals[1:]:      # `a or b or c` = `(a or b) or c`
            lits = acc.lits | v.lits if acc.lits is not None and v.lits is not None else None
            acc = V(f'({f} {acc.lean} {v.lean})', acc.type, lits)
        return acc

    def e_IfExp(self, node, env):
        if isinstance(node.test, ast.Name) and node.test.id in env and env[node.test.id].type.startswith('List:') \
                and ast.unparse(node.body) == f'{node.test.id}[-1]' and isinstance(node.orelse, ast.Constant) \
                and node.orelse.value is None:      # `xs[-1] if xs else None`: the top of the list, or None
            xs = env[node.test.id]
            return V(f'{xs.lean}.getLast?', 'Opt:' + xs.type[5:], None, (ALIAS, node.test.id))
        nar = self.narrowing(node.test, env)
        if nar is not None:     # `E(x) if x is not None else None`: x is the object inside E
            x, present_first = nar
            self.fresh += 1
            v = f"n{self.fresh}'"
            old = dict(self.narrow)
            some_n, none_n = (node.body, node.orelse) if present_first else (node.orelse, node.body)
            nb = self.lazily(self.expr, none_n, env)
            self.narrow[x.lean] = V(v, x.type[4:] if x.type.startswith('Opt:') else {'OptD': 'D', 'OptTDS': 'TDS', 'OptStr': 'Str'}[x.type], None)
            try:
                sb = self.lazily(self.expr, some_n, env)
            finally:
                self.narrow = old
            if nb.type == 'None' and ('Opt' + sb.type in LEAN_TYPE or sb.type in ('D', 'TDS', 'Str')):
                sb, nb = V(f'(some {sb.lean})', 'Opt' + sb.type, None), V('none', 'Opt' + sb.type, None)
            if sb.type != nb.type:
                self.fail(node, f'conditional expression of types {sb.type} and {nb.type}')
            return V(f'(match {x.lean} with | none => {nb.lean} | some {v} => {sb.lean})', sb.type, None)
        c = self.test(node.test, env)
        a, b = self.lazily(self.expr, node.body, env), self.lazily(self.expr, node.orelse, env)
        if b.type == 'None' and a.type.startswith('Opt'):       # `E if c else None` where E may be None itself
            b = V('none', a.type, None)
        if a.type == 'None' and b.type.startswith('Opt'):
            a = V('none', b.type, None)
        if a.type != b.type:
            self.fail(node, f'conditional expression of types {a.type} and {b.type}')
        lits = a.lits | b.lits if a.lits is not None and b.lits is not None else None
        return V(f'(if {c} then {a.lean} else {b.lean})', a.type, lits)

    def e_JoinedStr(self, node, env):
        parts = []
        for p in node.values:
            if isinstance(p, ast.Constant) and isinstance(p.value, str):
                parts.append(f'({X.lstr(p.value)} : Str)')
                continue
            if not isinstance(p, ast.FormattedValue) or p.conversion != -1:
                self.fail(node, f'f-string part `{ast.unparse(p)[:40]}` (conversions like !r are outside the subset)')
            if isinstance(p.value, ast.Name) and p.value.id == 'self':
                self.fail(node, 'f-string field `{self}` (goes through __format__/__str__)')
            v = self.expr(p.value, env)
            if p.format_spec is None:
                if v.type == 'Int':
                    parts.append(f'(strInt {v.lean})')
                elif v.type == 'Str':
                    parts.append(v.lean)
                else:
                    self.fail(node, f'f-string field of type {v.type}')
                continue
            spec = p.format_spec.values
            ok = (len(spec) == 1 and isinstance(spec[0], ast.Constant) and isinstance(spec[0].value, str)
                  and len(spec[0].value) >= 2 and spec[0].value[0] == '0' and spec[0].value[1:].isdigit()
                  and spec[0].value[1] != '0' and spec[0].value.isascii())
            if not ok or v.type != 'Int':
                self.fail(node, f'format spec `{ast.unparse(p)}` (only {{x:0N}} on an int)')
            parts.append(f'(fmtZ {int(spec[0].value[1:])} {v.lean})')
        return V('(' + ' ++ '.join(parts) + ')' if parts else '([] : Str)', 'Str', None)

    def bound_args(self, node, funcdef, types, env):
        """the arguments of a call, bound by the callee's signature as Python does: positional, keyword, defaults"""
        params = [a.arg for a in funcdef.args.args][1:]
        defaults = dict(zip(params[len(params) - len(funcdef.args.defaults):], funcdef.args.defaults))
        if funcdef.args.vararg or funcdef.args.kwarg or funcdef.args.kwonlyargs or any(isinstance(a, ast.Starred) for a in node.args) \
                or len(node.args) > len(params):
            self.fail(node, f'call `{ast.unparse(node)[:50]}` does not fit the signature of the callee')
        given = dict(zip(params, node.args))
        for k in node.keywords:
            if k.arg is None or k.arg not in params or k.arg in given:
                self.fail(node, f'keyword argument `{k.arg}` of `{ast.unparse(node)[:40]}`')
            given[k.arg] = k.value
        out = []
        for p, typ in zip(params, types):
            if p in given:
                v = self.expr(given[p], env)
            elif p in defaults and isinstance(defaults[p], ast.Constant):
                v = self.e_Constant(defaults[p], env)       # the default of the callee
            elif p in defaults and typ.startswith('Fn:') and typ.endswith(':Bool') and isinstance(defaults[p], ast.Lambda) \
                    and len(defaults[p].args.args) == 1 and not defaults[p].args.defaults and not defaults[p].args.vararg \
                    and not defaults[p].args.kwarg and isinstance(defaults[p].body, ast.Constant) and type(defaults[p].body.value) is bool:
                v = V(f'(fun _ => {"true" if defaults[p].body.value else "false"})', typ, None)     # `lambda c: True`
            else:
                self.fail(node, f'argument `{p}` of `{ast.unparse(node)[:40]}` is missing and has no constant default')
            if v.type == 'Str' and typ == 'OptStr':
                v = V(f'(some {v.lean})', 'OptStr', None)
            if v.type == 'None' and typ.startswith('Opt'):
                v = V('none', typ, None)
            if typ in ('Opt' + v.type, 'Opt:' + v.type) and v.type in ('D', 'TDS') + tuple(x[4:] for x in [typ] if x.startswith('Opt:')):
                v = V(f'(some {v.lean})', typ, None)       # an object where None is accepted too
            if v.type != typ:
                self.fail(node, f'argument `{p}` of `{ast.unparse(node)[:40]}` is a {v.type}, the callee takes a {typ}')
            out.append(v)
        return out

    PYCLASS = {'PyDateTime': 'datetime', 'PyDate': 'date', 'PyTime': 'time', 'TD': 'timedelta'}

    def call_on_new(self, node, ctor, mname, env):
        """`Cls(x).m()`: m is a translated method of Cls that reads `self.<attr>`; the constructor must store its first
        argument there unchanged, and may otherwise only guard its type (`if not isinstance(arg, T): raise ..`, T accepting
        x) and assign other attributes (those statements are taken not to raise: noted in the comment)"""
        cname = ctor.func.id
        d = self.registry[(cname, mname)]
        ct = next(t for t in TARGETS if (t.cls, t.fn) == (cname, mname) and t.group == self.t.group and t.lean == d.lean)
        cdef = next(n for n in self.tree.body if isinstance(n, ast.ClassDef) and n.name == cname)
        init = next((n for n in cdef.body if isinstance(n, ast.FunctionDef) and n.name == '__init__'), None)
        if init is None or len(ctor.args) != 1 or ctor.keywords or init.args.vararg or init.args.kwarg \
                or len(init.args.args) - len(init.args.defaults) > 2:
            self.fail(node, f'`{ast.unparse(ctor)[:40]}`: not a constructor call with exactly the one required argument')
        x = self.expr(ctor.args[0], env)
        pname = init.args.args[1].arg
        stored, others = [], []
        for st in init.body:
            if isinstance(st, ast.Expr) and isinstance(st.value, ast.Constant):
                continue
            if isinstance(st, ast.Assign) and len(st.targets) == 1 and isinstance(st.targets[0], ast.Attribute) \
                    and ast.unparse(st.targets[0].value) == 'self' and isinstance(st.value, ast.Name) and st.value.id == pname \
                    and not others_rebind(init, pname):
                stored.append(st.targets[0].attr)
                continue
            if isinstance(st, ast.If) and not st.orelse and len(st.body) == 1 and isinstance(st.body[0], ast.Raise) \
                    and isinstance(st.test, ast.UnaryOp) and isinstance(st.test.op, ast.Not) and isinstance(st.test.operand, ast.Call) \
                    and ast.unparse(st.test.operand.func) == 'isinstance' and ast.unparse(st.test.operand.args[0]) == pname:
                cl = st.test.operand.args[1]
                names = [ast.unparse(c) for c in (cl.elts if isinstance(cl, ast.Tuple) else [cl])]
                if x.type.startswith('U:'):
                    need = set(UNIONS[x.type[2:]]['classes'])
                    ok = need <= set(names)
                else:
                    py = self.PYCLASS.get(x.type)
                    ok = py in names or (py == 'datetime' and 'date' in names)
                if not ok:
                    self.fail(node, f'`{ast.unparse(ctor)[:40]}`: the constructor guards its argument with {names}, the value is a {x.type}')
                continue
            if any(isinstance(n, (ast.Raise, ast.Return)) for n in ast.walk(st)):
                self.fail(node, f'`{cname}.__init__` raises / returns outside a type guard of its argument (line {st.lineno})')
            others.append(ast.unparse(st).splitlines()[0][:60])
        want = [k for k in ct.self_attrs if '.' not in k]
        if len(want) != 1 or want[0] not in stored:
            self.fail(node, f'`{cname}.__init__` does not store its argument in self.{want} unchanged')
        if x.type != ct.self_attrs[want[0]][1]:
            self.fail(node, f'`{ast.unparse(ctor)[:40]}`: a {x.type} where {cname}.{mname} reads a {ct.self_attrs[want[0]][1]}')
        if others:
            note = f'`{cname}(..)`: the other statements of the constructor ({"; ".join(others)}) are taken not to raise'
            if note not in self.notes:
                self.notes.append(note)
        names = [ct.self_attrs[want[0]][0]]
        rest = []
        for p in d.params:
            if p[0] == names[0]:
                rest.append(x.lean)
                continue
            origin = next(((k, e) for k, e in ct.externals.items() if not isinstance(e[0], str) and e[1] == p[0]), None)
            if origin is None:
                rest.append(self.param(*p).lean)
            else:       # f(self.<attr>) in the callee: a function of the value here
                k, e = origin
                if list(e[0]) != [want[0]] and list(e[0]) != ['self.' + want[0]]:
                    self.fail(node, f'`{k}({", ".join(e[0])})` in {cname}.{mname} is not applied to self.{want[0]}')
                f = self.param(p[0] + '_of', f'{lean_type(x.type)} → {lean_type(p[1])}')
                rest.append(f'({f.lean} {x.lean})')
        lean = ' '.join([d.lean] + rest)
        return self.hoist(node, lean, d.rtype) if d.monadic else V(f'({lean})', d.rtype, None)

    def call_class_method(self, node, cname, mname, env):
        """`Cls.m(..)`: a classmethod / staticmethod of another class of the file, translated earlier.  Its value
        parameters that stand for `REGEX.match(<its argument>)` or `f(<its arguments>)` become function parameters here,
        applied to the actual arguments"""
        d = self.registry[(cname, mname)]
        ct = next(t for t in TARGETS if (t.cls, t.fn) == (cname, mname) and t.group == self.t.group and t.lean == d.lean)
        decos = [ast.unparse(x) for x in d.func.decorator_list]
        if decos not in (['classmethod'], ['staticmethod']):
            self.fail(node, f'{cname}.{mname} is not a classmethod / staticmethod')
        shim = d.func
        if decos == ['staticmethod']:       # bound_args drops the first parameter (self / cls)
            shim = ast.FunctionDef(name=d.func.name, args=ast.arguments(posonlyargs=[], args=[ast.arg(arg='cls')] + d.func.args.args,
                                   vararg=d.func.args.vararg, kwonlyargs=d.func.args.kwonlyargs, kw_defaults=d.func.args.kw_defaults,
                                   kwarg=d.func.args.kwarg, defaults=d.func.args.defaults), body=d.func.body, decorator_list=[])
        args = self.bound_args(node, shim, d.argtypes, env)
        names = list((ct.args or {}))
        real = [a for a, ty in zip(args, d.argtypes) if ty not in ('None', 'Object')]
        if [a.type for a in real] != [p[1] for p in d.params[:d.nargs]]:
            self.fail(node, f'call {cname}.{mname}(...): argument types {[a.type for a in real]}')
        rest = []
        for p in d.params[d.nargs:]:
            origin = next(((k, e) for k, e in ct.externals.items() if (isinstance(e[0], str) and e[0] == 'match' and e[1] == p[0])
                           or (not isinstance(e[0], str) and e[1] == p[0])), None)
            if origin is None:
                rest.append(self.param(*p).lean)
                continue
            k, e = origin
            if isinstance(e[0], str):      # REGEX.match(x): x must be an argument of the callee
                calls = [n for n in ast.walk(d.func) if isinstance(n, ast.Call) and ast.unparse(n.func) == k]
                an = [ast.unparse(c.args[0]) for c in calls if len(c.args) == 1]
                if len(calls) != 1 or an[0] not in names:
                    self.fail(node, f'call {cname}.{mname}(...): `{k}(..)` in the callee is not applied to one of its arguments')
                f = self.param(p[0] + '_of', f'Str → {lean_type(p[1])}')
                rest.append(f'({f.lean} {args[names.index(an[0])].lean})')
            else:                           # f(a, b): the callee's arguments by name
                if any(a not in names for a in e[0]):
                    self.fail(node, f'call {cname}.{mname}(...): `{k}({", ".join(e[0])})` in the callee is not applied to its arguments')
                acts = [args[names.index(a)] for a in e[0]]
                f = self.param(p[0] + '_of', ' → '.join([lean_type(a.type) for a in acts] + [lean_type(p[1])]))
                rest.append('(' + ' '.join([f.lean] + [a.lean for a in acts]) + ')')
        lean = ' '.join([d.lean] + [a.lean for a in real] + rest)
        return self.hoist(node, lean, d.rtype) if d.monadic else V(f'({lean})', d.rtype, None)

    def none_is_error(self, node, v):
        """an optional date / datetime handed to a translated method that takes the object: None makes the callee raise
        TypeError at its first use (`None + timedelta`); a present value is used"""
        x = self.narrow.get(v.lean, v)
        if x.type == 'D':
            return x
        return self.hoist(node, f'(match {v.lean} with | some d\' => pure d\' | none => throw Exc.typeError)', 'D')

    def call_args(self, node, env):
        """positional arguments; `*t` spreads a tuple display"""
        out = []
        for a in node.args:
            if isinstance(a, ast.Starred):
                v = self.expr(a.value, env)
                if v.type != 'Tuple':
                    self.fail(node, f'`*{ast.unparse(a.value)}` is not a tuple display')
                out += v.elts
            else:
                out.append(self.expr(a, env))
        return out

    def int_of(self, node, arg, env):
        """`int(x)` for a str: CPython's int(); `int(x or k)`: x if it is true, else the int literal k"""
        if isinstance(arg, ast.BoolOp) and isinstance(arg.op, ast.Or) and len(arg.values) == 2 \
                and isinstance(arg.values[1], ast.Constant) and type(arg.values[1].value) is int:
            v = self.expr(arg.values[0], env)
            if v.type in ('Str', 'OptStr'):
                f = 'intOfStrOr' if v.type == 'Str' else 'intOfOptStrOr'
                return self.hoist(node, f'{f} {v.lean} ({arg.values[1].value} : Int)', 'Int')
        v = self.expr(arg, env)
        return self.hoist(node, f'intOfStr {v.lean}', 'Int') if v.type == 'Str' else None

    def imported_targets(self, name):
        """`from icalendar.<mod> import <name>` of a function translated earlier in this group"""
        return {f'icalendar.{t.file[:-3]}.{name}' for t in TARGETS
                if t.group == self.t.group and t.cls is None and t.fn == name and (None, name) in self.registry}

    def e_ListComp(self, node, env):
        """`[x for x in xs if x.m()]` over a list of opaque objects whose method `m` is a parameter;
        `[E for v in xs]` whose E can raise: the elements in order, the first exception ends it"""
        g = node.generators[0]
        if len(node.generators) == 1 and not g.is_async and not g.ifs and isinstance(g.target, ast.Tuple) \
                and all(isinstance(e, ast.Name) for e in g.target.elts):
            xs = self.expr(g.iter, env)      # wave 8: `[E for a, b, _ in xs]` over a list of tuples (a name may repeat: the last binds)
            if xs.type.startswith('List:Tuple:'):
                self.fresh += 1
                x = f"p{self.fresh}'"
                parts = self.tuple_parts(V(x, xs.type[5:], None))
                if parts is not None and len(parts) == len(g.target.elts):
                    keep, self.pre = self.pre, []
                    try:
                        elt = self.lazily(self.expr, node.elt, dict(env, **{e.id: pv for e, pv in zip(g.target.elts, parts)}))
                        inner = self.pre
                    finally:
                        self.pre = keep
                    if not inner and elt.type in ('Int', 'Str', 'Bool'):
                        return V(f'({xs.lean}.map (fun {x} => {elt.lean}))', 'List:' + elt.type, None)
        two = len(node.generators) == 2 and all(not h.is_async and isinstance(h.target, ast.Name) and not h.ifs for h in node.generators) \
            and node.generators[0].target.id != node.generators[1].target.id
        if (len(node.generators) == 1 or two) and not g.is_async and isinstance(g.target, ast.Name) and not g.ifs:
            xs = self.expr(g.iter, env)
            if xs.type in ITER or xs.type.startswith('List:') or xs.type == 'DList':
                et = ITER.get(xs.type) or ('D' if xs.type == 'DList' else xs.type[5:])
                x = lname(g.target.id)
                keep, self.pre, lazy, self.lazy = self.pre, [], self.lazy, 0
                try:
                    # `[E for a in XS for b in YS]` is the concatenation of `[E for b in YS]` over the `a` of XS
                    elt_node = ast.copy_location(ast.ListComp(elt=node.elt, generators=[node.generators[1]]), node) if two else node.elt
                    elt = self.expr(elt_node, dict(env, **{g.target.id: V(x, et, None)}))
                    inner = self.pre
                finally:
                    self.pre, self.lazy = keep, lazy
                body = f'pure {elt.lean}'
                for ln in reversed(inner):       # `let t : T ← e` as `e >>= fun t => ..`
                    m = re.fullmatch(r"let (\S+) : (.*?) ← (.*)", ln)
                    body = f'({m.group(3)}) >>= fun ({m.group(1)} : {m.group(2)}) => {body}'
                if inner:
                    r = self.hoist(node, f'List.mapM (fun {x} => {body}) {xs.lean}', 'List:' + elt.type)
                else:
                    r = V(f'({xs.lean}.map (fun {x} => {elt.lean}))', 'List:' + elt.type, None)
                if two:
                    if not elt.type.startswith('List:'):
                        self.fail(node, f'nested comprehension whose inner part is a {elt.type}')
                    return V(f'{r.lean}.flatten', elt.type, None)
                return r
        if len(node.generators) == 1 and not g.is_async and isinstance(g.target, ast.Name) and len(g.ifs) == 1 \
                and isinstance(node.elt, ast.Name) and node.elt.id == g.target.id:
            c, xs = g.ifs[0], self.expr(g.iter, env)
            if xs.type == 'StrList':        # wave 8: `[k for k in xs if C]`, C a test that cannot raise: a filter
                x = lname(g.target.id)
                keep, self.pre = self.pre, []
                try:
                    cond = self.lazily(self.test, c, dict(env, **{g.target.id: V(x, 'Str', None)}))
                    inner = self.pre
                finally:
                    self.pre = keep
                if not inner:
                    return V(f'({xs.lean}.filter (fun {x} => {cond}))', 'StrList', None)
            if isinstance(c, ast.Call) and isinstance(c.func, ast.Attribute) and isinstance(c.func.value, ast.Name) \
                    and c.func.value.id == g.target.id and not c.args and not c.keywords:
                ext = self.t.externals.get(c.func.attr)
                if ext is not None and ext[0] == 'pmeth' and xs.type == ext[2] + 'List':
                    p = self.param(ext[1], f'{ext[2]} → Py Bool')
                    return self.hoist(node, f'pyFilterM {p.lean} {xs.lean}', xs.type)
        self.fail(node, f'list comprehension `{ast.unparse(node)[:50]}`')

    def is_utf8(self, node):
        """the literal 'utf-8', or DEFAULT_ENCODING of parser_tools.py with that value"""
        if isinstance(node, ast.Constant):
            return node.value == 'utf-8'
        if isinstance(node, ast.Name) and node.id == 'DEFAULT_ENCODING' \
                and self.modnames.get(node.id) == 'icalendar.parser_tools.DEFAULT_ENCODING':
            tools = X.parse(os.path.join(self.src_dir, 'parser_tools.py'))
            return X.const(X.find_assign(tools.body, 'DEFAULT_ENCODING')) == 'utf-8'
        return False

    def ctor_int_ok(self, node):
        """`cls(x)`: the class derives from exactly `int` and its __new__ only wraps int.__new__"""
        new = [st for st in self.cls.body if isinstance(st, ast.FunctionDef) and st.name == '__new__']
        ok = [ast.unparse(b) for b in self.cls.bases] == ['int'] and len(new) == 1 and new[0].args.vararg is not None \
            and ast.unparse(new[0].body[0]) == 'self = super().__new__(cls, *args, **kwargs)' \
            and ast.unparse(new[0].body[-1]) == 'return self' \
            and all(isinstance(st, ast.Assign) and isinstance(st.targets[0], ast.Attribute)
                    and ast.unparse(st.targets[0].value) == 'self' for st in new[0].body[1:-1]) \
            and not any(isinstance(st, ast.FunctionDef) and st.name == '__init__' for st in self.cls.body)
        if not ok:
            self.fail(node, f'{self.t.cls}.__new__ is not `self = super().__new__(cls, *args, **kwargs)` + attributes')

    def e_Call(self, node, env):
        whole = self.t.externals.get(ast.unparse(node))
        if whole is not None and whole[0] == 'expr' and whole[1] is None:
            return V('()', whole[3], None)      # an external value that the translated code never looks at
        if whole is not None and whole[0] == 'expr':        # an expression that stays external, as a whole
            args = [self.expr(ast.parse(n, mode='eval').body, env) for n in whole[2]]
            f = self.param(whole[1], ' → '.join(lean_type(a.type) for a in args) + ' → ' + lean_type(whole[3]))
            return V('(' + ' '.join([f.lean] + [a.lean for a in args]) + ')', whole[3], None)
        fn, callee = node.func, ast.unparse(node.func)
        if callee in self.t.externals and self.t.externals[callee][0] == 'tuple' and not node.args and not node.keywords:
            # an external call whose result is unpacked: the values it returned are parameters
            return V('', 'Tuple', None, [self.param(p, t) for p, t in self.t.externals[callee][1]])
        if self.dictself and callee in self.t.externals and self.t.externals[callee][0] == 'super' and not node.keywords:
            e = self.t.externals[callee]        # a step of the underlying ordered dict
            args = self.call_args(node, env)
            if [a.type for a in args] != e[2]:
                self.fail(node, f'{callee}(..) with arguments {[a.type for a in args]}, declared {e[2]}')
            if self.super_used:
                self.fail(node, 'a second super() call (only one step of the underlying dict is modelled)')
            self.super_used = True
            f = self.param(e[1], ' → '.join(['CDict.Store V'] + [lean_type(t) for t in e[2]] + ['CDict.Store V × CDict.Out V']))
            return V('(' + ' '.join([f.lean, "self'"] + [a.lean for a in args]) + ')', 'StepOut', None)
        if isinstance(fn, ast.Name) and fn.id in env and env[fn.id].type.startswith('Fn:') and not node.keywords:
            _, at, rt = env[fn.id].type.split(':')       # an argument that is a function
            args = self.call_args(node, env)
            if [a.type for a in args] != [at]:
                self.fail(node, f'call of the function argument `{fn.id}` with {[a.type for a in args]}')
            return V(f'({env[fn.id].lean} {args[0].lean})', rt, None)
        if isinstance(fn, ast.Attribute) and fn.attr == 'split' and len(node.args) == 1 and not node.keywords \
                and isinstance(node.args[0], ast.Constant) and isinstance(node.args[0].value, str) and len(node.args[0].value) == 1:
            x = self.expr(fn.value, env)
            if x.type == 'Str':
                return V(f'(splitOnChar {X.lchar(node.args[0].value)} {x.lean})', 'StrList', None)
        if isinstance(fn, ast.Name) and fn.id in env and self.t.externals.get(fn.id, ('',))[0] == 'callopaque' \
                and not node.args and not node.keywords:
            e = self.t.externals[fn.id]         # a local that holds an external class: calling it is a parameter
            if env[fn.id].type != e[2]:
                self.fail(node, f'call of `{fn.id}`, a {env[fn.id].type}')
            f = self.param(e[1], f'{lean_type(e[2])} → {lean_type(e[3])}')
            return V(f'({f.lean} {env[fn.id].lean})', e[3], None)
        if callee in self.t.externals and self.t.externals[callee][0] == 'ptuple' and not node.args and not node.keywords:
            e = self.t.externals[callee]        # an external call that may raise and whose result is unpacked
            args = [self.expr(ast.parse(n, mode='eval').body, env) for n in e[2]]
            typ = ' × '.join(lean_type(t) for t in e[3])
            f = self.param(e[1], ' → '.join([lean_type(a.type) for a in args] + [f'Py ({typ})']))
            self.fresh += 1
            r = f"t{self.fresh}'"
            if self.lazy:
                raise LazyPartial(f'{self.qual}: `{callee}()` can raise and stands where Python may not evaluate it')
            if not self.monadic:
                raise NeedMonad()
            self.pre.append(f'let {r} : {typ} ← ' + ' '.join([f.lean] + [a.lean for a in args]))
            n = len(e[3])
            return V('', 'Tuple', None, [V(r + '.2' * i + ('.1' if i < n - 1 else ''), t, None) for i, t in enumerate(e[3])])
        if isinstance(fn, ast.Attribute) and isinstance(fn.value, ast.Name) and fn.value.id not in env and callee not in self.t.externals \
                and self.modnames.get(fn.value.id) == 'def' and (fn.value.id, fn.attr) in self.registry:
            return self.call_class_method(node, fn.value.id, fn.attr, env)
        if isinstance(fn, ast.Attribute) and isinstance(fn.value, ast.Name) and fn.value.id == 'cls' and 'cls' not in env \
                and callee not in self.t.externals and (self.t.cls, fn.attr) in self.registry \
                and [ast.unparse(x) for x in self.func.decorator_list] == ['classmethod']:
            return self.call_class_method(node, self.t.cls, fn.attr, env)
        if isinstance(fn, ast.Attribute) and isinstance(fn.value, ast.Call) and isinstance(fn.value.func, ast.Name) \
                and callee not in self.t.externals and ast.unparse(node) not in self.t.externals \
                and fn.value.func.id not in env and self.modnames.get(fn.value.func.id) == 'def' \
                and (fn.value.func.id, fn.attr) in self.registry and not node.args and not node.keywords:
            return self.call_on_new(node, fn.value, fn.attr, env)
        if isinstance(fn, ast.Attribute) and fn.attr == 'pop' and not node.args and not node.keywords and isinstance(fn.value, ast.Name) \
                and fn.value.id in env and env[fn.value.id].type.startswith('Set:'):
            sv = env[fn.value.id]       # an arbitrary element: modelled only for a set of one element
            return self.hoist(node, f'setPopOnly {sv.lean}', sv.type[4:])
        if isinstance(fn, ast.Attribute) and fn.attr == 'startswith' and len(node.args) == 1 and not node.keywords:
            lits = node.args[0].elts if isinstance(node.args[0], ast.Tuple) else [node.args[0]]
            x = self.expr(fn.value, env)
            if x.type == 'Str' and lits and all(isinstance(l, ast.Constant) and isinstance(l.value, str) for l in lits):
                return V('(' + ' || '.join(f'startsWith {x.lean} {X.lstr(l.value)}' for l in lits) + ')', 'Bool', None)
        if isinstance(fn, ast.Attribute) and fn.attr == 'isdigit' and not node.args and not node.keywords:
            x = self.expr(fn.value, env)
            if x.type == 'Str':     # ASCII digits (the models' convention; Python's is Unicode)
                return V(f'(isDigitStr {x.lean})', 'Bool', None)
        if isinstance(fn, ast.Attribute) and fn.attr == 'lower' and not node.args and not node.keywords:
            x = self.expr(fn.value, env)
            if x.type == 'Str':     # ASCII lower-casing (the models' convention; Python's is Unicode)
                return V(f'(lower {x.lean})', 'Str', None)
        if isinstance(fn, ast.Attribute) and fn.attr == 'upper' and not node.args and not node.keywords:
            x = self.expr(fn.value, env)
            if x.type == 'Str':     # ASCII upper-casing (the models' convention; Python's is Unicode)
                return V(f'(upper {x.lean})', 'Str', None)
        if isinstance(fn, ast.Attribute) and self.objself and callee not in self.t.externals:
            recv = self.expr(fn.value, env) if not (isinstance(fn.value, ast.Name) and fn.value.id in ('cls',)) else None
            if recv is not None and recv.type == 'Comp':
                if fn.attr == self.t.fn:        # the method itself, on another component: recursion
                    if self.t.ret is None:
                        self.fail(node, 'recursive call of a function whose return type is not declared')
                    args = self.bound_args(node, self.func, list((self.t.args or {}).values()), env)
                    self.recursive = True
                    lean = ' '.join([self.t.lean + '«EXT»', recv.lean] + [a.lean for a in args])
                    return self.hoist(node, lean, self.t.ret) if self.monadic else V(f'({lean})', self.t.ret, None)
                d = self.resolve(fn.attr)
                if d is not None and d.objself and not self.is_property(fn.attr):     # another translated method of the class (or of a base class)
                    args = self.bound_args(node, d.func, d.argtypes, env)
                    ext = [self.param(*p).lean for p in d.params]
                    lean = ' '.join([d.lean] + ext + [recv.lean] + [a.lean for a in args])
                    return self.hoist(node, lean, d.rtype) if d.monadic else V(f'({lean})', d.rtype, None)
        if callee in self.t.externals and self.t.externals[callee][0] == 'sfun' and self.objself and not node.args and not node.keywords:
            e = self.t.externals[callee]        # a method of `self` that stays external: a function of the component
            f = self.param(e[1], f'Comp → {lean_type(e[2])}')
            return V(f"({f.lean} (Comp.mk name' props' subs'))", e[2], None)
        if callee == 'isinstance' and 'isinstance' not in self.modnames and self.static(node, env) is None \
                and self.union_test(node, env) is not None:
            x, acc, left = self.union_test(node, env)      # an instance test of a union value, as a value
            if not acc:
                return V('false', 'Bool', None)
            pair = UNIONS[x.type[2:]].get('pair')
            pats = ' | '.join('.' + c + (' _ _' if c == pair else ' _') for c in acc)
            return V(f'(match {x.lean} with | {pats} => true | _ => false)' if acc != left else 'true', 'Bool', None)
        if callee == 'isinstance' and 'isinstance' not in self.modnames and self.static(node, env) is not None:
            return V('true' if self.static(node, env) else 'false', 'Bool', None)      # decided by what is known of the value
        if callee == 'isinstance' and 'isinstance' not in self.modnames and len(node.args) == 2 and not node.keywords \
                and isinstance(node.args[1], ast.Name) and node.args[1].id == 'list' and 'list' not in self.modnames:
            x = self.expr(node.args[0], env)
            if x.type == 'Vals':
                return V(f'(PyVals.isList {x.lean})', 'Bool', None)
        if callee == 'isinstance' and 'isinstance' not in self.modnames and len(node.args) == 2 and not node.keywords \
                and isinstance(node.args[1], ast.Name) and node.args[1].id in ('date', 'datetime') \
                and self.modnames.get(node.args[1].id) == 'datetime.' + node.args[1].id:
            x = self.expr(node.args[0], env)
            if x.type == 'D':       # a datetime IS a date (subclass); the value type tells which one it is
                return V(OBJ[self.t.group]['is' + node.args[1].id].format(x=x.lean), 'Bool', None)
            if x.type == 'OptD':    # None is neither
                t = OBJ[self.t.group]['is' + node.args[1].id].format(x="d'")
                return V(f"(match {x.lean} with | none => false | some d' => {t})", 'Bool', None)
        if isinstance(fn, ast.Attribute) and isinstance(fn.value, ast.Name) and fn.value.id == 'self' \
                and (self.t.cls, fn.attr) in self.registry and not self.is_property(fn.attr) and not node.keywords:
            d = self.registry[(self.t.cls, fn.attr)]       # a method of the class, translated earlier
            ct = next(t for t in TARGETS if (t.cls, t.fn) == (self.t.cls, fn.attr) and t.group == self.t.group and not t.fragment)
            objs = {}
            if 'Object' in (ct.args or {}).values():
                if any(isinstance(a, ast.Starred) for a in node.args) or len(node.args) != len(ct.args):
                    self.fail(node, f'call self.{fn.attr}(...) with an object argument: not exactly the positional arguments')
                actual = [a for a, ty in zip(node.args, ct.args.values()) if ty != 'Object']
                objs = {n: a for a, (n, ty) in zip(node.args, ct.args.items()) if ty == 'Object'}
                args = [self.expr(a, env) for a in actual]
            else:
                args = self.call_args(node, env)
            args = [self.none_is_error(node, a) if a.type == 'OptD' and p[1] == 'D' else a for a, p in zip(args, d.params[:d.nargs])] \
                if len(args) == d.nargs else args
            if [a.type for a in args] != [p[1] for p in d.params[:d.nargs]]:
                self.fail(node, f'call self.{fn.attr}(...): argument types {[a.type for a in args]}')
            origin = {p: k for k, (p, _) in ct.self_attrs.items() if k.split('.')[0] in objs}
            rest = []
            for p in d.params[d.nargs:]:
                if p[0] in origin:      # `<object argument>.<ATTR>` of the callee: the same attribute of the actual argument
                    o, attr = origin[p[0]].split('.', 1)
                    v = self.expr(ast.parse(f'{ast.unparse(objs[o])}.{attr}', mode='eval').body, env)
                    if v.type != p[1]:
                        self.fail(node, f'call self.{fn.attr}(...): `{ast.unparse(objs[o])}.{attr}` is a {v.type}, the callee reads a {p[1]}')
                    rest.append(v.lean)
                else:
                    rest.append(self.param(*p).lean)
            lean = ' '.join([d.lean] + [a.lean for a in args] + rest)
            if d.rtype.startswith('Tuple:') and d.elts:      # a translated method that returns a tuple display: its components
                if d.monadic:
                    r = self.hoist(node, lean, d.rtype)
                else:
                    self.fresh += 1
                    r = V(f"t{self.fresh}'", d.rtype, None)
                    self.pre.append(f"let {r.lean} : {lean_type(d.rtype)} := {lean}")
                n = len(d.elts)
                return V('', 'Tuple', None, [V(r.lean + '.2' * i + ('.1' if i < n - 1 else ''), ty, None) for i, ty in enumerate(d.elts)])
            return self.hoist(node, lean, d.rtype) if d.monadic else V(f'({lean})', d.rtype, None)
        ext = self.t.externals.get(callee)
        if ext is not None and ext[0] in ('proc', 'pfun') and (not isinstance(fn, ast.Name) or fn.id not in env):
            kws = ext[4] if ext[0] == 'pfun' else {}
            if [k.arg for k in node.keywords] != list(kws):
                self.fail(node, f'external call {callee}: keyword arguments differ from the declared {list(kws)}')
            args = self.call_args(node, env) + [self.expr(k.value, env) for k in node.keywords]
            want = ext[2] + list(kws.values())
            args = [(to_union(a, w) or a) if w.startswith('U:') and a.type != w else a for a, w in zip(args, want)] if len(args) == len(want) else args
            if [a.type for a in args] != want:
                self.fail(node, f'external call {callee}: argument types {[a.type for a in args]}, declared {want}')
            rt = 'None' if ext[0] == 'proc' else ext[3]
            rtl = lean_type(rt)
            f = self.param(ext[1], ' → '.join(lean_type(t) for t in want) + f' → Py {"(" + rtl + ")" if " " in rtl else rtl}')
            return self.hoist(node, ' '.join([f.lean] + [a.lean for a in args]), rt)
        if ext is not None and isinstance(ext[0], str) and (not isinstance(fn, ast.Name) or fn.id not in env):
            if node.keywords:
                self.fail(node, f'call with keyword arguments `{ast.unparse(node)[:50]}`')
            args = self.call_args(node, env)
            if ext[0] == 'fun':
                args = [(to_union(a, w) or a) if w.startswith('U:') and a.type != w else a for a, w in zip(args, ext[2])] \
                    if len(args) == len(ext[2]) else args
                if [a.type for a in args] != ext[2]:
                    self.fail(node, f'external call {callee}: argument types {[a.type for a in args]}, declared {ext[2]}')
                f = self.param(ext[1], ' → '.join(lean_type(t) for t in ext[2] + [ext[3]]))
                return V('(' + ' '.join([f.lean] + [a.lean for a in args]) + ')', ext[3], None)
            if ext[0] == 'pred' and [a.type for a in args] == ['Str']:
                return V(f'({self.param(ext[1], "Str → Bool").lean} {args[0].lean})', 'Truth', None)
            if ext[0] == 'match' and [a.type for a in args] == ['Str'] and isinstance(fn, ast.Attribute) \
                    and fn.attr == 'match' and ast.unparse(fn.value) == ext[2]:
                n = re.compile(X.regex_source(self.tree, ext[2])).groups
                return self.param(ext[1], f'Match{n}')
            if ext[0] == 'ctor_int' and [a.type for a in args] == ['Str']:
                self.ctor_int_ok(node)
                return self.hoist(node, f'intOfStr {args[0].lean}', 'Int')
            self.fail(node, f'external call `{ast.unparse(node)[:50]}` does not have the declared shape')
        if isinstance(fn, ast.Attribute):
            if node.keywords:
                self.fail(node, f'call with keyword arguments `{ast.unparse(node)[:50]}`')
            if fn.attr == 'encode' and len(node.args) == 1 and self.is_utf8(node.args[0]):
                v = self.expr(fn.value, env)
                if v.type != 'Str':
                    self.fail(node, f'.encode on a value of type {v.type}')
                return V(v.lean, 'Bytes', None)
            if fn.attr == 'groups' and not node.args:
                v = self.expr(fn.value, env)
                if v.type.startswith('Match'):
                    g, n = self.hoist(node, f'groupsOf {v.lean}', 'Groups' + v.type[5:]), int(v.type[5:])
                    projs = [g.lean + '.2' * i + ('.1' if i < n - 1 else '') for i in range(n)]
                    return V('', 'Tuple', None, [V(p if n > 1 else g.lean, 'OptStr', None) for p in projs])
            if fn.attr == 'replace' and len(node.args) == 2 and all(
                    isinstance(a, ast.Constant) and isinstance(a.value, str) for a in node.args) and node.args[0].value:
                v = self.expr(fn.value, env)
                if v.type == 'Str':
                    return V(f'(replaceAll {X.lstr(node.args[0].value)} {X.lstr(node.args[1].value)} {v.lean})', 'Str', None)
            if fn.attr == 'join' and len(node.args) == 1 and isinstance(node.args[0], ast.Name) \
                    and isinstance(fn.value, ast.Constant) and fn.value.value == '':
                b = self.expr(node.args[0], env)
                if b.type == 'Builder':         # a list of str that was only appended to: its concatenation
                    return V(b.lean, 'Str', None)
            if fn.attr == 'join' and len(node.args) == 1 and isinstance(node.args[0], ast.Name) and node.args[0].id in env \
                    and env[node.args[0].id].type in ('List:Bytes', 'List:Str', 'StrList'):
                sep, xs = self.expr(fn.value, env), env[node.args[0].id]
                et = 'Str' if xs.type == 'StrList' else xs.type[5:]
                if sep.type == et:
                    return V(f'(joinWith {sep.lean} {xs.lean})', et, None)
            if fn.attr == 'join' and len(node.args) == 1 and isinstance(node.args[0], ast.GeneratorExp):
                g, sep = node.args[0], self.expr(fn.value, env)
                c = g.generators[0]
                if sep.type == 'Str' and len(g.generators) == 1 and not c.ifs and not c.is_async \
                        and isinstance(c.target, ast.Name) and isinstance(c.iter, ast.Call) \
                        and isinstance(c.iter.func, ast.Name) and c.iter.func.id == 'range' and 'range' not in self.modnames \
                        and c.iter.func.id not in env and len(c.iter.args) == 3 and not c.iter.keywords:
                    ra = [self.expr(a, env) for a in c.iter.args]       # evaluated when the generator is created
                    if all(a.type == 'Int' for a in ra):
                        rng = self.hoist(node, 'pyRange ' + ' '.join(a.lean for a in ra), 'IntList')
                        x = lname(c.target.id)
                        elt = self.lazily(self.expr, g.elt, dict(env, **{c.target.id: V(x, 'Int', None)}))
                        if elt.type == 'Str':
                            return V(f'(joinWith {sep.lean} ({rng.lean}.map (fun {x} => {elt.lean})))', 'Str', None)
                if sep.type in ('Str', 'Bytes') and len(g.generators) == 1 and not c.ifs and not c.is_async and isinstance(c.target, ast.Name):
                    it0 = self.expr(c.iter, env)
                    if it0.type.startswith('List:'):     # over a list of objects: the elements first (the first exception ends it), then the join
                        lc = ast.copy_location(ast.ListComp(elt=g.elt, generators=g.generators), node)
                        parts = self.e_ListComp(lc, env)
                        if parts.type == 'List:' + sep.type:
                            return V(f'(joinWith {sep.lean} {parts.lean})', sep.type, None)
                        self.fail(node, f'join of a list of {parts.type[5:]} with a {sep.type}')
                if sep.type == 'Str' and len(g.generators) == 1 and not c.ifs and not c.is_async and isinstance(c.target, ast.Name):
                    it = self.expr(c.iter, env)
                    if it.type == 'StrList':
                        x = lname(c.target.id)
                        elt = self.lazily(self.expr, g.elt, dict(env, **{c.target.id: V(x, 'Str', None)}))
                        if elt.type == 'Str':
                            return V(f'(joinWith {sep.lean} ({it.lean}.map (fun {x} => {elt.lean})))', 'Str', None)
            self.fail(node, f'method call `.{fn.attr}(...)`')
        if not isinstance(fn, ast.Name):
            self.fail(node, f'call `{ast.unparse(node)[:50]}`')
        if fn.id in env:
            self.fail(node, f'call of the local variable `{fn.id}`')
        if fn.id in self.t.externals:
            if node.keywords:
                self.fail(node, f'call with keyword arguments `{ast.unparse(node)[:50]}`')
            args, res, typ = self.t.externals[fn.id]
            got = [self.expr(a, env).lean for a in node.args]
            if got != args:
                self.fail(node, f'external call {fn.id}({", ".join(got)}): expected arguments {args}')
            return self.param(res, typ)
        d = self.registry.get((None, fn.id))
        if d is not None and (self.modnames.get(fn.id) == 'def' or self.modnames.get(fn.id) in self.imported_targets(fn.id)) \
                and not node.keywords:
            args = self.call_args(node, env)
            if [a.type for a in args] != [p[1] for p in d.params[:d.nargs]]:
                self.fail(node, f'call {fn.id}(...): argument types {[a.type for a in args]}')
            rest = [self.param(*p).lean for p in d.params[d.nargs:]]     # its parameters become ours
            lean = ' '.join([d.lean] + [a.lean for a in args] + rest)
            return self.hoist(node, lean, d.rtype) if d.monadic else V(f'({lean})', d.rtype, None)
        if fn.id == 'sorted' and 'sorted' not in self.modnames and len(node.args) == 1 and len(node.keywords) == 1 \
                and node.keywords[0].arg == 'key' and isinstance(node.keywords[0].value, ast.Lambda) \
                and not isinstance(node.args[0], ast.Starred):
            lam = node.keywords[0].value        # wave 8: `sorted(xs, key=lambda k: E)`, E an int: keys first, then a stable sort
            la = lam.args
            xs = self.expr(node.args[0], env)
            if xs.type == 'StrList' and len(la.args) == 1 and not (la.defaults or la.vararg or la.kwarg or la.kwonlyargs or la.posonlyargs):
                x = lname(la.args[0].arg)
                keep, self.pre, lazy, self.lazy = self.pre, [], self.lazy, 0
                try:
                    elt = self.expr(lam.body, dict(env, **{la.args[0].arg: V(x, 'Str', None)}))
                    inner = self.pre
                finally:
                    self.pre, self.lazy = keep, lazy
                if elt.type != 'Int':
                    self.fail(node, f'sorted(.., key=..) with a key of type {elt.type} (only int)')
                body = f'pure {elt.lean}'
                for ln in reversed(inner):
                    m = re.fullmatch(r"let (\S+) : (.*?) ← (.*)", ln)
                    body = f'({m.group(3)}) >>= fun ({m.group(1)} : {m.group(2)}) => {body}'
                return self.hoist(node, f'pySortedByIntKeyM (fun {x} => {body}) {xs.lean}', 'StrList')
            self.fail(node, f'`{ast.unparse(node)[:50]}` (only a list of str with a one-argument lambda)')
        if fn.id == 'sorted' and 'sorted' not in self.modnames and len(node.args) == 1 and not node.keywords \
                and not isinstance(node.args[0], ast.Starred):
            v = self.expr(node.args[0], env)        # wave 8: of a set / list of str: the code-point order is total on distinct
            if v.type in ('Set:Str', 'StrList'):    # strings and equal strings cannot be told apart, so the result is determined
                return V(f'(pySortedStr {v.lean})', 'StrList', None)
            self.fail(node, f'sorted() of a value of type {v.type} (only a set or list of str)')
        if fn.id == 'list' and 'list' not in self.modnames and len(node.args) == 1 and not node.keywords \
                and not isinstance(node.args[0], ast.Starred):
            v = self.expr(node.args[0], env)        # wave 8: a new list with the same elements (values are immutable here)
            if v.type.startswith('List:') or v.type == 'StrList':
                return v
            self.fail(node, f'list() of a value of type {v.type}')
        builtins = ('str', 'int', 'abs', 'len', 'date', 'time', 'datetime')
        if fn.id in builtins and self.modnames.get(fn.id, f'datetime.{fn.id}') != f'datetime.{fn.id}':
            self.fail(node, f'`{fn.id}` is rebound at module level ({self.modnames[fn.id]})')
        if fn.id in ('date', 'time', 'datetime', 'timedelta') and self.modnames.get(fn.id) != f'datetime.{fn.id}':
            self.fail(node, f'`{fn.id}` is not `from datetime import {fn.id}`')
        if fn.id == 'timedelta' and not node.keywords and len(node.args) == 1 and isinstance(node.args[0], ast.Constant) \
                and type(node.args[0].value) is int and node.args[0].value == 0:
            return V('TD.zero', 'TD', None)
        if fn.id == 'timedelta' and not node.args and node.keywords:
            units = ['weeks', 'days', 'hours', 'minutes', 'seconds']
            kw = {k.arg: self.expr(k.value, env) for k in node.keywords}
            if self.t.group == 'tz' and len(kw) == len(node.keywords) and set(kw) <= set(units) and all(v.type == 'Int' for v in kw.values()):
                return V('(tdSeconds ' + ' '.join(kw[u].lean if u in kw else '(0 : Int)' for u in units) + ')', 'Int', None)
            if self.t.group == 'se' and len(kw) == len(node.keywords) and set(kw) <= set(units) and all(v.type == 'Int' for v in kw.values()):
                return V('(tdsOfUnits ' + ' '.join(kw[u].lean if u in kw else '(0 : Int)' for u in units) + ')', 'TDS', None)
            if len(kw) == len(node.keywords) and set(kw) <= set(units) and all(v.type == 'Int' for v in kw.values()):
                return V('(TD.ofUnits ' + ' '.join(kw[u].lean if u in kw else '(0 : Int)' for u in units) + ')', 'TD', None)
        if node.keywords:
            self.fail(node, f'call with keyword arguments `{ast.unparse(node)[:50]}`')
        if fn.id in ('date', 'time', 'datetime'):
            args = self.call_args(node, env)
            n, f, typ = {'date': (3, 'mkPyDate', 'PyDate'), 'time': (3, 'mkPyTime', 'PyTime'),
                         'datetime': (6, 'mkPyDateTime', 'PyDateTime')}[fn.id]
            if len(args) == n and all(a.type == 'Int' for a in args):
                return self.hoist(node, ' '.join([f] + [a.lean for a in args]), typ)
            self.fail(node, f'{fn.id}(...) is not called with {n} ints')
        if fn.id == 'int' and len(node.args) == 1 and not isinstance(node.args[0], ast.Starred):
            v = self.int_of(node, node.args[0], env)
            if v is not None:
                return v
        if fn.id == 'max' and 'max' not in self.modnames and len(node.args) == 2 and not node.keywords:
            a, b = [self.expr(x, env) for x in node.args]
            if (a.type, b.type) == ('D', 'D'):
                return self.hoist(node, f'dtMax {a.lean} {b.lean}', 'D')
            if (a.type, b.type) == ('Int', 'Int'):
                return V(f'(if decide ({b.lean} > {a.lean}) then {b.lean} else {a.lean})', 'Int', None)
            self.fail(node, f'max() of {a.type}, {b.type}')
        if fn.id == 'len' and len(node.args) == 1 and isinstance(node.args[0], ast.Call) \
                and isinstance(node.args[0].func, ast.Attribute) and node.args[0].func.attr == 'encode' \
                and len(node.args[0].args) == 1 and not node.args[0].keywords and self.is_utf8(node.args[0].args[0]):
            c = self.expr(node.args[0].func.value, env)
            if c.type == 'Char':
                return V(f'(utf8Len {c.lean})', 'Int', None)
        if fn.id == 'len' and len(node.args) == 1 and not isinstance(node.args[0], ast.Starred):
            v = self.expr(node.args[0], env)
            if v.type.startswith('List:'):
                return V(f'({v.lean}.length : Int)', 'Int', None)
            if v.type == 'Str':
                return V(f'(strLen {v.lean})', 'Int', None)
            if v.type == 'Tuple':
                return V(f'({len(v.elts)} : Int)', 'Int', None)
            if v.type.startswith('Set:'):
                return V(f'({v.lean}.length : Int)', 'Int', None)
            self.fail(node, f'len() of a value of type {v.type}')
        if fn.id in ('str', 'int', 'abs') and len(node.args) == 1 and not isinstance(node.args[0], ast.Starred):
            arg = node.args[0]
            v = self.expr(arg, env)
            if isinstance(arg, ast.Name) and arg.id == 'self':
                if fn.id == 'str' and any(isinstance(s, ast.FunctionDef) and s.name == '__str__' for s in self.cls.body):
                    d = self.registry.get((self.t.cls, '__str__'))
                    if d is None:
                        self.fail(node, f'str(self): {self.t.cls}.__str__ is not translated')
                    for p in d.params:
                        self.param(*p)
                    return V('(' + ' '.join([d.lean] + [p[0] for p in d.params]) + ')', d.rtype, None)
                self.builtin_method_ok(node, *{'str': ('__str__', '__repr__'), 'abs': ('__abs__',),
                                               'int': ('__int__', '__index__', '__trunc__')}[fn.id])
            if fn.id == 'str' and v.type == 'ExcVal':
                return V('()', 'Msg', None)        # the message of an exception is not modelled
            if fn.id == 'str' and v.type == 'Str':
                return V(v.lean, 'Str', v.lits)
            if v.type == 'Int':
                return {'str': V(f'(strInt {v.lean})', 'Str', None), 'int': v,
                        'abs': V(f'(pyAbs {v.lean})', 'Int', None)}[fn.id]
            self.fail(node, f'{fn.id}() of a value of type {v.type}')
        self.fail(node, f'call `{ast.unparse(node)[:50]}`')

    # ------------------------------------------------------------ statements

    def bind(self, env, name, v):
        env = dict(env)
        if v.type == 'Tuple':       # a tuple display bound to a name: kept symbolically (for `f(*name)`)
            env[name] = v
            return env, None
        if name in self.slots:
            v = self.coerce(name, v)
        self.narrow.pop(lname(name), None)     # the variable is rebound: what was known about it no longer holds
        self.consts[name] = v.lean if v.lean in ('(0 : Int)', '(1 : Int)') else None    # the literal it holds, if 0 / 1
        if v.elts is not None and v.elts[0] == ALIAS:       # not copied: every read looks at the list as it is then
            env[name] = v
            return env, None
        env[name] = V(lname(name), v.type, v.lits)
        return env, f'let {lname(name)} : {lean_type(v.type)} := {v.lean}'

    def coerce(self, name, v):
        """a value assigned to a state variable of the loop being translated"""
        slot = self.slots[name]
        if v.type == slot:
            return v
        if slot == 'OptInt' and v.type == 'Int':
            return V(f'(some {v.lean})', 'OptInt', None)
        if slot == 'OptInt' and v.type == 'None':
            return V('(none : Option Int)', 'OptInt', None)
        if slot == 'Bool' and v.lean in ('(0 : Int)', '(1 : Int)'):
            return V('false' if v.lean == '(0 : Int)' else 'true', 'Bool', None)
        init = self.slot_init[name]
        if slot == 'None' and v.type == 'Int':
            raise Widen(name, 'OptInt')
        if slot == 'Int' and v.type == 'Bool' and init is not None and self.only_truth(name):
            raise Widen(name, 'Bool')
        self.fail(self.func, f'`{name}` is {slot} before the loop and is assigned a {v.type} inside it')

    def only_truth(self, name):
        """every read of the variable is a truth test (`not x`, `x and ..`, `if x`)"""
        for n in ast.walk(self.func):
            if isinstance(n, ast.Name) and n.id == name and isinstance(n.ctx, ast.Load):
                p = self.parent.get(n)
                if not (isinstance(p, ast.BoolOp) or (isinstance(p, ast.UnaryOp) and isinstance(p.op, ast.Not))
                        or (isinstance(p, (ast.If, ast.While, ast.IfExp)) and p.test is n)):
                    return False
        return True

    def ret(self, lean):
        return f'pure {lean}' if self.monadic else lean

    def temps(self, vals):
        """bind every value to a fresh name (the components of a tuple are evaluated before it is unpacked)"""
        lines = []
        for i, v in enumerate(vals):
            if v.type == 'Tuple':
                self.fail(self.func, 'nested tuple')
            if v.lean.startswith('t') and v.lean.endswith("'") and v.lean[1:-1].isdigit():
                continue
            self.fresh += 1
            lines.append(f"let t{self.fresh}' : {lean_type(v.type)} := {v.lean}")
            vals[i] = V(f"t{self.fresh}'", v.type, v.lits)
        return lines

    def block(self, stmts, env, tail):
        """lines of a Lean term: run `stmts`, then continue with `tail`; `return e` ends the function"""
        if not stmts:
            return tail.make(env)
        s, rest = stmts[0], stmts[1:]
        if isinstance(s, ast.Pass) or (isinstance(s, ast.Expr) and isinstance(s.value, ast.Constant)
                                       and isinstance(s.value.value, str)):
            return self.block(rest, env, tail)
        if isinstance(s, ast.Return) and s.value is None and getattr(self, 'fields', None) is not None and not self.loopctx:
            return self.fields_out(env)
        if isinstance(s, ast.Expr) and isinstance(s.value, ast.Call) and isinstance(s.value.func, ast.Attribute) \
                and isinstance(s.value.func.value, ast.Name) and s.value.func.value.id == 'self' and getattr(self, 'fields', None) is not None:
            d = self.registry.get((self.t.cls, s.value.func.attr))
            if d is not None and d.fields is not None:
                ct = next(t for t in TARGETS if (t.cls, t.fn) == (self.t.cls, s.value.func.attr) and t.group == self.t.group)
                return self.call_fields_method(s, d, ct, rest, env, tail)
        if isinstance(s, ast.Return) and s.value is None and (self.t.self_type or '').startswith('State:') and 'self' in env \
                and not self.loopctx and self.t.group == 'sedesc':
            self.rtype = self.t.self_type[6:]       # wave 9: bare `return` of a method that leaves a state: the state as it is now
            return [self.ret(env['self'].lean)]
        if isinstance(s, ast.Expr) and isinstance(s.value, ast.Call) and isinstance(s.value.func, ast.Name) \
                and '.' in self.t.fn and self.t.cls is None and s.value.func.id not in env \
                and (None, self.t.fn.split('.')[0] + '.' + s.value.func.id) in self.registry \
                and (self.t.self_type or '').startswith('State:') and 'self' in env:
            # wave 9: `sibling(self)` as a statement, `sibling` another closure of the same factory translated earlier (find_closure
            # checked that the name is bound once, by its def): `self` is rebound to the state it leaves; its free variables and
            # externals are ours
            d = self.registry[(None, self.t.fn.split('.')[0] + '.' + s.value.func.id)]
            if s.value.keywords or [ast.unparse(x) for x in s.value.args] != ['self'] or d.rtype != self.t.self_type[6:] \
                    or [p[1] for p in d.params[:d.nargs]] != [self.t.self_type[6:]]:
                self.fail(s, f'call `{ast.unparse(s.value)[:50]}` of a sibling closure (only `f(self)` of one that takes `self` alone)')
            obj = env['self']
            ext = [self.param(*p).lean for p in d.params[d.nargs:]]
            lean = ' '.join([d.lean, obj.lean] + ext)
            new = self.hoist(s, lean, obj.type) if d.monadic else V(f'({lean})', obj.type, None)
            lines = self.take_pre()
            env, line = self.bind(env, 'self', new)
            return lines + [line] + self.block(rest, env, tail)
        if isinstance(s, ast.Return):
            if s.value is None:
                self.fail(s, 'bare return')
            # statements after a `return` never run (they are there when the rest of the function was appended to
            # a branch that already returned): dropped
            if isinstance(s.value, ast.Tuple) and any(isinstance(e, ast.Name) and e.id in env and env[e.id].lean in self.narrow
                                                      for e in s.value.elts):
                # a variable known to hold an object here is returned as the optional value it is (one type on every path)
                v = V('', 'Tuple', None, [env[e.id] if isinstance(e, ast.Name) and e.id in env and env[e.id].lean in self.narrow
                                          else self.expr(e, env) for e in s.value.elts])
            else:
                v = self.expr(s.value, env)
            if (self.t.ret or '').startswith('Result:'):
                rt = self.t.ret[7:]
                if v.type == rt:
                    v = V(f'(PyResult.one {v.lean})', self.t.ret, None)
                elif v.type == 'List:' + rt:
                    v = V(f'(PyResult.many {v.lean})', self.t.ret, None)
            if self.t.ret == 'OptBool' and v.type in ('Bool', 'Truth'):
                v = V(f'(some {v.lean})', 'OptBool', None)
            if (self.t.ret or '').startswith('U:') and v.type != self.t.ret:      # a member of the union the function returns
                w = to_union(v, self.t.ret)
                if w is None:
                    self.fail(s, f'return of a {v.type} from a function that returns {self.t.ret}')
                v = w
            if v.type == 'Tuple' and all(e.type != 'Tuple' for e in v.elts):       # a tuple display of values
                self.rtype_elts = [e.type for e in v.elts]
                self.rtype_lean = ' × '.join(lean_type(e.type) for e in v.elts)
                v = V('(' + ', '.join(e.lean for e in v.elts) + ')', 'Tuple:' + self.rtype_lean, None)
            elif v.type not in ('Str', 'Bytes', 'Int', 'Bool', 'TD', 'PyDate', 'PyTime', 'PyDateTime', 'StrList', 'D', 'OptD', 'DList', 'ATList', 'CompList', 'ItemList', 'StepOut') \
                    and not v.type.startswith('Result:') and v.type != self.t.ret:
                self.fail(s, f'return of a value of type {v.type}')
            if self.t.ret == 'OptD' and v.type == 'D':       # a present value where the function returns an optional
                v = V(f'(some {v.lean})', 'OptD', None)
            if self.rtype not in (None, v.type) or (self.t.ret is not None and v.type != self.t.ret):
                self.fail(s, f'returns both {self.rtype or self.t.ret} and {v.type}')
            self.rtype = v.type
            if self.loopctx:
                return self.take_pre() + [self.ret(f'(Loop.ret {v.lean})')]
            return self.take_pre() + [self.ret(v.lean)]
        if isinstance(s, ast.Assert) and isinstance(s.test, ast.Compare) and len(s.test.ops) == 1 and isinstance(s.test.ops[0], ast.IsNot) \
                and isinstance(s.test.comparators[0], ast.Constant) and s.test.comparators[0].value is False \
                and isinstance(s.test.left, ast.Name) and (self.t.locals or {}).get(s.test.left.id) == 'FalseOrInt' and s.test.left.id in env \
                and env[s.test.left.id].type == 'OptInt' and re.fullmatch(r"[A-Za-z_][\w']*", env[s.test.left.id].lean):
            # wave 8: this assert IS evaluated (the hand model has its failure): AssertionError when the value is still False
            if not self.monadic:
                raise NeedMonad()
            x = env[s.test.left.id]
            self.fresh += 1
            v = f"n{self.fresh}'"
            env2 = dict(env)
            env2[s.test.left.id] = V(v, 'Int', None)
            return [f'match {x.lean} with', '| none => throw Exc.assertionError', f'| some {v} => do'] + \
                ['  ' + ln for ln in self.block(rest, env2, tail)]
        if isinstance(s, ast.Assert):       # not evaluated: a documented precondition
            self.notes.append(f'PRECONDITION (assert, line {s.lineno}, not checked by the model; python -O is not '
                              f'modelled): `{ast.unparse(s.test)}`')
            return self.block(rest, env, tail)
        if isinstance(s, (ast.Break, ast.Continue)):
            if not self.loopctx:
                self.fail(s, f'{type(s).__name__} outside a loop')
            return self.loopctx[-1]['brk' if isinstance(s, ast.Break) else 'cont'](env)
        if isinstance(s, ast.Assign) and len(s.targets) == 1 and isinstance(s.targets[0], ast.Name) and isinstance(s.value, ast.GeneratorExp) \
                and rest and isinstance(rest[0], ast.Return) and isinstance(rest[0].value, ast.Call) \
                and isinstance(rest[0].value.func, ast.Attribute) and rest[0].value.func.attr == 'join' and not rest[0].value.keywords \
                and len(rest[0].value.args) == 1 and isinstance(rest[0].value.args[0], ast.Name) and rest[0].value.args[0].id == s.targets[0].id \
                and sum(1 for n in ast.walk(self.func) if isinstance(n, ast.Name) and n.id == s.targets[0].id) == 2:
            # wave 8: `g = (E for v in xs)` consumed only by the `return sep.join(g)` that follows: nothing runs in between, so
            # the elements are produced exactly where the join asks for them
            ret = ast.copy_location(ast.Return(value=ast.copy_location(ast.Call(func=rest[0].value.func, args=[s.value], keywords=[]), rest[0].value)), rest[0])
            return self.block([ret] + rest[1:], env, tail)
        if isinstance(s, ast.For):
            return self.for_(s, rest, env, tail)
        if isinstance(s, ast.While):
            return self.while_(s, rest, env, tail)
        if isinstance(s, ast.Expr) and isinstance(s.value, ast.Call) and getattr(self, 'fields', None) is not None \
                and self.t.externals.get(ast.unparse(s.value), ('',))[0] == 'fieldset':
            e = self.t.externals[ast.unparse(s.value)]
            fld = env['self__' + e[2]]
            args = [self.expr(ast.parse(n, mode='eval').body, env) for n in e[3]]
            f = self.param(e[1], ' → '.join([lean_type(fld.type)] + [lean_type(a.type) for a in args] + [lean_type(fld.type)]))
            env, line = self.bind(env, 'self__' + e[2], V('(' + ' '.join([f.lean, fld.lean] + [a.lean for a in args]) + ')', fld.type, None))
            return self.take_pre() + [line] + self.block(rest, env, tail)
        if isinstance(s, ast.Expr) and isinstance(s.value, ast.Call) and 'self' in env \
                and self.t.externals.get(ast.unparse(s.value), ('',))[0] == 'selfstmt':
            # wave 8: a whole call statement that changes `self` (`super().__init__(*args, **kwargs)`): a parameter from the
            # state before and the named locals to the state after; it may raise
            e = self.t.externals[ast.unparse(s.value)]
            args = [self.expr(ast.parse(n, mode='eval').body, env) for n in e[2]]
            obj = env['self']
            f = self.param(e[1], ' → '.join([lean_type(obj.type)] + [lean_type(x.type) for x in args] + [f'Py {lean_type(obj.type)}']))
            new = self.hoist(s, ' '.join([f.lean, obj.lean] + [x.lean for x in args]), obj.type)
            lines = self.take_pre()
            env, line = self.bind(env, 'self', new)
            return lines + [line] + self.block(rest, env, tail)
        if isinstance(s, ast.Expr) and isinstance(s.value, ast.Call):
            callee = ast.unparse(s.value.func)
            e = self.t.externals.get(callee)
            if e is None and not s.value.keywords:      # wave 9: one method called with different numbers of arguments: `callee/N`
                callee = f'{callee}/{len(s.value.args)}'
                e = self.t.externals.get(callee)
            if e is not None and e[0] in ('mut', 'mutlast'):       # a method that mutates an object in place
                return self.mutate(s, callee, e, rest, env, tail)
        if isinstance(s, ast.Assign) and len(s.targets) == 1 and isinstance(s.targets[0], ast.Attribute) \
                and isinstance(s.targets[0].value, ast.Name) and s.targets[0].value.id in env \
                and self.t.externals.get(ast.unparse(s.targets[0]) + '=', ('',))[0] == 'setattr':
            e, name = self.t.externals[ast.unparse(s.targets[0]) + '='], s.targets[0].value.id
            obj, v = env[name], self.expr(s.value, env)
            if v.type != e[2] or obj.elts is not None or obj.type.startswith('Opt:'):
                self.fail(s, f'`{ast.unparse(s)[:50]}`: a {v.type} assigned to an attribute of a {obj.type}')
            f = self.param(e[1], f'{lean_type(obj.type)} → {lean_type(e[2])} → {lean_type(obj.type)}')
            env, line = self.bind(env, name, V(f'({f.lean} {obj.lean} {v.lean})', obj.type, None))
            return self.take_pre() + [line] + self.block(rest, env, tail)
        if isinstance(s, ast.Assign) and len(s.targets) == 1 and isinstance(s.targets[0], ast.Name) \
                and isinstance(s.value, ast.Call) and isinstance(s.value.func, ast.Attribute) and s.value.func.attr == 'pop' \
                and not s.value.args and isinstance(s.value.func.value, ast.Name) and s.value.func.value.id in env \
                and env[s.value.func.value.id].type.startswith('List:'):
            ln, xs = s.value.func.value.id, env[s.value.func.value.id]     # `v = xs.pop()`
            p = self.hoist(s, f'listPop {xs.lean}', f'Pair')
            self.pre[-1] = self.pre[-1].replace(': Pair ←', f': {lean_type(xs.type[5:])} × {lean_type(xs.type)} ←')
            env, l1 = self.bind(env, s.targets[0].id, V(p.lean + '.1', xs.type[5:], None))
            env, l2 = self.bind(env, ln, V(p.lean + '.2', xs.type, None))
            return self.take_pre() + [l1, l2] + self.block(rest, env, tail)
        if isinstance(s, ast.Expr) and isinstance(s.value, ast.Call) and self.dictself \
                and self.t.externals.get(ast.unparse(s.value.func), ('',))[0] == 'super':
            if rest:
                self.fail(rest[0], 'statement after the super() call')
            v = self.expr(s.value, env)     # what super().<m>() returns is dropped: the method returns None
            self.rtype = 'StepOut'
            return self.take_pre() + [self.ret(f'(dropResult {v.lean})')]
        if isinstance(s, ast.Expr) and isinstance(s.value, ast.Call) \
                and self.t.externals.get(ast.unparse(s.value.func), ('',))[0] == 'proc':
            self.expr(s.value, env)         # hoisted: it may raise; its result is not used
            return self.take_pre() + self.block(rest, env, tail)
        if isinstance(s, ast.Expr) and isinstance(s.value, ast.Yield) and s.value.value is not None and "out'" in env:
            v = self.expr(s.value.value, env)       # a generator is the list of what it yields
            if v.type != 'D':
                self.fail(s, f'yield of a value of type {v.type}')
            env = dict(env)
            env["out'"] = V("out'", 'DList', None)
            return self.take_pre() + [f"let out' : List Trig := (out' ++ [{v.lean}])"] + self.block(rest, env, tail)
        if isinstance(s, ast.Expr) and isinstance(s.value, ast.Call) and isinstance(s.value.func, ast.Attribute) \
                and isinstance(s.value.func.value, ast.Name) and s.value.func.value.id in env \
                and env[s.value.func.value.id].type.startswith('Set:'):
            # wave 8: a Python set (a duplicate-free list): .add(x) / .update(xs) / .discard(x)
            name, m, call = s.value.func.value.id, s.value.func.attr, s.value
            sv = env[name]
            et = sv.type[4:]
            if m not in ('add', 'update', 'discard') or len(call.args) != 1 or call.keywords or isinstance(call.args[0], ast.Starred):
                self.fail(s, f'set method `{name}.{m}(..)` (only add / update / discard with one argument)')
            a = self.expr(call.args[0], env)
            if m in ('add', 'discard'):
                x = a.lean if a.type == et else f'(some {a.lean})' if (et, a.type) == ('OptStr', 'Str') else \
                    '(none : Option Str)' if (et, a.type) == ('OptStr', 'None') else None
                if x is None:
                    self.fail(s, f'`{name}.{m}(..)` of a {a.type} on a set of {et}')
                new = f'({"setAdd" if m == "add" else "setDiscard"} {sv.lean} {x})'
            else:
                elem = 'Str' if a.type == 'StrList' else a.type[5:] if a.type.startswith('List:') else a.type[4:] if a.type.startswith('Set:') else None
                xs = a.lean if elem == et else f'({a.lean}.map some)' if (et, elem) == ('OptStr', 'Str') else None
                if elem is None or xs is None:
                    self.fail(s, f'`{name}.update(..)` of a {a.type} on a set of {et}')
                new = f'(setUpdate {sv.lean} {xs})'
            lines = self.take_pre()
            env, line = self.bind(env, name, V(new, sv.type, None))
            return lines + [line] + self.block(rest, env, tail)
        if isinstance(s, ast.Assign) and len(s.targets) == 1 and isinstance(s.targets[0], ast.Name) and isinstance(s.value, ast.Call) \
                and isinstance(s.value.func, ast.Name) and s.value.func.id == 'set' and not s.value.args and not s.value.keywords:
            if 'set' in self.modnames or 'set' in env:
                self.fail(s, '`set` is rebound')
            declared = (self.t.locals or {}).get(s.targets[0].id, '')
            if not declared.startswith('Set:'):
                self.fail(s, f'`{s.targets[0].id} = set()`: the element type is not declared (locals)')
            env, line = self.bind(env, s.targets[0].id, V(f'([] : {lean_type(declared)})', declared, None))
            return [line] + self.block(rest, env, tail)
        if isinstance(s, ast.Expr) and is_append(s.value):
            name = s.value.func.value.id
            if name in env and env[name].lean in self.narrow and self.narrow[env[name].lean].type.startswith('List:') and s.value.func.attr == 'append':
                lst, v = self.narrow[env[name].lean], self.expr(s.value.args[0], env)      # a value of a union known to be a list
                if v.type != lst.type[5:]:
                    self.fail(s, f'append of a {v.type} to a {lst.type}')
                env, line = self.bind(env, name, V(f'({lst.lean} ++ [{v.lean}])', lst.type, None))
                return self.take_pre() + [line] + self.block(rest, env, tail)
            if name not in env or not (env[name].type in ('Builder', 'StrList', 'CompList', 'ItemList') or env[name].type.startswith('List:')):
                self.fail(s, f'`{name}.append(..)` on something that is not a local list')
            x, v = env[name], self.expr(s.value.args[0], env)
            if x.type == 'Builder' and v.type in ('Str', 'Char'):
                new = V(f'({x.lean} ++ {v.lean})' if v.type == 'Str' else f'({x.lean} ++ [{v.lean}])', 'Builder', None)
            elif x.type == 'StrList' and v.type == 'Str':
                new = V(f'({x.lean} ++ [{v.lean}])', 'StrList', None)
            elif x.type == 'ItemList' and v.type == 'Tuple':
                new = V(f'({x.lean} ++ [{self.as_item(v, s).lean}])', 'ItemList', None)
            elif x.type.startswith('List:') and v.type == x.type[5:]:
                new = V(f'({x.lean} ++ [{v.lean}])', x.type, None)
            elif x.type.startswith('List:Tuple:') and v.type == 'Tuple' and v.elts \
                    and ' × '.join(lean_type(self.narrow.get(e.lean, e).type) for e in v.elts) == x.type[11:]:
                new = V(f'({x.lean} ++ [(' + ', '.join(self.narrow.get(e.lean, e).lean for e in v.elts) + ')])', x.type, None)
            elif (x.type, v.type) in (('CompList', 'Comp'), ('ItemList', 'Item')):
                new = V(f'({x.lean} ++ [{v.lean}])', x.type, None)
            else:
                self.fail(s, f'append of a {v.type} to a {x.type}')
            env, line = self.bind(env, name, new)
            return self.take_pre() + [line] + self.block(rest, env, tail)
        if isinstance(s, ast.Assign) and len(s.targets) == 1 and isinstance(s.targets[0], ast.Name) \
                and ((isinstance(s.value, ast.List) and not s.value.elts) or self.is_list_ctor(s.value)):
            declared = (self.t.locals or {}).get(s.targets[0].id)
            kind = declared or self.listkind(s, s.targets[0].id)
            v = V('([] : Str)', 'Builder', None) if kind == 'Builder' else V(f'([] : {lean_type(kind)})', kind, None)
            env, line = self.bind(env, s.targets[0].id, v)
            return [line] + self.block(rest, env, tail)
        if isinstance(s, ast.Raise):
            if s.exc is None and self.handling:       # bare `raise` in a handler: the exception being handled
                return [f'throw {self.handling[-1]}']
            e = s.exc.func if isinstance(s.exc, ast.Call) else s.exc
            if isinstance(e, ast.Name) and e.id in SUBVALUE and self.derives_from_valueerror(e.id):
                if not self.monadic:
                    raise NeedMonad()
                return [f'throw Exc.{SUBVALUE[e.id]}']
            if isinstance(e, ast.Name) and e.id == 'TypeError' and 'TypeError' not in self.modnames and self.t.group == 'sedesc' \
                    and isinstance(s.exc, ast.Call) and s.cause is None:
                if not self.monadic:        # wave 9: `raise TypeError(..)` (the builtin; the message is not part of the model)
                    raise NeedMonad()
                return ['throw Exc.typeError']
            if not (isinstance(e, ast.Name) and e.id == 'ValueError' and 'ValueError' not in self.modnames):
                self.fail(s, f'`{ast.unparse(s)[:50]}` (only `raise ValueError(...)` and its icalendar subclasses)')
            if not self.monadic:
                raise NeedMonad()
            return ['throw Exc.valueError']      # the message is not part of the model
        if isinstance(s, ast.Try):
            return self.try_(s, rest, env, tail)
        if ((isinstance(s, ast.Assign) and len(s.targets) == 1 and isinstance(s.targets[0], ast.Subscript)) or
                (isinstance(s, ast.Delete) and len(s.targets) == 1 and isinstance(s.targets[0], ast.Subscript))) \
                and isinstance(s.targets[0].value, ast.Attribute) and isinstance(s.targets[0].value.value, ast.Name) \
                and s.targets[0].value.value.id in env:
            tg, name = s.targets[0], s.targets[0].value.value.id
            key = ('del ' if isinstance(s, ast.Delete) else '') + ast.unparse(tg.value) + ('[]' if isinstance(s, ast.Delete) else '[]=')
            e = self.t.externals.get(key)
            if e is not None and e[0] in ('setitem', 'delitem'):
                obj = env[name]
                v = self.expr(s.value, env) if isinstance(s, ast.Assign) else None      # the right side first, then the key
                k = self.expr(tg.slice, env)
                if v is not None:
                    v = self.narrow.get(v.lean, v)
                if k.type != e[2] or (v is not None and v.type != e[3]) or obj.elts is not None:
                    self.fail(s, f'`{ast.unparse(s)[:50]}`: key {k.type}' + (f', value {v.type}' if v else '') + f'; declared {e[2:]}')
                ft = [lean_type(obj.type), lean_type(e[2])] + ([lean_type(e[3])] if v is not None else []) + [lean_type(obj.type)]
                f = self.param(e[1], ' → '.join(ft))
                env, line = self.bind(env, name, V(f'({f.lean} {obj.lean} {k.lean}' + (f' {v.lean}' if v is not None else '') + ')', obj.type, None))
                return self.take_pre() + [line] + self.block(rest, env, tail)
        if isinstance(s, ast.Assign) and len(s.targets) == 1 and isinstance(s.targets[0], ast.Subscript) \
                and isinstance(s.targets[0].value, ast.Name) and s.targets[0].value.id in env \
                and self.t.externals.get(s.targets[0].value.id + '[]=', ('',))[0] == 'setitem':
            e, name = self.t.externals[s.targets[0].value.id + '[]='], s.targets[0].value.id
            v = self.expr(s.value, env)      # the right side first, then the key
            k = self.expr(s.targets[0].slice, env)
            obj = env[name]
            if e[3].startswith('U:') and v.type != e[3]:
                v = to_union(self.narrow.get(v.lean, v), e[3]) or v
            if (k.type, v.type) != (e[2], e[3]) or obj.elts is not None:
                self.fail(s, f'`{ast.unparse(s)[:50]}`: key {k.type}, value {v.type}; declared {e[2]}, {e[3]}')
            f = self.param(e[1], f'{lean_type(obj.type)} → {lean_type(e[2])} → {lean_type(e[3])} → {lean_type(obj.type)}')
            env, line = self.bind(env, name, V(f'({f.lean} {obj.lean} {k.lean} {v.lean})', obj.type, None))
            return self.take_pre() + [line] + self.block(rest, env, tail)
        if isinstance(s, ast.Assign) and len(s.targets) == 1 and isinstance(s.targets[0], ast.Name) \
                and (self.t.locals or {}).get(s.targets[0].id) == 'FalseOrInt' and s.targets[0].id not in self.slots:
            # wave 8: a local that is `False` or an int (a timedelta in seconds): `Option Int`, False = none; its truth value
            # is Python's (False and 0 are false); `assert x is not False` raises AssertionError on none
            if isinstance(s.value, ast.Constant) and s.value.value is False:
                v = V('(none : Option Int)', 'OptInt', None)
            else:
                v = self.expr(s.value, env)
                if v.type == 'Int':
                    v = V(f'(some {v.lean})', 'OptInt', None)
                if v.type != 'OptInt':
                    self.fail(s, f'`{s.targets[0].id}` is assigned a {v.type}, declared False-or-int')
            lines = self.take_pre()
            env, line = self.bind(env, s.targets[0].id, v)
            return lines + [line] + self.block(rest, env, tail)
        if isinstance(s, ast.Assign) and len(s.targets) == 1 and isinstance(s.targets[0], ast.Name) \
                and (self.t.locals or {}).get(s.targets[0].id, '').startswith('Opt:'):
            want = self.t.locals[s.targets[0].id]       # a local declared to hold an object or None
            v = self.expr(s.value, env)
            if v.type == 'None':
                v = V('none', want, None)
            elif v.type == want[4:]:
                v = V(f'(some {v.lean})', want, None)
            if v.type != want:
                self.fail(s, f'`{s.targets[0].id}` is assigned a {v.type}, declared {want}')
            lines = self.take_pre()
            env, line = self.bind(env, s.targets[0].id, v)
            return lines + [line] + self.block(rest, env, tail)
        if isinstance(s, ast.Assign) and len(s.targets) == 1 and isinstance(s.targets[0], ast.Name):
            v = self.expr(s.value, env)
            if s.targets[0].id.startswith('self__') and getattr(self, 'fields', None) is not None:
                want = self.t.self_attrs[s.targets[0].id[6:]][1]
                if v.type != want and want in ('Opt:' + v.type, 'Opt' + v.type):      # an object where the attribute may also be None
                    v = V(f'(some {v.lean})', want, None)
                elif v.type == 'None' and want.startswith('Opt'):
                    v = V('none', want, None)
                elif want.startswith('U:') and to_union(v, want) is not None:
                    v = to_union(v, want)
                if v.type != want:
                    self.fail(s, f'self.{s.targets[0].id[6:]} is assigned a {v.type}, declared {want}')
            lines = self.take_pre()
            if v.type == 'Tuple':
                lines += self.temps(v.elts)
            env, line = self.bind(env, s.targets[0].id, v)
            return lines + ([line] if line else []) + self.block(rest, env, tail)
        if isinstance(s, ast.Assign) and len(s.targets) == 1 and isinstance(s.targets[0], ast.Tuple) \
                and all(isinstance(t, ast.Name) for t in s.targets[0].elts):
            v = self.expr(s.value, env)      # the right side is evaluated first
            if v.type.startswith('Tuple:') and v.elts is None and len(s.targets[0].elts) == 2 and v.type.count(' × ') == 1:
                ta, tb = v.type[6:].split(' × ')       # a pair handed over as one value
                v = V('', 'Tuple', None, [V(v.lean + '.1', ta, None), V(v.lean + '.2', tb, None)])
            if v.type in ('StrList',) + tuple(t for t in [v.type] if t.startswith('List:')) and len(s.targets[0].elts) == 2:
                et = 'Str' if v.type == 'StrList' else v.type[5:]      # `a, b = xs`: ValueError unless exactly two elements
                r = self.hoist(s, f'listUnpack2 {v.lean}', f'Tuple:{lean_type(et)} × {lean_type(et)}')
                v = V('', 'Tuple', None, [V(r.lean + '.1', et, None), V(r.lean + '.2', et, None)])
            if v.type != 'Tuple' or len(v.elts) != len(s.targets[0].elts):
                self.fail(s, f'unpacking of `{ast.unparse(s.value)[:40]}`')
            vals = list(v.elts)
            lines = self.take_pre() + self.temps(vals)
            for t, x in zip(s.targets[0].elts, vals):
                env, line = self.bind(env, t.id, x)
                lines.append(line)
            return lines + self.block(rest, env, tail)
        if isinstance(s, ast.AugAssign) and isinstance(s.target, ast.Name):
            if s.target.id not in env:
                self.fail(s, f'augmented assignment to unbound `{s.target.id}`')
            v = self.binop(s, s.op, env[s.target.id], self.expr(s.value, env), s.value)
            env, line = self.bind(env, s.target.id, v)
            return self.take_pre() + [line] + self.block(rest, env, tail)
        if isinstance(s, ast.If):
            return self.if_(s, rest, env, tail)
        self.fail(s, f'statement {type(s).__name__}: `{ast.unparse(s).splitlines()[0][:50]}`')

    def lazy_probe(self, test, env):
        return self.test(test, env)

    def narrowing(self, test, env):
        """`x is None` / `x is not None` / `not x` / `x` on an optional value that is a variable or a `self.<attr>`
        parameter: (the value, whether the body is the branch where it is present)"""
        neg = False
        if isinstance(test, ast.Name) and ('truthy ' + test.id) in self.t.externals:
            return None         # its truth value is a declared parameter, not a test for None
        if isinstance(test, ast.UnaryOp) and isinstance(test.op, ast.Not):
            test, neg = test.operand, True
        if isinstance(test, ast.Compare) and len(test.ops) == 1 and isinstance(test.ops[0], (ast.Is, ast.IsNot)) \
                and isinstance(test.comparators[0], ast.Constant) and test.comparators[0].value is None:
            x, present = test.left, isinstance(test.ops[0], ast.IsNot)
            by_truth = False
        else:
            x, present, by_truth = test, True, True
        if not isinstance(x, (ast.Name, ast.Attribute)) or (isinstance(x, ast.Name) and x.id in self.slots):
            return None
        if isinstance(x, ast.Name) and (x.id not in env or x.id == 'self'):
            return None
        if isinstance(x, ast.Attribute) and not (ast.unparse(x).startswith('self.') and ast.unparse(x)[5:] in self.t.self_attrs):
            return None
        v = self.expr(x, env)
        if v.type.startswith('Opt:') and (v.elts is not None or re.fullmatch(r"[A-Za-z_][\w']*", v.lean)):
            if by_truth:
                self.never_false(v.type[4:], test)
            return v, present != neg
        if v.type not in ('OptD', 'OptTDS', 'OptStr') or not re.fullmatch(r"[A-Za-z_][\w']*", v.lean):
            return None
        return v, present != neg

    def mutate(self, s, callee, e, rest, env, tail):
        """`obj.m(..)` / `xs[-1].m(..)` where m changes the object in place: the variable (or the top of the list it
        is an alias of) is rebound to what the method leaves"""
        call, kws = s.value, (e[3] if len(e) > 3 else {})
        if [k.arg for k in call.keywords] != list(kws) or any(
                not (isinstance(k.value, ast.Constant) and k.value.value == kws[k.arg]) for k in call.keywords):
            self.fail(s, f'keyword arguments of `{callee}(..)` differ from the declared {kws}')
        args = self.call_args(call, env)
        if e[2] == ['ErrPair']:         # `(None | name, str(e))`: the name; the message is not modelled
            a = args[0]
            if not (len(args) == 1 and a.type == 'Tuple' and len(a.elts) == 2 and a.elts[1].type == 'Msg' and a.elts[0].type in ('None', 'Str')):
                self.fail(s, f'`{callee}(..)` is not given a pair (name or None, str(exception))')
            args, want = [V('none' if a.elts[0].type == 'None' else f'(some {a.elts[0].lean})', 'OptStr', None)], ['OptStr']
        else:
            want = e[2]
        if [a.type for a in args] != want:
            self.fail(s, f'`{callee}(..)` with arguments {[a.type for a in args]}, declared {want}')
        root = call.func
        while isinstance(root, ast.Attribute):
            root = root.value
        if e[0] == 'mutlast':           # xs[-1].m(..)
            if not (isinstance(root, ast.Subscript) and isinstance(root.value, ast.Name) and ast.unparse(root.slice) == '-1'):
                self.fail(s, f'`{callee}` is not a method of `xs[-1]`')
            lst, alias = root.value.id, True
        else:
            if not (isinstance(root, ast.Name) and root.id in env):
                self.fail(s, f'`{callee}` is not a method of a local object')
            obj = env[root.id]
            alias = obj.elts is not None and obj.elts[0] == ALIAS
            lst = obj.elts[1] if alias else None
        if alias:
            xs = env[lst]
            ct = xs.type[5:]
            f = self.param(e[1], ' → '.join([lean_type(ct)] + [lean_type(t) for t in want] + [lean_type(ct)]))
            fn = f'(fun c\' => {f.lean} c\' ' + ' '.join(a.lean for a in args) + ')'
            new = self.hoist(s, f'modLast {xs.lean} {fn}', xs.type)
            for k in [k for k, v in env.items() if v.elts is not None and v.elts[0] == ALIAS and v.elts[1] == lst]:
                self.narrow.pop(env[k].lean, None)      # what was known about the top no longer holds
            env, line = self.bind(env, lst, new)
        else:
            f = self.param(e[1], ' → '.join([lean_type(obj.type)] + [lean_type(t) for t in want] + [lean_type(obj.type)]))
            env, line = self.bind(env, root.id, V('(' + ' '.join([f.lean, obj.lean] + [a.lean for a in args]) + ')', obj.type, None))
        return self.take_pre() + [line] + self.block(rest, env, tail)

    def handler_classes(self, h, s):
        names = [] if h.type is None else [ast.unparse(x) for x in (h.type.elts if isinstance(h.type, ast.Tuple) else [h.type])]
        if h.type is None or 'Exception' in names or 'BaseException' in names:
            return None         # everything
        if names == ['ValueError'] and 'ValueError' not in self.modnames:
            return 'valueErrors'
        if all(n in EXC and n not in self.modnames for n in names):
            return '[' + ', '.join('.' + c for n in names for c in EXC[n]) + ']'
        if all(n in SUBVALUE and self.derives_from_valueerror(n) for n in names):      # ValueError subclasses of icalendar (none has subclasses in the model)
            return '[' + ', '.join('Exc.' + SUBVALUE[n] for n in names) + ']'
        self.fail(s, f'handler for `{", ".join(names)}`')

    def try_general(self, s, rest, env, tail):
        """`try: BODY except <classes> [as e]: HANDLER .. [else: ELSE]`"""
        def escapes(stmts, in_loop=False):      # a break / continue that would leave the try body
            for st in stmts:
                if isinstance(st, (ast.Break, ast.Continue)) and not in_loop:
                    return True
                for f in ('body', 'orelse', 'handlers', 'finalbody'):
                    sub = getattr(st, f, None)
                    if isinstance(sub, list) and sub and escapes([x for h in sub for x in (h.body if isinstance(h, ast.ExceptHandler) else [h])],
                                                                 in_loop or (isinstance(st, (ast.For, ast.While)) and f == 'body')):
                        return True
            return False
        rets = [n for st in s.body for n in ast.walk(st) if isinstance(n, ast.Return)]
        returning = len(rets) == 1 and s.body[-1] is rets[0] and not s.orelse and not self.loopctx
        if s.finalbody or escapes(s.body) or (rets and not returning):
            self.fail(s, 'try with finally, with break / continue leaving its body, or with a return that is not its last statement')
        if not self.monadic:
            raise NeedMonad()
        ind = lambda ls: ['  ' + x for x in ls]   # noqa: E731
        if returning:       # the body computes what the function returns; a handler may still take over
            self.fresh += 1
            r = f"r{self.fresh}'"
            body = self.block(s.body, env, Tail([], lambda e: self.fail(s, 'a path of the try body does not return')))
            body[-1] += ')'
            rt = lean_type(self.rtype)
            lines = [f'let {r} : Py {"(" + rt + ")" if " " in rt else rt} := (do'] + ind(body) + [f'match {r} with']
            self.fresh += 1
            ev = f"e{self.fresh}'"
            lines.append(f'| .error {ev} => do')
            hl, depth = [], 0
            for h in s.handlers:
                cls = self.handler_classes(h, s)
                henv = dict(env)
                if h.name:
                    henv[h.name] = V(ev, 'ExcVal', None)
                self.handling.append(ev)
                try:
                    hb = self.block(h.body + rest, henv, tail)
                finally:
                    self.handling.pop()
                if cls is None:
                    hl += ['  ' * depth + x for x in hb]
                    break
                hl += ['  ' * depth + f'if caught {cls} {ev} then'] + ['  ' * (depth + 1) + x for x in hb] + ['  ' * depth + 'else']
                depth += 1
            else:
                hl.append('  ' * depth + f'throw {ev}')
            return lines + ind(hl) + [f"| .ok v{r} => do", f"  pure v{r}"]
        later = reads(s.orelse + rest) | set(tail.names)
        merged = [n for n in self.assigned_env(s.body, env) if n in later]
        ends = []

        def make(e):
            for n in merged:
                if n not in e:
                    self.fail(s, f'`{n}` is read later but not bound on every path of the try body')
            ends.append([e[n] for n in merged])
            return ['pure (' + ', '.join(e[n].lean for n in merged) + ')']
        self.fresh += 1
        r = f"r{self.fresh}'"
        body = self.block(s.body, env, Tail(merged, make))
        body[-1] += ')'
        typ = ' × '.join(lean_type(x.type) for x in ends[0]) if merged else 'Unit'
        lines = [f'let {r} : Py ({typ}) := (do'] + ind(body) + [f'match {r} with']
        # the exception: the first handler that names it
        self.fresh += 1
        ev = f"e{self.fresh}'"
        lines.append(f'| .error {ev} =>' + (' do' if self.monadic else ''))
        hl, depth = [], 0
        for h in s.handlers:
            cls = self.handler_classes(h, s)
            henv = dict(env)
            if h.name:
                henv[h.name] = V(ev, 'ExcVal', None)
            self.handling.append(ev)
            try:
                hb = self.block(h.body + rest, henv, tail)
            finally:
                self.handling.pop()
            if cls is None:
                hl += ind(hb) if depth else hb
                break
            hl += ['  ' * depth + f'if caught {cls} {ev} then'] + ['  ' * (depth + 1) + x for x in hb] + ['  ' * depth + 'else']
            depth += 1
        else:
            hl.append('  ' * depth + f'throw {ev}')
        lines += ind(hl)
        lines.append(f"| .ok v{r} =>" + (' do' if self.monadic else ''))
        oenv, ol = env, []
        for i, (n, x) in enumerate(zip(merged, ends[0])):
            proj = f'v{r}' if len(merged) == 1 else f'v{r}' + '.2' * i + ('.1' if i < len(merged) - 1 else '')
            oenv, line = self.bind(oenv, n, V(proj, x.type, x.lits))
            ol.append(line)
        lines += ind(ol + self.block(s.orelse + rest, oenv, tail))
        return lines

    def try_(self, s, rest, env, tail):
        """`try: BODY except <classes>: raise ValueError(...)`"""
        simple = len(s.handlers) == 1 and not s.orelse and len(s.handlers[0].body) == 1 and isinstance(s.handlers[0].body[0], ast.Raise) \
            and s.handlers[0].body[0].exc is not None
        ascii_shape = len(s.body) == 1 and isinstance(s.body[0], ast.Expr) and 'encode(' in ast.unparse(s.body[0])
        if not simple and not ascii_shape:
            return self.try_general(s, rest, env, tail)
        h = s.handlers[0] if len(s.handlers) == 1 else None
        b = s.body[0].value if len(s.body) == 1 and isinstance(s.body[0], ast.Expr) else None
        if h is not None and isinstance(b, ast.Call) and isinstance(b.func, ast.Attribute) and b.func.attr == 'encode' \
                and len(b.args) == 1 and not b.keywords and isinstance(b.args[0], ast.Constant) and b.args[0].value == 'ascii' \
                and h.type is not None and len(h.body) == 1 and isinstance(h.body[0], ast.Pass) and s.orelse and not s.finalbody \
                and sorted(ast.unparse(x) for x in (h.type.elts if isinstance(h.type, ast.Tuple) else [h.type])) \
                == ['UnicodeDecodeError', 'UnicodeEncodeError'] and not ({'UnicodeDecodeError', 'UnicodeEncodeError'} & set(self.modnames)):
            v = self.expr(b.func.value, env)        # `s.encode('ascii')` raises iff a code point is >= 128
            if v.type != 'Str':
                self.fail(s, f".encode('ascii') on a value of type {v.type}")
            ind = lambda ls: ['  ' + x for x in ls]   # noqa: E731
            a = self.block(s.orelse + rest, env, tail)
            c = self.block(rest, env, tail)
            return self.take_pre() + [f'if (isAsciiStr {v.lean}) then'] + ind(a) + ['else'] + ind(c)
        if h is None or s.orelse or s.finalbody or len(h.body) != 1 or not isinstance(h.body[0], ast.Raise):
            self.fail(s, 'try statement that is not `try: .. except <classes>: raise ValueError(..)`')
        e = h.body[0].exc.func if isinstance(h.body[0].exc, ast.Call) else h.body[0].exc
        if not (isinstance(e, ast.Name) and e.id == 'ValueError' and 'ValueError' not in self.modnames):
            self.fail(s, f'handler `{ast.unparse(h.body[0])[:50]}` does not raise ValueError')
        names = [] if h.type is None else [ast.unparse(x) for x in (h.type.elts if isinstance(h.type, ast.Tuple) else [h.type])]
        if h.type is None or 'Exception' in names or 'BaseException' in names:
            wrap = 'remapAll'
        elif names == ['ValueError'] and 'ValueError' not in self.modnames:
            wrap = 'remap valueErrors'       # ValueError and its icalendar subclasses
        elif all(n in EXC and n not in self.modnames for n in names):
            wrap = 'remap [' + ', '.join('.' + c for n in names for c in EXC[n]) + ']'
        else:
            self.fail(s, f'handler for `{", ".join(names)}`')
        if not self.monadic:
            raise NeedMonad()
        ind = lambda ls: ['  ' + x for x in ls]   # noqa: E731
        if has_return(s.body):      # every path of BODY must return or raise: the `try` ends the function

            def through(e):
                self.fail(s, 'a path of the try body both falls through and another returns')
            body = self.block(s.body, env, Tail([], through))
            body[-1] += ')'
            return [f'{wrap} (do'] + ind(body)
        later = reads(rest) | set(tail.names)
        merged = [n for n in self.assigned_env(s.body, env) if n in later]
        ends = []

        def make(e):
            for n in merged:
                if n not in e:
                    self.fail(s, f'`{n}` is read later but not bound on every path of the try body')
            ends.append([e[n] for n in merged])
            return ['pure (' + ', '.join(e[n].lean for n in merged) + ')']
        self.fresh += 1
        m = f"m{self.fresh}'"
        body = self.block(s.body, env, Tail(merged, make))
        body[-1] += ')'
        typ = ' × '.join(lean_type(x.type) for x in ends[0]) if merged else 'Unit'
        lines = [f'let {m} : {typ} ← {wrap} (do'] + ind(body)
        for i, (n, x) in enumerate(zip(merged, ends[0])):
            proj = m if len(merged) == 1 else m + ''.join(['.2'] * i) + ('.1' if i < len(merged) - 1 else '')
            env, line = self.bind(env, n, V(proj, x.type, x.lits))
            lines.append(line)
        return lines + self.block(rest, env, tail)

    def as_declared(self, name, v):
        """a variable declared (locals) to hold a union, at a point where paths meet: its value as a value of the union"""
        want = (self.t.locals or {}).get(name)
        if want is not None and want.startswith('U:') and v.type != want:
            x = self.narrow.get(v.lean, v)
            w = to_union(x, want)
            if w is not None:
                return w
        return v

    def union_test(self, node, env):
        """`isinstance(x, C)` / `isinstance(x, (C1, C2))` on a variable of a union type that is not yet known to be of one
        member: (the variable, the constructors still possible that the test accepts, those still possible)"""
        if isinstance(node, ast.Call) and isinstance(node.func, ast.Name) and node.func.id == 'hasattr' and 'hasattr' not in self.modnames \
                and 'hasattr' not in env and len(node.args) == 2 and not node.keywords and isinstance(node.args[0], ast.Name) \
                and node.args[0].id in env and isinstance(node.args[1], ast.Constant) and isinstance(node.args[1].value, str) \
                and ast.unparse(node) not in self.t.externals:
            x = env[node.args[0].id]
            key = 'hasattr:' + node.args[1].value
            if x.type.startswith('U:') and x.lean not in self.narrow and re.fullmatch(r"[A-Za-z_][\w']*", x.lean) \
                    and key in UNIONS[x.type[2:]]['classes']:
                u = UNIONS[x.type[2:]]
                allc = list(u['members'].values()) + ([u['pair']] if 'pair' in u else [])
                left = [c for c in allc if c not in self.excluded.get(x.lean, ())]
                return x, [c for c in left if c in u['classes'][key]], left
            return None
        if isinstance(node, ast.Call) and isinstance(node.func, ast.Name) and node.func.id == 'isinstance' and len(node.args) == 2 \
                and isinstance(node.args[0], ast.Subscript) and isinstance(node.args[0].value, ast.Name) and node.args[0].value.id in env \
                and isinstance(node.args[0].slice, ast.Constant) and 'isinstance' not in self.modnames and not node.keywords:
            base = self.narrow.get(env[node.args[0].value.id].lean)
            if base is not None and base.type == 'Tuple' and type(node.args[0].slice.value) is int and 0 <= node.args[0].slice.value < len(base.elts):
                comp = base.elts[node.args[0].slice.value]       # a component of a pair: a variable of its own
                node = ast.copy_location(ast.Call(func=node.func, args=[ast.Name(id="comp'", ctx=ast.Load()), node.args[1]], keywords=[]), node)
                env = dict(env, **{"comp'": comp})
        if not (isinstance(node, ast.Call) and isinstance(node.func, ast.Name) and node.func.id == 'isinstance'
                and 'isinstance' not in self.modnames and 'isinstance' not in env and len(node.args) == 2 and not node.keywords
                and isinstance(node.args[0], ast.Name) and node.args[0].id in env):
            return None
        x = env[node.args[0].id]
        if not x.type.startswith('U:') or x.lean in self.narrow or not re.fullmatch(r"[A-Za-z_][\w']*", x.lean) \
                or ast.unparse(node) in self.t.externals:
            return None
        u = UNIONS[x.type[2:]]
        names = node.args[1].elts if isinstance(node.args[1], ast.Tuple) else [node.args[1]]
        acc = []
        for n in names:
            if not (isinstance(n, ast.Name) and n.id in u['classes']):
                self.fail(node, f'instance test of a {x.type[2:]} for `{ast.unparse(n)}`')
            if n.id == 'SEQUENCE_TYPES':      # a module constant of parser_tools.py: it must be (list, tuple)
                pt = X.parse(os.path.join(self.src_dir, 'parser_tools.py'))
                val = X.find_assign(pt.body, 'SEQUENCE_TYPES')
                if self.modnames.get(n.id) != 'icalendar.parser_tools.SEQUENCE_TYPES' or val is None or ast.unparse(val) != '(list, tuple)':
                    self.fail(node, 'SEQUENCE_TYPES is not `(list, tuple)` of icalendar.parser_tools')
            elif n.id in ('list', 'tuple'):
                if n.id in self.modnames or n.id in env:
                    self.fail(node, f'`{n.id}` is rebound')
            elif self.modnames.get(n.id) != 'datetime.' + n.id:
                self.fail(node, f'`{n.id}` is not the class of the datetime module')
            acc += [c for c in u['classes'][n.id] if c not in acc]
        for c, need in u.get('all_of', {}).items():
            if c in acc and not set(need) <= {n.id for n in names}:
                self.fail(node, f'instance test of a {x.type[2:]} for `{ast.unparse(node.args[1])}`: the member `{c}` stands for '
                                f'{need}, the test names only part of them')
        allc = list(u['members'].values()) + ([u['pair']] if 'pair' in u else [])
        left = [c for c in allc if c not in self.excluded.get(x.lean, ())]
        return x, [c for c in left if c in acc], left

    def union_payload(self, x, ctor, v):
        u = UNIONS[x.type[2:]]
        if ctor == u.get('pair'):
            return f'.{ctor} {v}a {v}b', V('', 'Tuple', None, [V(f'{v}a', x.type, None), V(f'{v}b', x.type, None)])
        return f'.{ctor} {v}', V(v, next(t for t, c in u['members'].items() if c == ctor), None)

    def if_(self, s, rest, env, tail):
        if isinstance(s.test, ast.BoolOp) and isinstance(s.test.op, ast.And) and any(self.static(v, env) is False for v in s.test.values):
            # an operand already decided false by what is known of a value: the test is false (the operands before it have no effect)
            self.notes.append(f'line {s.lineno}: `{ast.unparse(s.test)[:60]}` is False here')
            return self.block(s.orelse + rest, env, tail)
        if isinstance(s.test, ast.BoolOp) and isinstance(s.test.op, ast.And) and any(self.union_test(v, env) is not None for v in s.test.values):
            # `isinstance(x, C) and B`: B is evaluated knowing what x is
            vals = s.test.values
            second = vals[1] if len(vals) == 2 else ast.copy_location(ast.BoolOp(op=ast.And(), values=vals[1:]), s.test)
            inner = ast.If(test=second, body=s.body, orelse=s.orelse)
            outer = ast.If(test=vals[0], body=[inner], orelse=s.orelse)
            for n in (inner, outer):
                ast.copy_location(n, s)
                n.end_lineno = s.end_lineno
            return self.if_(outer, rest, env, tail)
        neg_test = isinstance(s.test, ast.UnaryOp) and isinstance(s.test.op, ast.Not)
        ut = self.union_test(s.test.operand if neg_test else s.test, env)
        if ut is not None:
            x, acc, left = ut
            yes, no = (s.orelse, s.body) if neg_test else (s.body, s.orelse)
            ind = lambda ls: ['  ' + l for l in ls]   # noqa: E731
            if not acc:      # decided by what is already known of x
                self.notes.append(f'line {s.lineno}: `{ast.unparse(s.test)}` is {neg_test} here (of {x.lean} it is known '
                                  f'that it is one of: {", ".join(left)})')
                return self.block(no + rest, env, tail)
            if acc == left and len(acc) > 1:      # every member still possible passes: the test is true, nothing new is learnt
                self.notes.append(f'line {s.lineno}: `{ast.unparse(s.test)[:60]}` is {not neg_test} here')
                return self.block(yes + rest, env, tail)
            do = ' do' if self.monadic else ''
            old_ex = dict(self.excluded)
            pre = self.take_pre()
            remaining = [c for c in left if c not in acc]
            pat_no = '_'
            old_nar = dict(self.narrow)
            try:
                self.excluded[x.lean] = set(self.excluded.get(x.lean, ())) | set(acc)
                u_all = list(UNIONS[x.type[2:]]['members'].values()) + ([UNIONS[x.type[2:]]['pair']] if 'pair' in UNIONS[x.type[2:]] else [])
                if len(remaining) == 1 and len(left) == len(u_all):     # two members in all: the value is known in this branch too
                    self.fresh += 1
                    pat_no, val_no = self.union_payload(x, remaining[0], f"n{self.fresh}'")
                    self.narrow[x.lean] = val_no
                nb = self.block(no + rest, env, tail)
            finally:
                self.excluded = old_ex
                self.narrow = old_nar
            if len(acc) == 1:
                self.fresh += 1
                v = f"n{self.fresh}'"
                pat, val = self.union_payload(x, acc[0], v)
                old = dict(self.narrow)
                self.narrow[x.lean] = val
                try:
                    yb = self.block(yes + rest, env, tail)
                finally:
                    self.narrow = old
                return pre + [f'match {x.lean} with', f'| {pat} =>{do}'] + ind(yb) + [f'| {pat_no} =>{do}'] + ind(nb)
            try:
                self.excluded[x.lean] = set(self.excluded.get(x.lean, ())) | {c for c in left if c not in acc}
                yb = self.block(yes + rest, env, tail)
            finally:
                self.excluded = old_ex
            pats = ' | '.join('.' + c + (' _ _' if c == UNIONS[x.type[2:]].get('pair') else ' _') for c in acc)
            return pre + [f'match {x.lean} with', f'| {pats} =>{do}'] + ind(yb) + [f'| {pat_no} =>{do}'] + ind(nb)
        st = self.static(s.test, env)
        if st is not None:      # decided by a specialised argument: only the branch taken is translated
            skipped = s.orelse if st else s.body
            if skipped:
                self.notes.append(f'line {s.lineno}: `{ast.unparse(s.test)}` is {st} here; lines '
                                  f'{skipped[0].lineno}-{skipped[-1].end_lineno} are not translated')
            return self.block((s.body if st else s.orelse) + rest, env, tail)
        ind = lambda ls: ['  ' + x for x in ls]   # noqa: E731
        tn = s.test.operand if isinstance(s.test, ast.UnaryOp) and isinstance(s.test.op, ast.Not) else s.test
        if isinstance(tn, ast.Name) and tn.id in env and env[tn.id].type == 'OptStr' and env[tn.id].lean not in self.narrow \
                and ('truthy ' + tn.id) not in self.t.externals:
            # `if x:` on a str-or-None: x is a str AND it is not empty
            both = ast.BoolOp(op=ast.And(), values=[
                ast.Compare(left=ast.Name(id=tn.id, ctx=ast.Load()), ops=[ast.IsNot()], comparators=[ast.Constant(value=None)]),
                ast.Compare(left=ast.Name(id=tn.id, ctx=ast.Load()), ops=[ast.NotEq()], comparators=[ast.Constant(value='')])])
            new = ast.If(test=both, body=s.body, orelse=s.orelse) if tn is s.test else ast.If(test=both, body=s.orelse or [ast.Pass()], orelse=s.body)
            ast.copy_location(new, s)
            ast.fix_missing_locations(new)
            new.end_lineno = s.end_lineno
            return self.if_(new, rest, env, tail)
        nar = self.narrowing(s.test, env)
        if nar is not None:     # a test for None on an optional value: a `match`; the present value is used from there on
            x, present_first = nar
            self.fresh += 1
            v = f"n{self.fresh}'"
            pre = self.take_pre()
            old = dict(self.narrow)
            some_b, none_b = (s.body, s.orelse) if present_first else (s.orelse, s.body)
            nb = self.block(none_b + rest, env, tail)
            self.narrow[x.lean] = V(v, x.type[4:] if x.type.startswith('Opt:') else {'OptD': 'D', 'OptTDS': 'TDS', 'OptStr': 'Str'}[x.type], None)
            try:
                sb = self.block(some_b + rest, env, tail)
            finally:
                self.narrow = old
            do = ' do' if self.monadic else ''
            return pre + [f'match {x.lean} with', f'| none =>{do}'] + ind(nb) + [f'| some {v} =>{do}'] + ind(sb)
        if isinstance(s.test, ast.BoolOp) and isinstance(s.test.op, ast.And) and len(s.test.values) >= 2:
            saved = (self.fresh, list(self.used), list(self.pre))
            try:
                if len(s.test.values) == 2 and (self.narrowing(s.test.values[0], env) is not None or self.narrowing(s.test.values[1], env) is not None):
                    raise LazyPartial('a test for None guards the second operand')
                c = self.lazy_probe(s.test, env)
            except LazyPartial:     # `if A and B:` with B able to raise: Python evaluates B only when A is true
                self.fresh, self.used, self.pre = saved[0], saved[1], saved[2]
                vals = []
                for v in s.test.values:     # `isinstance(x, datetime)` on an optional says first that x is an object
                    p = self.presence(v, env)
                    if p is not None and p[1] is not None:
                        vals.append(ast.copy_location(ast.Compare(left=ast.Name(id=v.args[0].id, ctx=ast.Load()), ops=[ast.IsNot()],
                                                                  comparators=[ast.Constant(value=None)]), v))
                    vals.append(v)
                second = vals[1] if len(vals) == 2 else ast.copy_location(ast.BoolOp(op=ast.And(), values=vals[1:]), s.test)
                ast.fix_missing_locations(second)
                inner = ast.If(test=second, body=s.body, orelse=s.orelse)
                outer = ast.If(test=vals[0], body=[inner], orelse=s.orelse)
                for n in (inner, outer):
                    ast.copy_location(n, s)
                    n.end_lineno = s.end_lineno
                return self.if_(outer, rest, env, tail)
        c = self.test(s.test, env)
        pre = self.take_pre()
        if has_return([s]):
            a = self.block(s.body + rest, env, tail)
            b = self.block(s.orelse + rest, env, tail)
            return pre + [f'if {c} then'] + ind(a) + ['else'] + ind(b)
        later = reads(rest) | set(tail.names)
        merged = [n for n in self.assigned_env(s.body + s.orelse, env) if n in later]
        ends_a, ends_b = [], []

        def maker(store):
            def make(e):
                for n in merged:
                    if n not in e:
                        self.fail(s, f'`{n}` is read later but bound on one path only')
                vals = [self.as_declared(n, e[n]) for n in merged]
                store.append(vals)
                return ['«T»(' + ', '.join(v.lean for v in vals) + ')'] if merged else ['«T»()']
            return make
        self.fresh += 1
        m = f"m{self.fresh}'"
        a = self.block(s.body, env, Tail(merged, maker(ends_a)))
        b = self.block(s.orelse, env, Tail(merged, maker(ends_b)))
        if not merged:          # no effect on what follows (the branches were still checked against the subset)
            return self.block(rest, env, tail)
        for es in ends_a[1:] + ends_b[1:]:      # a branch that ends in several places (a `match` on an optional value)
            if [x.type for x in es] != [x.type for x in (ends_a if es in ends_a else ends_b)[0]]:
                self.fail(s, 'a variable has different types at the ends of one branch')
        ends = [ends_a[0], ends_b[0]]
        single = len(ends_a) == 1 and len(ends_b) == 1
        for k, (n, x, y) in enumerate(zip(merged, ends[0], ends[1])):
            if {x.type, y.type} == {'Int', 'OptInt'} and single:       # an int on one path, int-or-None on the other
                for br, es in ((a, ends[0]), (b, ends[1])):
                    if es[k].type == 'Int':
                        es[k] = V(f'(some {es[k].lean})', 'OptInt', None)
                        br[-1] = '«T»(' + ', '.join(z.lean for z in es) + ')'
                x, y = ends[0][k], ends[1][k]
            if x.type != y.type:
                self.fail(s, f'`{n}` is {x.type} on one path and {y.type} on the other')
        typ = ' × '.join(lean_type(x.type) for x in ends[0])
        mon = any('←' in ln or 'throw ' in ln for ln in a + b)
        a, b = ([ln.replace('«T»', 'pure ' if mon else '') for ln in br] for br in (a, b))
        if not mon:     # nothing in the branches can raise: a `match` inside them is a plain term (no `do`)
            a, b = ([ln[:-3] if ln.endswith('=> do') else ln for ln in br] for br in (a, b))
        if mon:       # a branch can raise: the merge is a bind
            lines = pre + [f'let {m} : {typ} ← (', f'  if {c} then do'] + ind(ind(a)) + ['  else do'] + ind(ind(b))
        else:
            lines = pre + [f'let {m} : {typ} := (', f'  if {c} then'] + ind(ind(a)) + ['  else'] + ind(ind(b))
        lines[-1] += ')'
        for i, (n, x, y) in enumerate(zip(merged, ends[0], ends[1])):
            proj = m if len(merged) == 1 else m + ''.join(['.2'] * i) + ('.1' if i < len(merged) - 1 else '')
            lits = x.lits | y.lits if x.lits is not None and y.lits is not None else None
            env, line = self.bind(env, n, V(proj, x.type, lits))
            lines.append(line)
        return lines + self.block(rest, env, tail)

    def derives_from_valueerror(self, name, tree=None, seen=0):
        """the exception class is defined (here or in the icalendar module it is imported from) with a base chain
        that ends in ValueError"""
        tree, how = tree or self.tree, module_bindings(tree or self.tree).get(name)
        if seen > 6 or how is None:
            return False
        if how != 'def':
            mod = how.rsplit('.', 1)[0]
            if not mod.startswith('icalendar.'):
                return False
            other = X.parse(os.path.join(self.src_dir, *mod.split('.')[1:]) + '.py')
            return self.derives_from_valueerror(how.rsplit('.', 1)[1], other, seen + 1)
        for n in tree.body:
            if isinstance(n, ast.ClassDef) and n.name == name:
                bases = [ast.unparse(b) for b in n.bases]
                return bases == ['ValueError'] or (len(bases) == 1 and self.derives_from_valueerror(bases[0], tree, seen + 1))
        return False

    def is_list_ctor(self, node):
        """`Cls()` for a class declared ('listctor', file, type): it derives from exactly `list` and defines none of the
        methods that decide what an empty one holds or how it is appended to / iterated (looked up on every run)"""
        if not (isinstance(node, ast.Call) and isinstance(node.func, ast.Name) and not node.args and not node.keywords):
            return False
        e = self.t.externals.get(node.func.id)
        if e is None or e[0] != 'listctor':
            return False
        if self.modnames.get(node.func.id) != f'icalendar.{e[1][:-3]}.{node.func.id}':
            self.fail(node, f'`{node.func.id}` is not imported from icalendar.{e[1][:-3]}')
        tree = X.parse(os.path.join(self.src_dir, e[1]))
        for c in tree.body:
            if isinstance(c, ast.ClassDef) and c.name == node.func.id:
                bad = [st.name for st in c.body if isinstance(st, ast.FunctionDef)
                       and st.name in ('__init__', '__new__', 'append', '__iter__', '__len__', '__getitem__', 'extend', 'insert')]
                if [ast.unparse(b) for b in c.bases] != ['list'] or bad:
                    self.fail(node, f'class {c.name}: bases {[ast.unparse(b) for b in c.bases]}, defines {bad} (expected a plain subclass of list)')
                return True
        self.fail(node, f'class {node.func.id} not found in {e[1]}')

    def listkind(self, node, name):
        """`name = []`: how is the list used in the whole function"""
        uses = set()
        for n in ast.walk(self.func):
            if isinstance(n, ast.Name) and n.id == name:
                p = self.parent.get(n)
                if isinstance(p, ast.Assign) and isinstance(p.value, ast.List) and not p.value.elts and n in p.targets:
                    continue
                if isinstance(p, ast.Attribute) and p.attr == 'append' and is_append(self.parent.get(p)) \
                        and isinstance(self.parent.get(self.parent.get(p)), ast.Expr):
                    continue
                if isinstance(p, ast.Call) and isinstance(p.func, ast.Attribute) and p.func.attr == 'join' \
                        and isinstance(p.func.value, ast.Constant) and p.func.value.value == '' and p.args == [n]:
                    uses.add('join')
                elif isinstance(p, ast.Return):
                    uses.add('return')
                else:
                    self.fail(node, f'the list `{name}` is used as `{ast.unparse(p)[:40]}` (only append, \'\'.join, return)')
        if uses == {'return'}:
            return 'StrList'
        if uses <= {'join'}:
            return 'Builder'
        self.fail(node, f'the list `{name}` is both joined and returned')

    def for_(self, s, rest, env, tail):
        it, tgt, iname = s.iter, s.target, None
        if isinstance(it, ast.Call) and isinstance(it.func, ast.Name) and it.func.id == 'enumerate' \
                and 'enumerate' not in self.modnames and 'enumerate' not in env and len(it.args) == 1 and not it.keywords:
            if isinstance(tgt, ast.Tuple) and len(tgt.elts) == 2 and isinstance(tgt.elts[0], ast.Name) and isinstance(tgt.elts[1], ast.Tuple) \
                    and all(isinstance(e, ast.Name) for e in tgt.elts[1].elts) \
                    and len({e.id for e in tgt.elts[1].elts} | {tgt.elts[0].id}) == len(tgt.elts[1].elts) + 1:
                # wave 8: `for i, (a, b, ..) in enumerate(xs)` over a list of tuples: the tuple gets a name, a, b, .. are its parts
                it, iname, cname = it.args[0], tgt.elts[0].id, f'item{s.lineno}_'
                self.tupletarget[cname] = [e.id for e in tgt.elts[1].elts]
                tgt = None
            elif not (isinstance(tgt, ast.Tuple) and len(tgt.elts) == 2 and all(isinstance(e, ast.Name) for e in tgt.elts)):
                self.fail(s, 'target of a loop over enumerate(..) is not `i, ch`')
            else:
                it, iname, cname = it.args[0], tgt.elts[0].id, tgt.elts[1].id
        elif isinstance(tgt, ast.Name):
            cname = tgt.id
        elif isinstance(tgt, ast.Tuple) and len(tgt.elts) == 2 and all(isinstance(e, ast.Name) for e in tgt.elts) \
                and tgt.elts[0].id != tgt.elts[1].id:
            cname = f'pair{s.lineno}_'        # `for a, b in pairs`: the pair gets a name of its own, a and b are its parts
            self.pairtarget[cname] = (tgt.elts[0].id, tgt.elts[1].id)
        else:
            self.fail(s, f'loop target `{ast.unparse(tgt)}`')
        if isinstance(it, ast.Call) and isinstance(it.func, ast.Name) and it.func.id == 'range' and 'range' not in self.modnames \
                and 'range' not in env and len(it.args) in (2, 3) and not it.keywords and iname is None:
            ra = [self.expr(a, env) for a in it.args] + ([V('(1 : Int)', 'Int', None)] if len(it.args) == 2 else [])
            if any(a.type != 'Int' for a in ra):
                self.fail(s, 'range(..) of values that are not ints')
            itv = self.hoist(s, 'pyRange ' + ' '.join(a.lean for a in ra), 'IntList')   # the range is built once
        else:
            itv = self.expr(it, env)
        if itv.type == 'Vals':      # iterating what `self[name]` gave: a TypeError unless it is a list
            itv = self.hoist(s, f'PyVals.elems {itv.lean}', 'ValList')
        fe = self.t.externals.get('for ' + ast.unparse(it))
        if fe is not None and fe[0] == 'pexpr' and not (itv.type in ITER or itv.type.startswith('List:') or itv.type.startswith('Pairs:')):
            # wave 8: iterating an opaque object is a declared parameter: what it yields, or an exception
            rt = lean_type(fe[3])
            f = self.param(fe[1], f'{lean_type(itv.type)} → Py ({rt})')
            itv = self.hoist(s, f'{f.lean} {itv.lean}', fe[3])
        if not (itv.type in ITER or itv.type.startswith('List:') or itv.type.startswith('Pairs:')) or s.orelse:
            self.fail(s, f'`for` over a value of type {itv.type}' if itv.type not in ITER else '`for .. else`')
        if cname in self.pairtarget and itv.type != 'ItemList' and not itv.type.startswith('Pairs:'):
            self.fail(s, f'`for {ast.unparse(tgt)}` over a value of type {itv.type} (only a list of pairs (name, value))')
        if cname in self.tupletarget and not (itv.type.startswith('List:Tuple:') and len(itv.type[11:].split(' × ')) == len(self.tupletarget[cname])):
            self.fail(s, f'tuple target of {len(self.tupletarget[cname])} names over a value of type {itv.type}')
        return self.loop(s, rest, env, tail, iname, cname, itv, None)

    def while_(self, s, rest, env, tail):
        t = s.test
        ok = isinstance(t, ast.Compare) and len(t.ops) == 1 and isinstance(t.ops[0], ast.Lt) and isinstance(t.left, ast.Name) \
            and isinstance(t.comparators[0], ast.Call) and isinstance(t.comparators[0].func, ast.Name) \
            and t.comparators[0].func.id == 'len' and len(t.comparators[0].args) == 1 and not s.orelse
        if not ok:
            self.fail(s, f'`while {ast.unparse(t)[:40]}` (only `while i < len(s):` without else)')
        sv = self.expr(t.comparators[0].args[0], env)
        if sv.type != 'Str' or reads([t.comparators[0].args[0]]) & set(assigned(s.body)):
            self.fail(s, 'the str whose length bounds the `while` is not a str that the body leaves alone')
        if not self.monadic:
            raise NeedMonad()       # running out of fuel is an error value
        return self.loop(s, rest, env, tail, None, None, None, f'({sv.lean}.length + 1)')

    def loop(self, s, rest, env, tail, iname, cname, itv, fuel):
        """a `for` over the characters of `itv` (fuel None) or a `while` on fuel: a separate recursive definition"""
        outer = (self.slots, self.slot_init, self.loopctx)      # a loop inside a loop body: its own definition
        if self.loopctx and any(isinstance(n, (ast.Break, ast.Continue, ast.Return)) for st in s.body for n in ast.walk(st)) \
                and (self.t.group != 'tz' or any(isinstance(n, ast.Return) for st in s.body for n in ast.walk(st))):
            self.fail(s, 'nested loop with break / continue / return')      # (wave 8, group tz: break / continue of the inner loop are its own)
        pre0 = self.take_pre()
        targets = ({iname, cname} | set(self.pairtarget.get(cname, ())) | set(self.tupletarget.get(cname, ()))) - {None}
        asg = self.assigned_env(s.body, env)
        stored = {n.id for st in s.body for n in ast.walk(st) if isinstance(n, ast.Name) and isinstance(n.ctx, ast.Store)}
        asg = [n for n in asg if not (n in targets and n not in stored)]    # `v.attr = x` on the loop variable: local to the iteration
        comp_local = {g.target.id for st in rest for n in ast.walk(st) if isinstance(n, (ast.ListComp, ast.SetComp, ast.GeneratorExp))
                      for g in n.generators if isinstance(g.target, ast.Name)}      # names a later comprehension binds itself
        later0 = (reads(rest) - comp_local) | set(tail.names)
        rebound = {cname} if cname in stored and cname not in later0 and iname is None else set()      # `for v in xs: v = f(v)`: local to the iteration
        if (targets - set(self.pairtarget.get(cname, ())) - rebound) & set(asg):     # `for a, b in ..: a = ..` rebinds a within the iteration
            self.fail(s, 'the loop body assigns the loop variable')
        state = [n for n in asg if n in env and n not in targets]
        later = reads(rest) | set(tail.names)
        for n in asg:
            if n not in env and n not in targets and n in later:
                self.fail(s, f'`{n}` is first bound inside the loop and read after it')
        def rebound_by_later_for(name):
            """wave 8: every read of the name after this loop lies in the body of a later `for` that binds it anew"""
            inside = set()
            for st in rest:
                for f in ast.walk(st):
                    if isinstance(f, ast.For) and any(isinstance(n, ast.Name) and n.id == name for n in ast.walk(f.target)) \
                            and not any(isinstance(n, ast.Name) and n.id == name for n in ast.walk(f.iter)):
                        inside |= {id(n) for b in f.body for n in ast.walk(b)}
            loads = [n for st in rest for n in ast.walk(st) if isinstance(n, ast.Name) and n.id == name and isinstance(n.ctx, ast.Load)]
            return bool(loads) and all(id(n) in inside for n in loads) and name not in tail.names
        if cname in later and cname not in comp_local and not rebound_by_later_for(cname):
            self.fail(s, f'the loop variable `{cname}` is read after the loop')
        for n in state:
            if env[n].type in ('Tuple',) or env[n].type.startswith('Unbound'):
                self.fail(s, f'state variable `{n}` of type {env[n].type}')
        last = iname is not None and iname in later
        inner_ret = any(isinstance(n, ast.Return) for st in s.body for n in ast.walk(st))
        self.nloops += 1
        name = f'{self.t.lean}_loop{self.nloops}'
        slots = {n: env[n].type for n in state}
        init_consts = {n: self.consts.get(n) for n in state}
        self.slot_init = dict(outer[1], **init_consts)    # the 0 / 1 literal a state variable starts with
        saved = (self.fresh, list(self.used), self.rtype, list(self.notes))
        while True:
            try:
                self.slots = dict(outer[0], **slots)
                self.slot_init = dict(outer[1], **init_consts)
                res = self.loop_body(s, env, state, slots, name, iname, cname, last, inner_ret, fuel, itv)
                break
            except Widen as w:
                slots[w.name] = w.typ
                self.fresh, self.used, self.rtype, self.notes = saved[0], list(saved[1]), saved[2], list(saved[3])
                self.pre = []
            finally:
                self.slots, self.slot_init, self.loopctx = outer
        body, test_lines = res
        # what the definition needs from the enclosing function: parameters and locals its text mentions
        text = '\n'.join(body + test_lines)
        word = lambda n: re.search(r"(?<![\w'.])" + re.escape(n) + r"(?![\w'])", text) is not None   # noqa: E731
        inner = {lname(n) for n in state} | {lname(x) for x in targets} | {"rest'", "fuel'"}
        caps = []
        for n, typ in ([("name'", 'Str'), ("props'", 'EntryList'), ("subs'", 'CompList')] if self.objself else [(p, t) for p, t in self.used]) + [(v.lean, v.type) for v in env.values() if v.type != 'Tuple' and v.elts is None] \
                + [(v.lean, v.type) for v in self.narrow.values()]:
            if re.fullmatch(r"[A-Za-z_][\w']*", n) and n not in inner and word(n) and n not in [c[0] for c in caps]:
                caps.append((n, typ))
        capsig = ('«EXTSIG»' if self.objself else '') + ''.join(f' ({n} : {lean_type(t)})' for n, t in caps)
        if self.t.group in ('parse', 'alarm', 'recur', 'add', 'cdmeta', 'tzuse', 'tz'):     # the opaque types the loop mentions
            ops = opaque_types([lean_type(t) for _, t in caps] + [lean_type(slots[n]) for n in state]
                               + ([lean_type(itv.type)] if itv is not None else []))
            if not self.objself:        # (a method on the tree: «EXTSIG» brings the function's own binders)
                capsig = ''.join(f' {{{o} : Type}}' for o in ops) + capsig
        capargs = ('«EXT»' if self.objself else '') + ''.join(' ' + n for n, _ in caps)
        body = [ln.replace(' «CAP»', capargs) for ln in body]
        sigma = [lean_type(slots[n]) for n in state] + (['Option Int'] if last else [])
        sig_t = ' × '.join(sigma) if sigma else 'Unit'
        out_t = f'Loop ({sig_t}) {lean_type(self.rtype)}' if inner_ret else sig_t
        res_t = f'Py ({out_t})' if self.monadic else out_t
        names = [lname(n) for n in state]
        tup = lambda xs: '(' + ', '.join(xs) + ')' if xs else '()'   # noqa: E731
        fell = lambda xs: self.ret(f'(Loop.fell {tup(xs)})' if inner_ret else tup(xs))   # noqa: E731
        ind = lambda ls: ['  ' + x for x in ls]   # noqa: E731
        do = ' do' if self.monadic else ''
        doc = f'/-- the {"`for`" if fuel is None else "`while`"} loop of `{self.qual}` at line {s.lineno}: ' \
              f'state ({", ".join(state)})' + (f'; `{iname}` after the loop is the last index (none: the loop never ran)' if last else '') \
              + ('; fuel: running out of it is `Exc.fuel`' if fuel else '') + ' -/'
        if fuel is None:
            idx_t = (['Int'] if iname else []) + (['Option Int'] if last else [])
            typ = ' → '.join(idx_t + [lean_type(slots[n]) for n in state] + [lean_type(itv.type), res_t])
            pi = ([lname(iname)] if iname else []) + ([lname(iname) + "L'"] if last else [])
            base = fell(names + ([lname(iname) + "L'"] if last else []))
            pc = ([lname(iname)] if iname else []) + (['_'] if last else [])
            d = [doc, f'def {name}{capsig} : {typ}',
                 '  | ' + ', '.join(pi + names + ['[]']) + ' => ' + base,
                 '  | ' + ', '.join(pc + names + [f"{lname(cname)} :: rest'"]) + ' =>' + do] + ind(ind(body))
            init = ([f'(0 : Int)'] if iname else []) + (['none'] if last else [])
            call = ' '.join([name + capargs] + init + [self.coerce_init(n, env[n], slots[n], init_consts) for n in state] + [itv.lean])
        else:
            typ = ' → '.join(['Nat'] + [lean_type(slots[n]) for n in state] + [res_t])
            d = [doc, f'def {name}{capsig} : {typ}',
                 '  | ' + ', '.join(['0'] + ['_'] * len(names)) + ' => throw Exc.fuel',
                 '  | ' + ', '.join(["fuel' + 1"] + names) + ' => do'] + ind(ind(
                     test_lines[:-1] + [f'if {test_lines[-1]} then'] + ind(body) + ['else', '  ' + fell(names)]))
            call = ' '.join([name + capargs, fuel] + [self.coerce_init(n, env[n], slots[n], init_consts) for n in state])
        self.aux.append('\n'.join(d))
        self.fresh += 1
        r = f"l{self.fresh}'"
        lines = pre0 + [f'let {r} : {out_t} {"←" if self.monadic else ":="} {call}']
        comps = state + ([iname] if last else [])

        def unpack(src, env):
            ls = []
            for i, n in enumerate(comps):
                proj = src if len(comps) == 1 else src + '.2' * i + ('.1' if i < len(comps) - 1 else '')
                typ = 'Unbound:Int' if (last and n == iname) else slots[n]
                env = dict(env)
                env[n] = V(lname(n), typ, None)
                ls.append(f'let {lname(n)} : {lean_type(typ)} := {proj}')
            return ls, env
        if not inner_ret:
            ls, env = unpack(r, env)
            return lines + ls + self.block(rest, env, tail)
        ls, env = unpack("s'", env)
        return lines + [f'match {r} with', f"| Loop.ret v' => {self.ret(chr(118) + chr(39))}", f"| Loop.fell s' =>" + do] \
            + ind(ls + self.block(rest, env, tail))

    def coerce_init(self, name, v, slot, consts=None):
        if slot == 'Bool' and v.type == 'Int':      # widened: the literal the variable holds
            v = V((consts or self.slot_init)[name], 'Int', None)
        keep, self.slots = self.slots, {name: slot}
        try:
            return self.coerce(name, v).lean
        finally:
            self.slots = keep

    def assigned_env(self, stmts, env):
        """`assigned`, and the lists changed by a mutating call on their top (`xs[-1].m(..)`, or `c.m(..)` where `c` is
        an alias of `xs[-1]`)"""
        asg = assigned(stmts)
        for st in stmts:
            for n in ast.walk(st):
                if isinstance(n, ast.Call) and self.t.externals.get(ast.unparse(n), ('',))[0] == 'fieldset' \
                        and 'self__' + self.t.externals[ast.unparse(n)][2] not in asg:
                    asg.append('self__' + self.t.externals[ast.unparse(n)][2])
                if getattr(self, 'fields', None) is not None and isinstance(n, ast.Call) and isinstance(n.func, ast.Attribute) \
                        and isinstance(n.func.value, ast.Name) and n.func.value.id == 'self':
                    d = self.registry.get((self.t.cls, n.func.attr))
                    for f in (d.fields or []) if d is not None else []:
                        if 'self__' + f not in asg:
                            asg.append('self__' + f)
                if isinstance(n, ast.Call) and self.t.externals.get(ast.unparse(n), ('',))[0] == 'selfstmt' and 'self' in env and 'self' not in asg:
                    asg.append('self')
                if isinstance(n, ast.Assign) and len(n.targets) == 1 and isinstance(n.targets[0], ast.Subscript) \
                        and isinstance(n.targets[0].value, ast.Name) and n.targets[0].value.id == 'self' and 'self' in env \
                        and self.t.externals.get('self[]=', ('',))[0] == 'setitem' and 'self' not in asg:
                    asg.append('self')      # wave 8: `self[k] = v` on a state changes it
                if isinstance(n, ast.Call) and isinstance(n.func, ast.Attribute) and isinstance(n.func.value, ast.Name) \
                        and n.func.value.id in env and env[n.func.value.id].type.startswith('Set:') and n.func.value.id not in asg:
                    asg.append(n.func.value.id)        # wave 8: a method call on a set changes it
                if isinstance(n, ast.Call) and (self.t.externals.get(ast.unparse(n.func)) or self.t.externals.get(f'{ast.unparse(n.func)}/{len(n.args)}', ('',)))[0] == 'mut' and isinstance(n.func, ast.Attribute) \
                        and isinstance(n.func.value, ast.Name) and n.func.value.id == 'self' and 'self' in env and 'self' not in asg:
                    asg.append('self')      # wave 8: a declared mutating method of `self`
                if isinstance(n, ast.Call) and isinstance(n.func, ast.Name) and '.' in self.t.fn and self.t.cls is None and 'self' in env \
                        and (None, self.t.fn.split('.')[0] + '.' + n.func.id) in self.registry and 'self' not in asg:
                    asg.append('self')      # wave 9: a sibling closure called on `self`
                if isinstance(n, ast.Call) and self.t.externals.get(ast.unparse(n.func), ('',))[0] in ('mut', 'mutlast'):
                    root = n.func
                    while isinstance(root, ast.Attribute):
                        root = root.value
                    lst = root.value.id if isinstance(root, ast.Subscript) and isinstance(root.value, ast.Name) else \
                        env[root.id].elts[1] if isinstance(root, ast.Name) and root.id in env and env[root.id].elts is not None \
                        and env[root.id].elts[0] == ALIAS else None
                    if lst is None and isinstance(root, ast.Name):
                        lst = next((v.elts[1] for k, v in self.alias_in(stmts).items() if k == root.id), None)
                    if lst is not None and lst not in asg:
                        asg.append(lst)
        return asg

    def alias_in(self, stmts):
        """variables assigned `xs[-1] if xs else None` inside these statements -> V-like with the list's name"""
        out = {}
        for st in stmts:
            for n in ast.walk(st):
                if isinstance(n, ast.Assign) and len(n.targets) == 1 and isinstance(n.targets[0], ast.Name) \
                        and isinstance(n.value, ast.IfExp) and isinstance(n.value.test, ast.Name) \
                        and ast.unparse(n.value.body) == f'{n.value.test.id}[-1]':
                    out[n.targets[0].id] = V('', '', None, (ALIAS, n.value.test.id))
        return out

    def loop_body(self, s, env, state, slots, name, iname, cname, last, inner_ret, fuel, itv=None):
        benv = dict(env)
        for n in state:
            benv[n] = V(lname(n), slots[n], None)
        if cname:
            benv[cname] = V(lname(cname), (ITER.get(itv.type) or ('Tuple:Str × ' + lean_type(itv.type[6:]) if itv.type.startswith('Pairs:') else itv.type[5:]))
                            if itv is not None else 'Char', None)
        if cname in self.pairtarget:
            pt = itv.type[6:] if itv.type.startswith('Pairs:') else 'IV'
            if itv.type.startswith('Pairs:'):      # named, so that instance tests can tell what the value is
                benv[self.pairtarget[cname][0]] = V(lname(self.pairtarget[cname][0]), 'Str', None)
                benv[self.pairtarget[cname][1]] = V(lname(self.pairtarget[cname][1]), pt, None)
            else:
                benv[self.pairtarget[cname][0]] = V(f'{lname(cname)}.1', 'Str', None)
                benv[self.pairtarget[cname][1]] = V(f'{lname(cname)}.2', pt, None)
        if iname:
            benv[iname] = V(lname(iname), 'Int', None)
        if cname in self.tupletarget:
            for nm, pv in zip(self.tupletarget[cname], self.tuple_parts(benv[cname])):
                benv[nm] = pv
        cur = lambda e: [e[n].lean for n in state]   # noqa: E731

        def again(e):       # the end of the body and `continue`: the next iteration
            if fuel is None:
                idx = ([f'({lname(iname)} + 1)'] if iname else []) + ([f'(some {lname(iname)})'] if last else [])
                return [' '.join([name + ' «CAP»'] + idx + cur(e) + ["rest'"])]
            return [' '.join([name + ' «CAP»', "fuel'"] + cur(e))]

        def stop(e):        # `break`
            xs = cur(e) + ([f'(some {lname(iname)})'] if last else [])
            t = '(' + ', '.join(xs) + ')' if xs else '()'
            return [self.ret(f'(Loop.fell {t})' if inner_ret else t)]
        self.loopctx = [{'brk': stop, 'cont': again}]
        test_lines = []
        if fuel is not None:
            c = self.test(s.test, benv)
            test_lines = self.take_pre() + [c]
        body = self.block(s.body, benv, Tail(state, again))
        if cname in self.pairtarget and itv is not None and itv.type.startswith('Pairs:'):
            a, b = self.pairtarget[cname]
            body = [f'let {lname(a)} : Str := {lname(cname)}.1', f'let {lname(b)} : {lean_type(itv.type[6:])} := {lname(cname)}.2'] + body
        return body, test_lines

    def translate(self):
        a, t = self.func.args, self.t
        self.parent = {c: p for p in ast.walk(self.func) for c in ast.iter_child_nodes(p)}
        if t.fragment:
            return self.translate_fragment()
        decos = [ast.unparse(d) for d in self.func.decorator_list]
        first = {(): ['self'], ('property',): ['self'], ('classmethod',): ['cls'], ('staticmethod',): []}.get(tuple(decos)) \
            if t.cls else []
        if t.fn == '__new__' and decos == []:
            first = ['cls']       # an implicit static method whose first parameter is the class
        names = [x.arg for x in a.args]
        if t.cls is None and (t.self_type or '').startswith('State:') and decos == [] and names[:1] == ['self']:
            first = ['self']      # wave 9: a module-level function / closure whose first parameter is the object (property(fget, fset, fdel))
        # wave 8: `*args` / `**kwargs` are accepted when the target declares them (`'*args'`, `'**kwargs'`) with a type
        want_var = next((n[1:] for n in (t.args or {}) if n.startswith('*') and not n.startswith('**')), None)
        want_kw = next((n[2:] for n in (t.args or {}) if n.startswith('**')), None)
        plain = [n for n in (t.args or {}) if not n.startswith('*')]
        if first is None or (a.vararg.arg if a.vararg else None) != want_var or (a.kwarg.arg if a.kwarg else None) != want_kw \
                or a.kwonlyargs or a.posonlyargs or names != first + plain:
            self.fail(self.func, f'signature ({", ".join(names)}' + (f', *{a.vararg.arg}' if a.vararg else '')
                      + (f', **{a.kwarg.arg}' if a.kwarg else '') + f') / decorators {decos} differ from the declared ones')
        defaults = dict(zip(names[len(names) - len(a.defaults):], a.defaults))
        env = {}
        FIELD_LNAME.clear()
        self.fields = None
        if t.self_type == 'Fields':
            self.fields = self.written_fields()
            keep = {id(n) for n in ast.walk(self.func) if isinstance(n, (ast.Compare, ast.Call, ast.Attribute, ast.Subscript))
                    and ast.unparse(n) in t.externals and t.externals[ast.unparse(n)][0] in ('expr', 'pexpr')}
            fields = self.fields

            class Rw(ast.NodeTransformer):
                def generic_visit(self, node):
                    if id(node) in keep:        # an expression that stays external as a whole keeps its text
                        return node
                    return super().generic_visit(node)

                def visit_Attribute(self, node):
                    if id(node) in keep:
                        return node
                    if isinstance(node.value, ast.Name) and node.value.id == 'self' and node.attr in fields:
                        return ast.copy_location(ast.Name(id='self__' + node.attr, ctx=node.ctx), node)
                    return self.generic_visit(node)
            self.func = Rw().visit(self.func)
            ast.fix_missing_locations(self.func)
            self.parent = {c: p for p in ast.walk(self.func) for c in ast.iter_child_nodes(p)}
            for f in self.fields:
                FIELD_LNAME['self__' + f] = t.self_attrs[f][0]
        if (t.self_type or '').startswith('State:'):     # the object itself is a value that the method changes and leaves
            env['self'] = self.param('self_', t.self_type[6:])
        for n, typ in (t.args or {}).items():
            n = n.lstrip('*')
            if typ == 'Object':     # an object that is only used through attributes declared as parameters
                continue
            if typ == 'None':       # specialised to the default, which must be None
                if not (n in defaults and isinstance(defaults[n], ast.Constant) and defaults[n].value is None):
                    self.fail(self.func, f'argument `{n}` is specialised to None but its default is not None')
                env[n] = V('()', 'None', None)
            elif self.objself:      # Python arguments follow the tree in the pattern
                env[n] = V(lname(n), typ, None)
            else:
                env[n] = self.param(lname(n), typ)
        self.nargs = len(self.used)
        for n, typ in (t.free or {}).items():       # wave 9: free variables of a closure: parameters (checked by find_closure)
            if n in env:
                self.fail(self.func, f'the free variable `{n}` is also an argument')
            env[n] = self.param(lname(n), typ)
        for f in (self.fields or []):       # the attributes written: their values before the call are parameters
            env['self__' + f] = self.param(*t.self_attrs[f])

        gen = any(isinstance(n, (ast.Yield, ast.YieldFrom)) for n in ast.walk(self.func))

        def off_end(e):
            if (t.self_type or '').startswith('State:'):      # returns None: the state it leaves
                self.rtype = t.self_type[6:]
                return [self.ret(e['self'].lean)]
            if self.fields is not None:       # a method that returns None: what it leaves in the attributes it writes
                return self.fields_out(e)
            if gen:     # a generator that is exhausted: the list of what it yielded
                self.rtype = 'DList'
                return [self.ret(e["out'"].lean)]
            if self.objself and 'self' in e:        # a method that changes `self` and returns None: the tree it leaves
                self.rtype = 'Comp'
                return [self.ret(e['self'].lean)]
            self.fail(self.func, 'a path reaches the end of the function without `return`')
        if gen:
            if any(isinstance(n, (ast.Return, ast.YieldFrom)) for n in ast.walk(self.func)):
                self.fail(self.func, 'generator with `return` / `yield from`')
            env["out'"] = V("out'", 'DList', None)
        top = Tail(["out'"] if gen else ['self'] if (t.self_type or '').startswith('State:') else ['self__' + f for f in (self.fields or [])], off_end)
        first_lines = []
        if self.objself and any(isinstance(e[0], str) and e[0] == 'mut' and k.startswith('self.') for k, e in t.externals.items()):
            # wave 8: the method changes `self` through a declared external: `self` is a variable, the method returns what it leaves
            env['self'] = V('self', 'Comp', None)
            first_lines = ["let self : Comp := (Comp.mk name' props' subs')"]
            top = Tail(['self'], off_end)
        saved = list(self.used)
        try:
            return first_lines + self.block(self.func.body, env, top)
        except NeedMonad:
            self.monadic, self.used, self.rtype, self.fresh, self.pre, self.notes = True, saved, None, 0, [], []
            self.aux, self.nloops, self.loopctx, self.slots, self.narrow = [], 0, [], {}, {}
            return first_lines + self.block(self.func.body, env, top)

    def written_fields(self):
        """the declared attributes of self that the function assigns, appends to, or that a translated method it calls writes"""
        out = set()
        for n in ast.walk(self.func):
            tg = n.targets[0] if isinstance(n, ast.Assign) and len(n.targets) == 1 else n.target if isinstance(n, ast.AugAssign) else None
            if isinstance(tg, ast.Attribute) and isinstance(tg.value, ast.Name) and tg.value.id == 'self':
                if tg.attr not in self.t.self_attrs:
                    self.fail(n, f'assignment to the undeclared attribute self.{tg.attr}')
                out.add(tg.attr)
            if isinstance(n, ast.Call) and isinstance(n.func, ast.Attribute) and isinstance(n.func.value, ast.Attribute) \
                    and isinstance(n.func.value.value, ast.Name) and n.func.value.value.id == 'self' and n.func.value.attr in self.t.self_attrs:
                if n.func.attr != 'append' and self.t.externals.get(ast.unparse(n).replace('self.', 'self__', 1), ('',))[0] != 'fieldset':
                    self.fail(n, f'method .{n.func.attr}(..) of the attribute self.{n.func.value.attr}')
                out.add(n.func.value.attr)
            if isinstance(n, ast.Call) and isinstance(n.func, ast.Attribute) and isinstance(n.func.value, ast.Name) \
                    and n.func.value.id == 'self':
                d = self.registry.get((self.t.cls, n.func.attr))
                if d is not None and d.fields is not None:
                    out |= set(d.fields)
                elif d is None and ast.unparse(n.func) not in self.t.externals:
                    self.fail(n, f'call of self.{n.func.attr}(..), which is neither translated nor declared external, in a method that writes attributes')
        return [f for f in self.t.self_attrs if f in out]

    def fields_out(self, e):
        vals = [e['self__' + f] for f in self.fields]
        for f, v in zip(self.fields, vals):
            if v.type != self.t.self_attrs[f][1]:
                self.fail(self.func, f'self.{f} is left holding a {v.type}, declared {self.t.self_attrs[f][1]}')
        self.rtype, self.rtype_lean = 'Tuple:fields', ' × '.join(lean_type(v.type) for v in vals)
        return [self.ret('(' + ', '.join(v.lean for v in vals) + ')')]

    def call_fields_method(self, s, d, ct, rest, env, tail):
        """`self.m(..)` as a statement, m a translated method that writes attributes: they are rebound to what it leaves"""
        node = s.value
        args = self.bound_args(node, d.func, d.argtypes, env)
        by_param = {p: f for f, (p, _) in ct.self_attrs.items()}
        actual = []
        for p in d.params[d.nargs:]:
            f = by_param.get(p[0])
            if f is not None and 'self__' + f in env:
                actual.append(self.narrow.get(env['self__' + f].lean, env['self__' + f]).lean if False else env['self__' + f].lean)
            else:
                actual.append(self.param(*p).lean)
        lean = ' '.join([d.lean] + [a.lean for a in args] + actual)
        types = [ct.self_attrs[f][1] for f in d.fields]
        if d.monadic:
            r = self.hoist(node, lean, 'Tuple:' + ' × '.join(lean_type(x) for x in types))
            lines = self.take_pre()
        else:
            self.fresh += 1
            r = V(f"t{self.fresh}'", 'Tuple:fields', None)
            lines = self.take_pre() + [f"let {r.lean} : {' × '.join(lean_type(x) for x in types)} := {lean}"]
        for i, (f, ty) in enumerate(zip(d.fields, types)):
            proj = r.lean if len(types) == 1 else r.lean + '.2' * i + ('.1' if i < len(types) - 1 else '')
            env, line = self.bind(env, 'self__' + f, V(proj, ty, None))
            lines.append(line)
        return lines + self.block(rest, env, tail)

    def translate_fragment(self):
        """the first `for` loop of the function and the constant initialisations directly in front of it; the free
        variables are the declared arguments; the result is the tuple of the variables named in the target"""
        t = self.t
        if isinstance(t.fragment, dict):
            # wave 8: the statements AFTER the top-level statement whose text is `after`, up to the final `return` of the
            # function, which must return exactly the tuple of the names in `result`
            names = list(t.fragment['result'])
            body0 = [st for st in self.func.body]
            k = next((i for i, st in enumerate(body0) if ast.unparse(st) == t.fragment['after']), None)
            if k is None:
                self.fail(self.func, f'fragment marker `{t.fragment["after"]}` is not a top-level statement of the function')
            frag = body0[k + 1:]
            if not frag or not isinstance(frag[-1], ast.Return) or ast.unparse(frag[-1].value) != '(' + ', '.join(names) + ')':
                self.fail(self.func, f'the function does not end in `return {", ".join(names)}`')
            frag = frag[:-1]
            self.notes.append(f'FRAGMENT: lines {frag[0].lineno}-{frag[-1].end_lineno} of the function (everything after '
                              f'`{t.fragment["after"]}`); result = what the function returns, ({", ".join(names)})')
        else:
            names = list(t.fragment)
            frag = find_fragment(self.func)
            if frag is None:
                self.fail(self.func, 'no `for` loop found')
            self.notes.append(f'FRAGMENT: lines {frag[0].lineno}-{frag[-1].end_lineno} of the function (the first `for` loop and the '
                              f'constant initialisations in front of it); result = ({", ".join(names)}), where a loop '
                              f'variable is None when the loop never ran')
        saved_notes = list(self.notes)
        while True:
            env = {n: self.param(lname(n), typ) for n, typ in (t.args or {}).items()}
            self.nargs = len(self.used)
            types = []

            def result(e):
                for n in names:
                    if n not in e:
                        self.fail(self.func, f'fragment result `{n}` is not bound')
                    types.append(lean_type(e[n].type))
                return [self.ret('(' + ', '.join(e[n].lean for n in names) + ')')]
            try:
                # the variables of the result are "read later"
                body = self.block(frag, env, Tail(names, result))
                break
            except NeedMonad:
                self.monadic, self.used, self.rtype, self.fresh, self.pre, self.notes = True, [], None, 0, [], list(saved_notes)
                self.aux, self.nloops, self.loopctx, self.slots, self.narrow = [], 0, [], {}, {}
        self.rtype, self.rtype_lean = 'Tuple', ' × '.join(types)
        return body


# ---------------------------------------------------------------- driver

PARAM_DOC = {'V': 'a value', 'OptV': 'a value or None', 'Comp': 'a component (tree)', 'CompList': 'a list of components', 'Fn:Comp:Bool': 'a function of a component', 'TDS': 'a timedelta, as its seconds', 'OptTDS': 'a timedelta (seconds) or None', 'ATList': 'a list of opaque objects', 'D': 'a date or datetime object', 'OptD': 'a datetime or None', 'TD': 'timedelta, whole seconds', 'PyDate': 'date: year month day', 'OptStr': 'str or None',
             'PyDateTime': 'datetime: year month day hour minute second', 'Int': 'int', 'Bool': 'bool', 'Str': 'str',
             'StrList': 'list of str'}
RETURN_DOC = {'StepOut': 'the new state of the dict and what the call returns', 'ItemList': 'a list of pairs (name, value)', 'CompList': 'a list of components', 'DList': 'a list of dates / datetimes', 'ATList': 'a list of the same objects', 'D': 'a date or datetime', 'OptD': 'a datetime or None', 'StrList': 'a list of str', 'Tuple': 'a tuple', 'Bytes': 'bytes (as the str they encode)', 'TD': 'a timedelta', 'PyDate': 'a date', 'PyTime': 'a time',
              'PyDateTime': 'a datetime', 'Set:Str': 'a set of str (duplicate-free list, insertion order)', 'Comp': 'the component (tree) it leaves'}
HEADERS = {
    'enc': ['/- GENERATED by tools/py2lean.py (called from tools/extract.py) from the function bodies in',
            '   src/icalendar. Do not edit: regenerated on every run; lean/ICal/Lemmas/Bodies.lean proves each',
            '   definition equal to the hand-written model.',
            '   Conventions: str = code points (Str); a bytes value is represented by the str it encodes, so',
            "   `.encode('utf-8')` is the identity and bytes literals are ASCII; int = Int; `//`, `%`, truthiness,",
            '   `{x:0N}`, `%s` and timedelta are the definitions of ICal/Model/PyRT.lean.  Every `self.<attr>` and',
            '   every call of external code is a PARAMETER of the definition, named in its comment. -/',
            'import ICal.Model.PyRT', 'namespace ICal.Gen.Bodies', 'open ICal ICal.PyRT', ''],
    'dec': ['/- GENERATED by tools/py2lean.py (called from tools/extract.py) from the DECODER bodies in',
            '   src/icalendar/prop.py. Do not edit: regenerated on every run; lean/ICal/Lemmas/BodiesDec.lean proves',
            '   each definition equal to the hand-written model.',
            '   Conventions as in Gen/Bodies.lean.  A function that can raise is `Py T = Except Exc T`; exceptions',
            '   come only from the partial runtime functions of ICal/Model/PyRTDec.lean (`int(str)` is the `pyInt`',
            '   of the hand model, `date/time/datetime(...)` use its `validDate`/`okTime`) and from',
            '   `raise ValueError(...)`; `try .. except <classes>: raise ValueError` is `remap`/`remapAll`.',
            '   Arguments, external calls and regex match objects are PARAMETERS, named in each comment. -/',
            'import ICal.Model.PyRTDec', 'set_option linter.unusedVariables false', 'namespace ICal.Gen.BodiesDec',
            'open ICal ICal.PyRT', ''],
    'parser': ['/- GENERATED by tools/py2lean.py (called from tools/extract.py) from function bodies in',
               '   src/icalendar/parser.py. Do not edit: regenerated on every run; lean/ICal/Lemmas/BodiesParser.lean',
               '   proves each definition equal to the hand-written model.  Conventions as in Gen/Bodies.lean;',
               '   `REGEX.search(s)` is a predicate PARAMETER (Str -> Bool), named in each comment. -/',
               'import ICal.Model.PyRT', 'namespace ICal.Gen.BodiesParser', 'open ICal ICal.PyRT', ''],
}
NAMESPACE = {'enc': 'ICal.Gen.Bodies', 'dec': 'ICal.Gen.BodiesDec', 'parser': 'ICal.Gen.BodiesParser',
             'line': 'ICal.Gen.BodiesLine', 'fold': 'ICal.Gen.BodiesFold', 'text': 'ICal.Gen.BodiesText'}
NAMESPACE['alarm'] = 'ICal.Gen.BodiesAlarm'
HEADERS['alarm'] = ['/- GENERATED by tools/py2lean.py (called from tools/extract.py) from function bodies of',
                    '   src/icalendar/alarms.py. Do not edit: regenerated on every run; lean/ICal/Lemmas/BodiesAlarm.lean proves',
                    '   each definition equal to the hand-written model (ICal/Model/Alarm.lean).  date / datetime OBJECTS are',
                    '   values of the hand model\'s `Alarms.Trig`; Python\'s operations on them (`>`, `max`, `.tzinfo is None`)',
                    '   are the partial functions of ICal/Model/PyRTAlarm.lean; a test for None on an optional value is a `match`. -/',
                    'import ICal.Model.PyRTAlarm', 'set_option linter.unusedVariables false', 'namespace ICal.Gen.BodiesAlarm',
                    'open ICal ICal.PyRT ICal.Alarms', '']
NAMESPACE['parse'] = 'ICal.Gen.BodiesParse'
HEADERS['parse'] = ['/- GENERATED by tools/py2lean.py (called from tools/extract.py) from Component.from_ical of src/icalendar/cal.py.',
                    '   Do not edit: regenerated on every run; lean/ICal/Lemmas/BodiesParse.lean proves it equal to the hand-written',
                    '   model (ICal/Model/Parse.lean: `pstep`, `prun`, `parseLinesP`).  The objects it handles (components `C`, parameter',
                    '   maps `P`, value classes `F`, component classes `K`, parsed values `PV`) are opaque; everything done with them',
                    '   is a parameter.  `component = stack[-1] if stack else None` is an alias of the top of the stack. -/',
                    'import ICal.Model.PyRT', 'set_option linter.unusedVariables false',
                    'namespace ICal.Gen.BodiesParse', 'open ICal ICal.PyRT', '']
NAMESPACE['cdmeta'] = 'ICal.Gen.BodiesCDictMeta'
HEADERS['cdmeta'] = ['/- GENERATED by tools/py2lean.py (called from tools/extract.py) from CaselessDict.__ne__ / __eq__ / sorted_keys /',
                     '   sorted_items of src/icalendar/caselessdict.py. Do not edit: regenerated on every run;',
                     '   lean/ICal/Lemmas/BodiesCDictMeta.lean ties each to the hand-written model (ICal/Model/CDict.lean).  The mapping and the',
                     '   other operand are opaque; `NotImplemented` is `none` of an optional bool.  A method removed from the source makes',
                     '   the translation fail. -/',
                     'import ICal.Model.PyRT', 'set_option linter.unusedVariables false',
                     'namespace ICal.Gen.BodiesCDictMeta', 'open ICal ICal.PyRT', '']
NAMESPACE['add'] = 'ICal.Gen.BodiesAdd'
HEADERS['add'] = ['/- GENERATED by tools/py2lean.py (called from tools/extract.py) from Component.add of src/icalendar/cal.py.',
                  '   Do not edit: regenerated on every run; lean/ICal/Lemmas/BodiesAdd.lean proves it equal to the hand-written model',
                  '   (ICal/Model/Encode.lean: `addProp`).  The mapping `self` is an opaque state: what is asked of it and done to it is a',
                  '   parameter, the function returns the state it leaves.  The argument and what is stored are one object or a list',
                  '   (`PyOneMany`); `isinstance(x, list)` tells which and the value is used accordingly from there on. -/',
                  'import ICal.Model.PyRTDec', 'set_option linter.unusedVariables false',
                  'namespace ICal.Gen.BodiesAdd', 'open ICal ICal.PyRT', '']
NAMESPACE['recur'] = 'ICal.Gen.BodiesRecur'
HEADERS['recur'] = ['/- GENERATED by tools/py2lean.py (called from tools/extract.py) from vRecur.parse_type / from_ical / to_ical of',
                    '   src/icalendar/prop.py. Do not edit: regenerated on every run; lean/ICal/Lemmas/BodiesRecur.lean proves each equal',
                    '   to the hand-written model (ICal/Model/Recur.lean).  The rule (a CaselessDict), the part classes and the part',
                    '   values are opaque: everything done with them is a parameter.  What is stored under a key is one value or a',
                    '   sequence (`PyOneMany`); `isinstance(vals, SEQUENCE_TYPES)` tells which. -/',
                    'import ICal.Model.PyRTDec', 'set_option linter.unusedVariables false',
                    'namespace ICal.Gen.BodiesRecur', 'open ICal ICal.PyRT', '']
NAMESPACE['se'] = 'ICal.Gen.BodiesSE'
HEADERS['se'] = ['/- GENERATED by tools/py2lean.py (called from tools/extract.py) from Event.end / Todo.end of src/icalendar/cal.py and',
                 '   tools.is_date. Do not edit: regenerated on every run; lean/ICal/Lemmas/BodiesSE.lean proves each equal to the',
                 '   hand-written model (ICal/Model/StartEnd.lean).  Value objects are the model\'s `SE.Val` (written `Trig` below),',
                 '   a timedelta is its Int of seconds; a test for None on an optional value is a `match`. -/',
                 'import ICal.Model.PyRTSE', 'set_option linter.unusedVariables false',
                 'namespace ICal.Gen.BodiesSE', 'open ICal ICal.PyRT ICal.PyRT.SEOps', 'abbrev Trig := SE.Val', '']
NAMESPACE['cdict'] = 'ICal.Gen.BodiesCDict'
HEADERS['cdict'] = ['/- GENERATED by tools/py2lean.py (called from tools/extract.py) from the delegating methods of CaselessDict in',
                    '   src/icalendar/caselessdict.py. Do not edit: regenerated on every run; lean/ICal/Lemmas/BodiesCDict.lean proves',
                    '   each equal to the step of the hand-written model (ICal/Model/CDict.lean).  `self\'` is the state of the',
                    '   underlying ordered dict; `super().<m>` is a parameter: a step of that dict. -/',
                    'import ICal.Model.PyRT', 'import ICal.Model.CDict', 'set_option linter.unusedVariables false',
                    'namespace ICal.Gen.BodiesCDict', 'open ICal ICal.PyRT', '',
                    '/-- a method that returns None after its super() call: an exception of the step stays, its result is dropped -/',
                    'def dropResult {V : Type} (r : CDict.Store V × CDict.Out V) : CDict.Store V × CDict.Out V :=',
                    '  (r.1, match r.2 with | .err e => .err e | _ => .none)', '']
NAMESPACE['ser'] = 'ICal.Gen.BodiesSer'
HEADERS['ser'] = ['/- GENERATED by tools/py2lean.py (called from tools/extract.py) from Component.property_items of',
                  '   src/icalendar/cal.py. Do not edit: regenerated on every run; lean/ICal/Lemmas/BodiesSer.lean proves it',
                  '   equal to the hand-written model (ICal/Model/Ser.lean).  `self` is the tree `Comp`; the objects it handles',
                  '   are those of ICal/Model/PyRTSer.lean; call arguments are bound by the callee\'s signature. -/',
                  'import ICal.Model.PyRTSer', 'set_option linter.unusedVariables false',
                  'namespace ICal.Gen.BodiesSer', 'open ICal ICal.PyRT', '']
NAMESPACE['tzuse'] = 'ICal.Gen.BodiesTzUse'
HEADERS['tzuse'] = ['/- GENERATED by tools/py2lean.py (called from tools/extract.py) from Calendar.timezones / get_used_tzids /',
                    '   get_missing_tzids / add_missing_timezones of src/icalendar/cal.py. Do not edit: regenerated on every run;',
                    '   lean/ICal/Lemmas/BodiesTzUse.lean proves each equal to the hand-written model (ICal/Model/TzUse.lean).  `self` is the',
                    '   tree `Comp`; `self.property_items(..)` and `self.walk(..)` are the regenerated methods of Gen/BodiesSer.lean and',
                    '   Gen/BodiesWalk.lean (inherited from Component: no class in between defines them).  A Python set is a duplicate-free',
                    '   list in insertion order (ICal/Model/PyRTTzUse.lean); it is never iterated, only sorted; a method that changes `self`',
                    '   returns the tree it leaves. -/',
                    'import ICal.Model.PyRTTzUse', 'import ICal.Gen.BodiesSer', 'import ICal.Gen.BodiesWalk',
                    'set_option linter.unusedVariables false',
                    'namespace ICal.Gen.BodiesTzUse', 'open ICal ICal.PyRT', '']
NAMESPACE['cdsort'] = 'ICal.Gen.BodiesCDictSort'
HEADERS['cdsort'] = ['/- GENERATED by tools/py2lean.py (called from tools/extract.py) from canonsort_keys of src/icalendar/caselessdict.py.',
                     '   Do not edit: regenerated on every run; lean/ICal/Lemmas/BodiesCDictSort.lean proves it equal to the hand-written',
                     '   model (ICal/Model/CDict.lean: `canonsort`).  The dict comprehension, `k in d`, `d[k]` (KeyError), the keyed stable',
                     '   `sorted` and `x or []` are the definitions of ICal/Model/PyRTDict.lean; `sorted` of str is the code-point order. -/',
                     'import ICal.Model.PyRTDict', 'set_option linter.unusedVariables false',
                     'namespace ICal.Gen.BodiesCDictSort', 'open ICal ICal.PyRT', '']
NAMESPACE['tz'] = 'ICal.Gen.BodiesTz'
HEADERS['tz'] = ['/- GENERATED by tools/py2lean.py (called from tools/extract.py) from the second half of Timezone.get_transitions of',
                 '   src/icalendar/cal.py (a FRAGMENT: everything after `transitions.sort()`). Do not edit: regenerated on every run;',
                 '   lean/ICal/Lemmas/BodiesTz.lean proves it equal to the hand-written model (ICal/Model/Tz.lean: `infoGo`, `dstOffset`).',
                 '   Instants and timedeltas are ints of seconds; a transition is the tuple (transtime, osfrom, osto, name); a local that',
                 '   is `False` or a timedelta is `Option Int`; `xs[i]`, `range`, `dst[name]` are partial (ICal/Model/PyRTTz.lean). -/',
                 'import ICal.Model.PyRTTz', 'set_option linter.unusedVariables false',
                 'namespace ICal.Gen.BodiesTz', 'open ICal ICal.PyRT', '']
NAMESPACE['sedesc'] = 'ICal.Gen.BodiesSEDesc'
HEADERS['sedesc'] = ['/- GENERATED by tools/py2lean.py (called from tools/extract.py) from the closures `p_set` / `p_del` of',
                     '   `create_single_property` and from `_set_duration` / `_del_duration` of src/icalendar/cal.py. Do not edit: regenerated on',
                     '   every run; lean/ICal/Lemmas/BodiesSEDesc.lean proves each equal to the hand-written model (ICal/Model/StartEnd.lean:',
                     '   `pSet`, `setDuration`, the deleter step).  `self` is an opaque state: what is done to it is a parameter and the function',
                     '   returns the state it leaves; the free variables of a closure are parameters; a closure called on `self` is a call. -/',
                     'import ICal.Model.PyRT', 'set_option linter.unusedVariables false',
                     'namespace ICal.Gen.BodiesSEDesc', 'open ICal ICal.PyRT', '']
GROUP_USES = {'tzuse': ['ser', 'walk']}      # groups whose translated functions this group calls (imported, qualified names)
NAMESPACE['walk'] = 'ICal.Gen.BodiesWalk'
HEADERS['walk'] = ['/- GENERATED by tools/py2lean.py (called from tools/extract.py) from Component._walk / walk of',
                   '   src/icalendar/cal.py. Do not edit: regenerated on every run; lean/ICal/Lemmas/BodiesWalk.lean proves each',
                   '   definition equal to the hand-written model (ICal/Model/Walk.lean).  `self` is the tree `Comp` of',
                   '   ICal/Model/Tree.lean (definition by pattern matching, recursion over `self.subcomponents` as a `mutual`',
                   '   block); call arguments are bound by the callee\'s signature. -/',
                   'import ICal.Model.PyRT', 'import ICal.Model.Tree', 'set_option linter.unusedVariables false',
                   'namespace ICal.Gen.BodiesWalk', 'open ICal ICal.PyRT', '']
for _g, _what in (('line', 'content-line'), ('fold', 'folding'), ('text', 'TEXT-list')):
    _n = NAMESPACE[_g].split('.')[-1]
    HEADERS[_g] = [f'/- GENERATED by tools/py2lean.py (called from tools/extract.py) from the {_what} function bodies of',
                   f'   src/icalendar/parser.py. Do not edit: regenerated on every run; lean/ICal/Lemmas/{_n}.lean proves',
                   '   each definition equal to the hand-written model.  Conventions as in Gen/Bodies.lean; loops are',
                   '   separate recursive definitions `<fn>_loop<k>` (structural over the characters, or on fuel for a',
                   '   `while`: see ICal/Model/PyRT.lean, wave 3). -/',
                   'import ICal.Model.PyRT', 'set_option linter.unusedVariables false', f'namespace {NAMESPACE[_g]}',
                   'open ICal ICal.PyRT', '']
HEADERS['parser'] = HEADERS['parser'][:-3] + ['import ICal.Model.PyRT', 'set_option linter.unusedVariables false',
                                              'namespace ICal.Gen.BodiesParser', 'open ICal ICal.PyRT', '']


def comment_safe(s):
    return s.replace('-/', '- /').replace('/-', '/ -')


def translate(src_dir, group='enc', registry=None):
    out = list(HEADERS[group])
    fps, registry, trees = {}, ({} if registry is None else registry), {}
    for dep in GROUP_USES.get(group, ()):       # what this group calls of another group's file: known under its qualified name
        sub = {}
        translate(src_dir, dep, sub)
        for k, d in sub.items():
            registry[k] = d._replace(lean=NAMESPACE[dep] + '.' + d.lean)
    for t in TARGETS:
        if t.group != group:
            continue
        if t.file not in trees:
            trees[t.file] = X.parse(os.path.join(src_dir, t.file))
        qual = f'{t.file[:-3]}.' + (f'{t.cls}.' if t.cls else '') + t.fn
        try:
            cls = X.find_class(trees[t.file], t.cls) if t.cls else None
            if t.cls is None and '.' in t.fn:       # wave 9: a CLOSURE `outer.inner` (a def directly in the body of a module-level def)
                func = find_closure(trees[t.file], t.fn, t.free or {})
            else:
                func = X.find_func(trees[t.file], t.fn, t.cls)
        except X.Untranslatable as e:
            raise Untranslatable(f'{qual}: {e}')
        fp = X.fingerprint(func)
        fps[qual] = fp
        if t.fragment:
            qual += ' (fragment)'
        fn = Fn(t, cls, func, registry, module_bindings(trees[t.file]))
        fn.tree, fn.src_dir = trees[t.file], src_dir
        try:
            body = fn.translate()
        except Untranslatable as e:
            if not t.optional:
                raise
            out += [f'/- NOT TRANSLATED `{qual}` (AST fingerprint {fp}): outside the subset:',
                    f'   {comment_safe(str(e))} -/', '']
            continue
        registry[(t.cls, t.fn)] = Done(t.lean, list(fn.used), fn.rtype, fn.monadic, fn.nargs, fn.objself, func,
                                       [v for v in (t.args or {}).values()], getattr(fn, 'fields', None), getattr(fn, 'rtype_elts', None))
        src_of = {p: (a if a.split('.')[0] in (t.args or {}) else f'self.{a}') for a, (p, _) in t.self_attrs.items()}
        src_of.update({lname(a): f'argument {a}' for a in (t.args or {})})
        for f, e in t.externals.items():
            if not isinstance(e[0], str):
                src_of[e[1]] = f'{f}({", ".join(e[0])})'
            elif e[0] == 'fun':
                src_of[e[1]] = f'the function {f}'
            elif e[0] == 'pred':
                src_of[e[1]] = f'bool({f}(s))'
            elif e[0] == 'match':
                src_of[e[1]] = f'{f}(..): None or the groups'
            elif e[0] in ('proc', 'pfun'):
                src_of[e[1]] = f'the function {f} (external; it may raise)'
            elif e[0] in ('ptuple', 'pexpr', 'mut', 'mutlast', 'setattr', 'contains', 'callopaque'):
                src_of[e[1]] = f'`{f}` (external)' + (' - it may raise' if e[0] in ('ptuple', 'pexpr') else '')
            elif e[0] == 'tuple':
                for k, (pn, _) in enumerate(e[1]):
                    src_of[pn] = f'value {k + 1} of what {f}() returned (external; the call may raise)'
            elif e[0] == 'super':
                src_of[e[1]] = f'{f}(..) as a step of the underlying ordered dict'
            elif e[0] == 'sfun':
                src_of[e[1]] = f'the method {f}() as a function of the component (external)'
            elif e[0] == 'getitem':
                src_of[e[1]] = 'self[name] as a function of the component and the key (external; it may raise)'
            elif e[0] == 'expr' and e[1] is None:
                pass
            elif e[0] == 'expr':
                src_of[e[1]] = f'the expression {f[:60]}.. as a function of ({", ".join(e[2])}) (external, not translated)'
        src_of.update({lname(a): f'free variable {a} of the closure (a parameter of {t.fn.split(".")[0]})' for a in (t.free or {})})
        if group == 'sedesc':
            src_of['self_'] = 'self: the object as the call finds it'
        src_of['self'] = f'self (a {t.cls} is {dict(Int="an int", Str="a str").get(t.self_type)})'
        pdoc = '; '.join(f'`{p}` = `{src_of.get(p, "parameter of a callee")}` ({PARAM_DOC.get(ty, ty)})'
                         for p, ty in fn.used) or 'none'
        start = len(out)
        for d in fn.aux:
            out += [d, '']
        out.append(f'/-- `{qual}` (AST fingerprint {fp}).  Parameters: {comment_safe(pdoc)}.')
        for n, typ in (t.args or {}).items():
            if typ == 'None':
                out.append(f'    SPECIALISED to `{n}` = None (its default).')
        for note in fn.notes:
            out.append('    ' + comment_safe(note) + '.')
        rdoc = 'a tuple' if fn.rtype.startswith('Tuple') else RETURN_DOC.get(fn.rtype, fn.rtype.lower())
        out.append(f'    Returns {rdoc}{"; can raise (Py)" if fn.monadic else ""}. -/')
        sig = ''.join(f' ({p} : {lean_type(ty)})' for p, ty in fn.used)
        opaque = sorted({e[3] for e in t.externals.values() if isinstance(e[0], str) and e[0] in ('pfun', 'expr') and e[3] not in LEAN_TYPE and e[3] != 'Object' and ':' not in e[3]})
        opaque = sorted(set(opaque) | {o for o in ('AT',) if re.search(r'\b' + o + r'\b', sig)})
        if group in ('parse', 'alarm', 'recur', 'add', 'cdmeta', 'tzuse', 'tz', 'sedesc') or t.lean in ('vMonth_new', 'vDDDLists_to_ical'):
            opaque = opaque_types([lean_type(ty) for _, ty in fn.used] + [fn.rtype_lean or lean_type(fn.rtype)])
        sig = ''.join(f' {{{o} : Type}}' for o in opaque) + ''.join(f' [BEq {o}]' for o in sorted(getattr(fn, 'setelts', ())) if o in opaque) + sig
        rt = fn.rtype_lean or lean_type(fn.rtype)
        res_t = "Py (" + rt + ")" if fn.monadic and " " in rt else "Py " + rt if fn.monadic else rt
        if fn.dictself:     # the state of the dict comes right after the external parameters
            k = len(fn.used) - fn.nargs
            sig = ' {V : Type}' + ''.join(f' ({p} : {lean_type(ty)})' for p, ty in fn.used[fn.nargs:]) \
                + " (self' : CDict.Store V)" + ''.join(f' ({p} : {lean_type(ty)})' for p, ty in fn.used[:fn.nargs])
            out.append(f'def {t.lean}{sig} : {res_t} :=')
            out += ['  ' + ln for ln in body]
            out.append('')
            names = [x.arg for x in func.args.args]
            for n, dflt in zip(names[len(names) - len(func.args.defaults):], func.args.defaults):
                typ = (t.args or {}).get(n)
                lit = {('OptV', None): '(none : Option Unit)', ('Bool', True): 'true', ('Bool', False): 'false'}.get(
                    (typ, dflt.value if isinstance(dflt, ast.Constant) else '?'))
                if lit is None and not (typ == 'V' and isinstance(dflt, ast.Constant) and dflt.value is None):
                    raise Untranslatable(f'{qual}: default `{ast.unparse(dflt)}` of `{n}` (a {typ})')
                out.append(f'/-- the default of `{n}` in the signature of `{qual}`: `{ast.unparse(dflt)}`'
                           + (' (a value like any other)' if lit is None else '') + ' -/')
                out.append(f'def {t.lean}_default_{n} := {lit or "()"}')
                out.append('')
            continue
        if fn.objself:      # by pattern matching on the tree; the Python arguments follow it
            argt = ['(' + lean_type(v) + ')' if '→' in lean_type(v) else lean_type(v) for v in (t.args or {}).values()]
            out.append(f'def {t.lean}{sig} : ' + ' → '.join(['Comp'] + argt + [res_t]))
            out.append("  | " + ', '.join([".mk name' props' subs'"] + [lname(a) for a in (t.args or {})]) + ' =>' + (' do' if fn.monadic else ''))
            out += ['    ' + ln for ln in body]
            out.append('')
            ext = ''.join(' ' + p for p, _ in fn.used)
            out[start:] = [ln.replace('«EXTSIG»', sig).replace('«EXT»', ext) for ln in out[start:]]
            if fn.recursive:
                out.insert(start, 'mutual')
                out[-1:] = ['end', '']
            continue
        out.append(f'def {t.lean}{sig} : {res_t} :=' + (' do' if fn.monadic else ''))
        if any(isinstance(n, ast.Yield) for n in ast.walk(func)):
            out.append("  let out' : List Trig := []")
        out += ['  ' + ln for ln in body]
        out.append('')
    out.append(f'end {NAMESPACE[group]}')
    return '\n'.join(out) + '\n', fps


def main(argv):
    src = argv[argv.index('--src') + 1] if '--src' in argv else X.SRC
    group = argv[argv.index('--group') + 1] if '--group' in argv else 'enc'
    try:
        text, fps = translate(src, group)
    except (X.Untranslatable, SyntaxError, OSError) as e:
        print(f'{type(e).__name__}: {e}', file=sys.stderr)
        return 3
    if '--out' in argv:
        X.write_if_changed(argv[argv.index('--out') + 1], text)
    else:
        sys.stdout.write(text)
    return 0


if __name__ == '__main__':
    sys.exit(main(sys.argv[1:]))
