#!/venv/bin/python
"""py2lean: a small Python-subset -> Lean 4 translator for FUNCTION BODIES (arithmetic and string
formatting code).  The source text is parsed with `ast`, never imported or executed.

    translate(src_dir) -> (lean_text, fingerprints)      used by tools/extract.py (gen_bodies)
    python tools/py2lean.py --src /repo/src/icalendar --out /tmp/Bodies.lean

The output (lean/ICal/Gen/Bodies.lean) uses only lean/ICal/Model/PyRT.lean.  The theorems in
lean/ICal/Lemmas/Bodies.lean prove every generated body equal to the hand-written model, so a
changed body that no longer means the same makes `lake build` fail.

Subset (anything else raises Untranslatable naming the function, the line and the construct):
  statements   x = e; a, b = e1, e2; x += e; if/elif/else; return e; pass; the docstring.
               Re-assignment is `let` shadowing.  An `if` without `return` inside becomes
               `let (vars) := if c then .. else ..` over the variables it assigns that are read
               later (a variable read later but bound on one path only is refused); an `if` with a
               `return` inside becomes an if-then-else whose branches both continue with the rest
               of the function (what follows a `return` on a path never runs and is dropped).
               Every path must end in `return e`; all returns have one type.
  expressions  int / str / ASCII bytes / bool literals; names; `+ - *`, unary minus; `//` and `%`
               with a non-zero int literal divisor; `abs`; comparisons (one operator); `not/and/or`
               with Python truthiness (`or`/`and` return an operand outside a test); `x if c else y`;
               `str(x)`, `int(x)` on ints; f-strings with `{x}` and `{x:0N}`; `fmt % x` where every
               literal that can reach `fmt` has exactly one `%s` and no other `%`;
               `s.encode('utf-8')`; bytes are represented by the str they encode;
               timedelta: `.days .seconds`, `-td`, `td - td`, `td < td`, `timedelta(0)`;
               date/datetime: attribute reads; `self.<attr>` and calls listed in TARGETS are
               PARAMETERS of the generated definition (external code is never guessed).
               `str int abs` must not be rebound at module level; `timedelta` must come from
               `from datetime import timedelta`; `str(self)` follows a `__str__` of the class
               (which must itself be a translated target), other uses of `self` as an int require
               the class to derive from exactly `int` without overriding the special method.
Types are inferred (Int Str Bytes Bool TD OptStr PyDate PyDateTime); a type clash is refused.
"""
import ast
import os
import sys
from collections import namedtuple

sys.path.insert(0, os.path.dirname(os.path.abspath(__file__)))
import extract as X  # noqa: E402  (helpers only: parse, find_class, find_func, fingerprint, lstr)


class Untranslatable(X.Untranslatable):
    pass


LEAN_TYPE = {'Int': 'Int', 'Str': 'Str', 'Bytes': 'Str', 'Bool': 'Bool', 'TD': 'TD', 'OptStr': 'Option Str',
             'PyDate': 'PyDate', 'PyDateTime': 'PyDateTime', 'PyTime': 'PyTime'}
RECORDS = {  # attribute reads: type -> attr -> (lean projection, type)
    'TD': {'days': ('days', 'Int'), 'seconds': ('secondsI', 'Int')},
    'PyDate': {k: (k, 'Int') for k in ('year', 'month', 'day')},
    'PyDateTime': {k: (k, 'Int') for k in ('year', 'month', 'day', 'hour', 'minute', 'second')},
    'PyTime': {},
}
LEAN_KEYWORDS = {'at', 'do', 'end', 'from', 'fun', 'have', 'in', 'let', 'open', 'show', 'then', 'else', 'if',
                 'match', 'with', 'where', 'by', 'def', 'theorem', 'namespace', 'section', 'import', 'instance',
                 'structure', 'class', 'Type', 'Prop', 'Sort', 'mutual', 'private', 'protected', 'variable',
                 'universe', 'example', 'abbrev', 'inductive', 'deriving', 'extends', 'using', 'calc', 'suffices',
                 'obtain', 'return', 'for', 'unless', 'try', 'catch', 'finally', 'macro', 'syntax', 'notation'}

# What is translated.  self_type: the builtin the class derives from when `self` itself is used as a
# value; self_attrs: `self.<attr>` -> (parameter, type); externals: callee -> (argument parameters, result
# parameter, type): the RESULT of that call is a parameter.  optional: a failure is recorded in the
# header instead of breaking the tie (used where the hand model is tied by correspondence only).
Target = namedtuple('Target', 'file cls fn lean self_type self_attrs externals optional')
TARGETS = [
    Target('prop.py', 'vDuration', 'to_ical', 'vDuration_to_ical', None, {'td': ('td', 'TD')}, {}, False),
    Target('prop.py', 'vUTCOffset', 'to_ical', 'vUTCOffset_to_ical', None, {'td': ('td', 'TD')}, {}, False),
    Target('prop.py', 'vDate', 'to_ical', 'vDate_to_ical', None, {'dt': ('dt', 'PyDate')}, {}, False),
    Target('prop.py', 'vDatetime', 'to_ical', 'vDatetime_to_ical', None, {'dt': ('dt', 'PyDateTime')},
           {'tzid_from_dt': (['dt'], 'tzid', 'OptStr')}, False),
    Target('prop.py', 'vTime', 'to_ical', 'vTime_to_ical', None, {'dt': ('dt', 'PyTime')}, {}, True),
    Target('prop.py', 'vMonth', '__str__', 'vMonth_str', 'Int', {'leap': ('leap', 'Bool')}, {}, False),
    Target('prop.py', 'vMonth', 'to_ical', 'vMonth_to_ical', 'Int', {'leap': ('leap', 'Bool')}, {}, False),
    Target('prop.py', 'vBoolean', 'to_ical', 'vBoolean_to_ical', 'Int', {}, {}, False),
    Target('prop.py', 'vInt', 'to_ical', 'vInt_to_ical', 'Int', {}, {}, False),
]

V = namedtuple('V', 'lean type lits')          # a translated expression; lits: possible str literals or None
Tail = namedtuple('Tail', 'names make')        # what a block continues with when its statements run out
Done = namedtuple('Done', 'lean params rtype')  # a translated function


def lname(name):
    return name + '_' if name in LEAN_KEYWORDS or name.endswith("'") else name


def reads(nodes):
    """names read by the statements (`x += e` reads x)"""
    out = set()
    for s in nodes:
        for n in ast.walk(s):
            if isinstance(n, ast.Name) and isinstance(n.ctx, ast.Load):
                out.add(n.id)
            if isinstance(n, ast.AugAssign) and isinstance(n.target, ast.Name):
                out.add(n.target.id)
    return out


def assigned(nodes):
    out = []
    for s in nodes:
        for n in ast.walk(s):
            if isinstance(n, ast.Name) and isinstance(n.ctx, ast.Store) and n.id not in out:
                out.append(n.id)
    return out


def module_bindings(tree):
    """module-level names -> what binds them (only plain top-level statements are looked at)"""
    out = {}
    for n in tree.body:
        if isinstance(n, (ast.FunctionDef, ast.ClassDef)):
            out[n.name] = 'def'
        elif isinstance(n, (ast.Assign, ast.AnnAssign, ast.AugAssign)):
            for x in ast.walk(n):
                if isinstance(x, ast.Name) and isinstance(x.ctx, ast.Store):
                    out[x.id] = 'assign'
        elif isinstance(n, ast.ImportFrom):
            for a in n.names:
                out[a.asname or a.name] = f'{n.module}.{a.name}'
        elif isinstance(n, ast.Import):
            for a in n.names:
                out[a.asname or a.name.split('.')[0]] = a.name
    return out


def has_return(nodes):
    return any(isinstance(n, ast.Return) for s in nodes for n in ast.walk(s))


class Fn:
    """translation of one function"""

    def __init__(self, target, cls_node, func, registry, modnames=None):
        self.t, self.cls, self.func, self.registry = target, cls_node, func, registry
        self.modnames = modnames or {}
        self.qual = f'{target.file[:-3]}.{target.cls}.{target.fn}'
        self.used = []            # parameters actually referenced, in order of first use
        self.rtype = None
        self.fresh = 0

    def fail(self, node, what):
        raise Untranslatable(f'{self.qual}: line {getattr(node, "lineno", "?")}: {what}')

    def param(self, name, typ):
        if (name, typ) not in self.used:
            self.used.append((name, typ))
        return V(name, typ, None)

    def builtin_method_ok(self, node, *dunder):
        """`self` is used as the builtin it derives from: the class must derive from exactly that builtin and
        must not override the special methods involved"""
        want = {'Int': 'int'}[self.t.self_type]
        if [ast.unparse(b) for b in self.cls.bases] != [want]:
            self.fail(node, f'class {self.t.cls} does not derive from exactly `{want}`')
        for st in self.cls.body:
            if isinstance(st, ast.FunctionDef) and st.name in dunder:
                self.fail(node, f'class {self.t.cls} overrides {st.name}')

    # ------------------------------------------------------------ expressions

    def truth(self, v, node):
        if v.type == 'Bool':
            return v.lean
        if v.type in ('Int', 'Str', 'Bytes', 'TD'):
            return f'(truthy {v.lean})'
        self.fail(node, f'truthiness of a value of type {v.type}')

    def test(self, node, env):
        """an expression in a boolean context -> Lean Bool term"""
        if isinstance(node, ast.BoolOp):
            op = ' && ' if isinstance(node.op, ast.And) else ' || '
            return '(' + op.join(self.test(x, env) for x in node.values) + ')'
        if isinstance(node, ast.UnaryOp) and isinstance(node.op, ast.Not):
            return f'(!{self.test(node.operand, env)})'
        v = self.expr(node, env)
        if isinstance(node, ast.Name) and node.id == 'self':
            self.builtin_method_ok(node, '__bool__', '__len__')
        return self.truth(v, node)

    def expr(self, node, env):
        f = getattr(self, 'e_' + type(node).__name__, None)
        if f is None:
            self.fail(node, f'expression {type(node).__name__}: `{ast.unparse(node)[:50]}`')
        return f(node, env)

    def e_Constant(self, node, env):
        c = node.value
        if isinstance(c, bool):
            return V('true' if c else 'false', 'Bool', None)
        if isinstance(c, int):
            return V(f'({c} : Int)', 'Int', None)
        if isinstance(c, str):
            return V(f'({X.lstr(c)} : Str)', 'Str', frozenset([c]))
        if isinstance(c, bytes):
            if any(b >= 128 for b in c):
                self.fail(node, 'non-ASCII bytes literal')
            return V(f'({X.lstr(c)} : Str)', 'Bytes', None)
        self.fail(node, f'constant {c!r}')

    def e_Name(self, node, env):
        if node.id == 'self':
            if self.t.self_type is None:
                self.fail(node, '`self` used as a value')
            return self.param('self', self.t.self_type)
        if node.id not in env:
            self.fail(node, f'name `{node.id}` is not a local variable (globals and builtins are outside the subset)')
        return env[node.id]

    def e_Attribute(self, node, env):
        if isinstance(node.value, ast.Name) and node.value.id == 'self':
            if node.attr not in self.t.self_attrs:
                self.fail(node, f'attribute self.{node.attr} is not a declared parameter')
            return self.param(*self.t.self_attrs[node.attr])
        base = self.expr(node.value, env)
        if node.attr not in RECORDS.get(base.type, {}):
            self.fail(node, f'attribute .{node.attr} of a value of type {base.type}')
        proj, typ = RECORDS[base.type][node.attr]
        return V(f'{base.lean}.{proj}', typ, None)

    def e_UnaryOp(self, node, env):
        if isinstance(node.op, ast.Not):
            return V(self.test(node, env), 'Bool', None)
        v = self.expr(node.operand, env)
        if isinstance(node.op, ast.USub) and v.type == 'Int':
            return V(f'(-{v.lean})', 'Int', None)
        if isinstance(node.op, ast.USub) and v.type == 'TD':
            return V(f'(TD.neg {v.lean})', 'TD', None)
        self.fail(node, f'unary {type(node.op).__name__} on {v.type}')

    def e_BinOp(self, node, env):
        return self.binop(node, node.op, self.expr(node.left, env), self.expr(node.right, env), node.right)

    def binop(self, node, op, a, b, right_node=None):
        k, ts = type(op).__name__, (a.type, b.type)
        if ts == ('Int', 'Int') and k in ('Add', 'Sub', 'Mult'):
            return V(f'({a.lean} {dict(Add="+", Sub="-", Mult="*")[k]} {b.lean})', 'Int', None)
        if ts == ('Int', 'Int') and k in ('FloorDiv', 'Mod'):
            if not (isinstance(right_node, ast.Constant) and type(right_node.value) is int and right_node.value != 0):
                self.fail(node, f'{k} whose divisor is not a non-zero int literal')
            return V(f'({"floorDiv" if k == "FloorDiv" else "pyMod"} {a.lean} {b.lean})', 'Int', None)
        if k == 'Add' and ts in (('Str', 'Str'), ('Bytes', 'Bytes')):
            return V(f'({a.lean} ++ {b.lean})', a.type, None)
        if k == 'Sub' and ts == ('TD', 'TD'):
            return V(f'(TD.sub {a.lean} {b.lean})', 'TD', None)
        if k == 'Mod' and a.type == 'Str' and b.type in ('Str', 'Int'):
            if a.lits is None or any(s.count('%') != 1 or s.count('%s') != 1 for s in a.lits):
                self.fail(node, '`%` formatting whose format is not known to be literals with exactly one %s')
            arg = b.lean if b.type == 'Str' else f'(strInt {b.lean})'
            return V(f'(fmt1 {a.lean} {arg})', 'Str', None)
        self.fail(node, f'operator {k} on {a.type}, {b.type}')

    def e_Compare(self, node, env):
        if len(node.ops) != 1:
            self.fail(node, 'chained comparison')
        k = type(node.ops[0]).__name__
        a, b = self.expr(node.left, env), self.expr(node.comparators[0], env)
        ts = (a.type, b.type)
        if ts == ('Int', 'Int') and k in ('Lt', 'LtE', 'Gt', 'GtE'):
            return V(f'(decide ({a.lean} {dict(Lt="<", LtE="≤", Gt=">", GtE="≥")[k]} {b.lean}))', 'Bool', None)
        if ts in (('Int', 'Int'), ('Str', 'Str'), ('Bytes', 'Bytes'), ('Bool', 'Bool')) and k in ('Eq', 'NotEq'):
            return V(f'({a.lean} {"==" if k == "Eq" else "!="} {b.lean})', 'Bool', None)
        if ts == ('OptStr', 'Str') and k in ('Eq', 'NotEq'):
            return V(f'({a.lean} {"==" if k == "Eq" else "!="} some {b.lean})', 'Bool', None)
        if ts == ('TD', 'TD') and k in ('Lt', 'Gt'):
            x, y = (a, b) if k == 'Lt' else (b, a)
            return V(f'(TD.lt {x.lean} {y.lean})', 'Bool', None)
        self.fail(node, f'comparison {k} on {a.type}, {b.type}')

    def e_BoolOp(self, node, env):
        """value context: `a or b` / `a and b` return an operand"""
        vals = [self.expr(x, env) for x in node.values]
        if len({v.type for v in vals}) != 1:
            self.fail(node, 'and/or over operands of different types, used as a value')
        self.truth(vals[0], node)
        f = 'pyOr' if isinstance(node.op, ast.Or) else 'pyAnd'
        acc = vals[0]
        for v in vals[1:]:      # `a or b or c` = `(a or b) or c`
            lits = acc.lits | v.lits if acc.lits is not None and v.lits is not None else None
            acc = V(f'({f} {acc.lean} {v.lean})', acc.type, lits)
        return acc

    def e_IfExp(self, node, env):
        c, a, b = self.test(node.test, env), self.expr(node.body, env), self.expr(node.orelse, env)
        if a.type != b.type:
            self.fail(node, f'conditional expression of types {a.type} and {b.type}')
        lits = a.lits | b.lits if a.lits is not None and b.lits is not None else None
        return V(f'(if {c} then {a.lean} else {b.lean})', a.type, lits)

    def e_JoinedStr(self, node, env):
        parts = []
        for p in node.values:
            if isinstance(p, ast.Constant) and isinstance(p.value, str):
                parts.append(f'({X.lstr(p.value)} : Str)')
                continue
            if not isinstance(p, ast.FormattedValue) or p.conversion != -1:
                self.fail(node, f'f-string part `{ast.unparse(p)[:40]}` (conversions like !r are outside the subset)')
            if isinstance(p.value, ast.Name) and p.value.id == 'self':
                self.fail(node, 'f-string field `{self}` (goes through __format__/__str__)')
            v = self.expr(p.value, env)
            if p.format_spec is None:
                if v.type == 'Int':
                    parts.append(f'(strInt {v.lean})')
                elif v.type == 'Str':
                    parts.append(v.lean)
                else:
                    self.fail(node, f'f-string field of type {v.type}')
                continue
            spec = p.format_spec.values
            ok = (len(spec) == 1 and isinstance(spec[0], ast.Constant) and isinstance(spec[0].value, str)
                  and len(spec[0].value) >= 2 and spec[0].value[0] == '0' and spec[0].value[1:].isdigit()
                  and spec[0].value[1] != '0' and spec[0].value.isascii())
            if not ok or v.type != 'Int':
                self.fail(node, f'format spec `{ast.unparse(p)}` (only {{x:0N}} on an int)')
            parts.append(f'(fmtZ {int(spec[0].value[1:])} {v.lean})')
        return V('(' + ' ++ '.join(parts) + ')' if parts else '([] : Str)', 'Str', None)

    def e_Call(self, node, env):
        if node.keywords:
            self.fail(node, f'call with keyword arguments `{ast.unparse(node)[:50]}`')
        fn = node.func
        if isinstance(fn, ast.Attribute):
            if fn.attr == 'encode' and len(node.args) == 1 and isinstance(node.args[0], ast.Constant) \
                    and node.args[0].value == 'utf-8':
                v = self.expr(fn.value, env)
                if v.type != 'Str':
                    self.fail(node, f'.encode on a value of type {v.type}')
                return V(v.lean, 'Bytes', None)
            self.fail(node, f'method call `.{fn.attr}(...)`')
        if not isinstance(fn, ast.Name):
            self.fail(node, f'call `{ast.unparse(node)[:50]}`')
        if fn.id in env:
            self.fail(node, f'call of the local variable `{fn.id}`')
        if fn.id in self.t.externals:
            args, res, typ = self.t.externals[fn.id]
            got = [self.expr(a, env).lean for a in node.args]
            if got != args:
                self.fail(node, f'external call {fn.id}({", ".join(got)}): expected arguments {args}')
            return self.param(res, typ)
        if fn.id in ('str', 'int', 'abs') and fn.id in self.modnames:
            self.fail(node, f'`{fn.id}` is rebound at module level ({self.modnames[fn.id]})')
        if fn.id == 'timedelta' and self.modnames.get('timedelta') != 'datetime.timedelta':
            self.fail(node, '`timedelta` is not `from datetime import timedelta`')
        if fn.id == 'timedelta' and len(node.args) == 1 and isinstance(node.args[0], ast.Constant) \
                and type(node.args[0].value) is int and node.args[0].value == 0:
            return V('TD.zero', 'TD', None)
        if fn.id in ('str', 'int', 'abs') and len(node.args) == 1:
            arg = node.args[0]
            v = self.expr(arg, env)
            if isinstance(arg, ast.Name) and arg.id == 'self':
                if fn.id == 'str' and any(isinstance(s, ast.FunctionDef) and s.name == '__str__' for s in self.cls.body):
                    d = self.registry.get((self.t.cls, '__str__'))
                    if d is None:
                        self.fail(node, f'str(self): {self.t.cls}.__str__ is not translated')
                    for p in d.params:
                        self.param(*p)
                    return V('(' + ' '.join([d.lean] + [p[0] for p in d.params]) + ')', d.rtype, None)
                self.builtin_method_ok(node, *{'str': ('__str__', '__repr__'), 'abs': ('__abs__',),
                                               'int': ('__int__', '__index__', '__trunc__')}[fn.id])
            if fn.id == 'str' and v.type == 'Str':
                return V(v.lean, 'Str', v.lits)
            if v.type == 'Int':
                return {'str': V(f'(strInt {v.lean})', 'Str', None), 'int': v,
                        'abs': V(f'(pyAbs {v.lean})', 'Int', None)}[fn.id]
            self.fail(node, f'{fn.id}() of a value of type {v.type}')
        self.fail(node, f'call `{ast.unparse(node)[:50]}`')

    # ------------------------------------------------------------ statements

    def bind(self, env, name, v):
        env = dict(env)
        env[name] = V(lname(name), v.type, v.lits)
        return env, f'let {lname(name)} : {LEAN_TYPE[v.type]} := {v.lean}'

    def block(self, stmts, env, tail):
        """lines of a Lean term: run `stmts`, then continue with `tail`; `return e` ends the function"""
        if not stmts:
            return tail.make(env)
        s, rest = stmts[0], stmts[1:]
        if isinstance(s, ast.Pass) or (isinstance(s, ast.Expr) and isinstance(s.value, ast.Constant)
                                       and isinstance(s.value.value, str)):
            return self.block(rest, env, tail)
        if isinstance(s, ast.Return):
            if s.value is None:
                self.fail(s, 'bare return')
            # statements after a `return` never run (they are there when the rest of the function was appended to
            # a branch that already returned): dropped
            v = self.expr(s.value, env)
            if v.type not in ('Str', 'Bytes', 'Int', 'Bool'):
                self.fail(s, f'return of a value of type {v.type}')
            if self.rtype not in (None, v.type):
                self.fail(s, f'returns both {self.rtype} and {v.type}')
            self.rtype = v.type
            return [v.lean]
        if isinstance(s, ast.Assign) and len(s.targets) == 1 and isinstance(s.targets[0], ast.Name):
            env, line = self.bind(env, s.targets[0].id, self.expr(s.value, env))
            return [line] + self.block(rest, env, tail)
        if isinstance(s, ast.Assign) and len(s.targets) == 1 and isinstance(s.targets[0], ast.Tuple) \
                and isinstance(s.value, ast.Tuple) and len(s.value.elts) == len(s.targets[0].elts) \
                and all(isinstance(t, ast.Name) for t in s.targets[0].elts):
            vals = [self.expr(e, env) for e in s.value.elts]      # the right side is evaluated first
            lines = []
            for i, v in enumerate(vals):
                self.fresh += 1
                lines.append(f"let t{self.fresh}' : {LEAN_TYPE[v.type]} := {v.lean}")
                vals[i] = V(f"t{self.fresh}'", v.type, v.lits)
            for t, v in zip(s.targets[0].elts, vals):
                env, line = self.bind(env, t.id, v)
                lines.append(line)
            return lines + self.block(rest, env, tail)
        if isinstance(s, ast.AugAssign) and isinstance(s.target, ast.Name):
            if s.target.id not in env:
                self.fail(s, f'augmented assignment to unbound `{s.target.id}`')
            v = self.binop(s, s.op, env[s.target.id], self.expr(s.value, env), s.value)
            env, line = self.bind(env, s.target.id, v)
            return [line] + self.block(rest, env, tail)
        if isinstance(s, ast.If):
            return self.if_(s, rest, env, tail)
        self.fail(s, f'statement {type(s).__name__}: `{ast.unparse(s).splitlines()[0][:50]}`')

    def if_(self, s, rest, env, tail):
        c = self.test(s.test, env)
        ind = lambda ls: ['  ' + x for x in ls]   # noqa: E731
        if has_return([s]):
            a = self.block(s.body + rest, env, tail)
            b = self.block(s.orelse + rest, env, tail)
            return [f'if {c} then'] + ind(a) + ['else'] + ind(b)
        later = reads(rest) | set(tail.names)
        merged = [n for n in assigned(s.body + s.orelse) if n in later]
        ends = []

        def make(e):
            for n in merged:
                if n not in e:
                    self.fail(s, f'`{n}` is read later but bound on one path only')
            ends.append([e[n] for n in merged])
            return ['(' + ', '.join(e[n].lean for n in merged) + ')'] if merged else ['()']
        self.fresh += 1
        m = f"m{self.fresh}'"
        a = self.block(s.body, env, Tail(merged, make))
        b = self.block(s.orelse, env, Tail(merged, make))
        if not merged:          # no effect on what follows (the branches were still checked against the subset)
            return self.block(rest, env, tail)
        for n, x, y in zip(merged, ends[0], ends[1]):
            if x.type != y.type:
                self.fail(s, f'`{n}` is {x.type} on one path and {y.type} on the other')
        typ = ' × '.join(LEAN_TYPE[x.type] for x in ends[0])
        lines = [f'let {m} : {typ} := (', f'  if {c} then'] + ind(ind(a)) + ['  else'] + ind(ind(b))
        lines[-1] += ')'
        for i, (n, x, y) in enumerate(zip(merged, ends[0], ends[1])):
            proj = m if len(merged) == 1 else m + ''.join(['.2'] * i) + ('.1' if i < len(merged) - 1 else '')
            lits = x.lits | y.lits if x.lits is not None and y.lits is not None else None
            env, line = self.bind(env, n, V(proj, x.type, lits))
            lines.append(line)
        return lines + self.block(rest, env, tail)

    def translate(self):
        a = self.func.args
        if [x.arg for x in a.args] != ['self'] or a.vararg or a.kwarg or a.kwonlyargs or a.posonlyargs:
            self.fail(self.func, 'signature other than (self)')
        if self.func.decorator_list:
            self.fail(self.func, 'decorated function')

        def off_end(env):
            self.fail(self.func, 'a path reaches the end of the function without `return`')
        body = self.block(self.func.body, {}, Tail([], off_end))
        return body


# ---------------------------------------------------------------- driver

PARAM_DOC = {'TD': 'timedelta, whole seconds', 'PyDate': 'date: year month day', 'OptStr': 'str or None',
             'PyDateTime': 'datetime: year month day hour minute second', 'Int': 'int', 'Bool': 'bool', 'Str': 'str'}


def comment_safe(s):
    return s.replace('-/', '- /').replace('/-', '/ -')


def translate(src_dir):
    out = ['/- GENERATED by tools/py2lean.py (called from tools/extract.py) from the function bodies in',
           '   src/icalendar. Do not edit: regenerated on every run; lean/ICal/Lemmas/Bodies.lean proves each',
           '   definition equal to the hand-written model.',
           '   Conventions: str = code points (Str); a bytes value is represented by the str it encodes, so',
           "   `.encode('utf-8')` is the identity and bytes literals are ASCII; int = Int; `//`, `%`, truthiness,",
           '   `{x:0N}`, `%s` and timedelta are the definitions of ICal/Model/PyRT.lean.  Every `self.<attr>` and',
           '   every call of external code is a PARAMETER of the definition, named in its comment. -/',
           'import ICal.Model.PyRT', 'namespace ICal.Gen.Bodies', 'open ICal ICal.PyRT', '']
    fps, registry, trees = {}, {}, {}
    for t in TARGETS:
        if t.file not in trees:
            trees[t.file] = X.parse(os.path.join(src_dir, t.file))
        qual = f'{t.file[:-3]}.{t.cls}.{t.fn}'
        try:
            cls = X.find_class(trees[t.file], t.cls)
            func = X.find_func(trees[t.file], t.fn, t.cls)
        except X.Untranslatable as e:
            raise Untranslatable(f'{qual}: {e}')
        fp = X.fingerprint(func)
        fps[qual] = fp
        fn = Fn(t, cls, func, registry, module_bindings(trees[t.file]))
        try:
            body = fn.translate()
        except Untranslatable as e:
            if not t.optional:
                raise
            out += [f'/- NOT TRANSLATED `{qual}` (AST fingerprint {fp}): outside the subset:',
                    f'   {comment_safe(str(e))} -/', '']
            continue
        registry[(t.cls, t.fn)] = Done(t.lean, list(fn.used), fn.rtype)
        src_of = {p: f'self.{a}' for a, (p, _) in t.self_attrs.items()}
        src_of.update({res: f'{f}({", ".join(args)})' for f, (args, res, _) in t.externals.items()})
        src_of['self'] = f'self (a {t.cls} is an int)'
        pdoc = '; '.join(f'`{p}` = `{src_of[p]}` ({PARAM_DOC[ty]})' for p, ty in fn.used) or 'none'
        out.append(f'/-- `{qual}` (AST fingerprint {fp}).  Parameters: {comment_safe(pdoc)}.')
        out.append(f'    Returns {"bytes (as the str they encode)" if fn.rtype == "Bytes" else fn.rtype.lower()}. -/')
        sig = ''.join(f' ({p} : {LEAN_TYPE[ty]})' for p, ty in fn.used)
        out.append(f'def {t.lean}{sig} : {LEAN_TYPE[fn.rtype]} :=')
        out += ['  ' + ln for ln in body]
        out.append('')
    out.append('end ICal.Gen.Bodies')
    return '\n'.join(out) + '\n', fps


def main(argv):
    src = argv[argv.index('--src') + 1] if '--src' in argv else X.SRC
    try:
        text, fps = translate(src)
    except (X.Untranslatable, SyntaxError, OSError) as e:
        print(f'{type(e).__name__}: {e}', file=sys.stderr)
        return 3
    if '--out' in argv:
        X.write_if_changed(argv[argv.index('--out') + 1], text)
    else:
        sys.stdout.write(text)
    return 0


if __name__ == '__main__':
    sys.exit(main(sys.argv[1:]))
