#!/venv/bin/python
"""Write MANIFEST.json from the table below (one place to edit; keeps the file schema-valid)."""
import json, os, sys
VERIF = os.path.dirname(os.path.dirname(os.path.abspath(__file__)))

ENGINE = 'lean4-model+correspondence'

# id -> (technique, level text, level note, design section)
CLAIMED = {
 'C02': ('Lean 4 proof (kernel-decided finite table over the translated types_map; induction over add sequences; composition with the C01 theorems) + differential correspondence',
         'Theorems: every one of the 46 RFC 5545 property names is decoded with its RFC default type (types_table, '
         'decide +kernel over Gen.typesMap/typeRegistry, re-decided against prop.py on every run); an untyped value is '
         'encoded by the class the parser picks; VALUE=DATE/PERIOD derivation for scalars and for uniform lists of any '
         'length; a zoned scalar, period and single-zone list carry TZID = their zone; UTC forcing for the generated '
         'add names; parameter merge (None deletes); values of one name accumulate in insertion order and the entry is '
         'a list exactly when expected; a tree built by scalar add calls lies in the C01 well-formedness domain, hence '
         'to_ical succeeds and from_ical returns the tree (api_roundtrip, relative to the decoder fixpoints of C03). '
         'Recorded findings are decide witnesses refuting the full statements (absolute TRIGGER without VALUE, mixed-zone '
         'list, one-element list, VALUE ignored on parse for BINARY/BOOLEAN).',
         'Component.add is regenerated from the source by tools/py2lean.py and proved equal to the hand model addProp (body_component_add). '
         'Trusted: Lean kernel; tools/extract.py (cross-checked against the live tables each run); hand model of '
         'Component._encode/add and of the value constructors tied by correspondence (every RFC name x value kind x '
         'parameter shape through add, item assignment, setters, both providers); the RFC 5545 name/type table is the '
         'spec side (written from the RFC); decoder fixpoints are hypotheses (C03 laws, float/base64/recur library calls).',
         'DESIGN.md 6/C02'),
 'C11': ('Lean 4 proof relative to explicit provider laws + exhaustive check of the laws on every zone id x both providers + differential correspondence',
         'Theorems for EVERY provider satisfying the stated laws (hypotheses, not axioms): a zoned date-time in one of '
         'the provider\'s zones is written as its wall fields with TZID = zone key and reads back as the same wall time '
         'and zone, hence the same offset; UTC is written with Z and no TZID and reads back in UTC; floating stays '
         'floating; single-zone lists and periods (both forms) likewise; a foreign tzinfo with a listed id reads back in '
         'the provider\'s zone of that id; DTSTAMP/CREATED/LAST-MODIFIED/ACKNOWLEDGED (generated add names) and the UTC '
         'setters write the Z-form of the same instant. The provider laws are the tz database: checked on the '
         'implementation for a seeded sample of ids (quick) / all ~600 ids x both providers (thorough) at every transition '
         '-1s/0/+1s, in gaps and folds. Mixed-zone lists/periods and zoned absolute TRIGGER are decide witnesses '
         '(recorded findings). Added: zoned_roundtrip_offset (the read-back value has the written zone id and the '
         'instant wall - P.off z w, single value and one-item list), mixed_utc_zoned_witness (a UTC or floating item in '
         'a list with a zoned item is read in the list zone).',
         'vDDDLists.from_ical (no zone) and vDDDLists.to_ical are regenerated from the source by tools/py2lean.py and proved equal to the list structure of the hand model (body_vDDDLists_from_ical, body_vDDDLists_to_ical). '
         'Trusted: Lean kernel; tools/extract.py (add names, datetime names); hand model of TZID derivation and '
         'vDatetime.to_ical/from_ical tied by correspondence; provider laws not provable (checked); the seconds<->calendar conversion is proved total and exact on '
         'years 1-9999 (Lemmas/Civil.lean: toDays_ofDays, ofSec_isSome_iff).',
         'DESIGN.md 6/C11'),
 'C19': ('Lean 4 proof (composition of the C03 part codecs, C07 escaping and C17 canonsort over the translated vRecur tables) + differential correspondence + dateutil cross-check',
         'Theorems for every rule of the stated domain: from_ical(to_ical r) = the same parts with the same typed values '
         'in canonical order (FREQ/weekday texts upper-cased), the text is a fixpoint, FREQ comes first (after an '
         'optional RSCALE) - via canonsort_spec over Gen.recurCanonicalOrder -, the text matches a recogniser of the RFC '
         '5545/7529 RECUR grammar, every RFC-admissible typed value is written in its part\'s value grammar, and any '
         'expander that is a function of the typed parts computes the same occurrences from the decoded text as from '
         'the supplied rule. The remaining assumption (dateutil.rrulestr is such a function) is checked by comparing '
         'rrulestr(text) with rrule(**parts). Domain-boundary behaviours (text parts holding , ; =) are witnesses.',
         'vRecur.parse_type/from_ical/to_ical are regenerated from the source by tools/py2lean.py and proved equal to the hand model (body_vRecur_*). '
         'Trusted: Lean kernel; tools/extract.py (canonical_order, types); hand model of vRecur tied by correspondence '
         '(76 k cases quick, 1 M thorough); part codecs are the C03 models; dateutil is external.',
         'DESIGN.md 6/C19'),
 'C01': ('Lean 4 proof (mutual structural induction over the tree; stack-machine invariants) composed from the C05/C06/C08 line theorems + differential correspondence',
         'Theorems: for every well-formed tree (upper-cased distinct property names, values that are decoder '
         'fixpoints, a list entry iff >= 2 values), running the from_ical stack machine over the serialised items '
         'rebuilds exactly the tree with its properties in serialisation order (run_items, parse_ser_lines, multiple '
         'variant), the canonical ordering is idempotent and re-serialisation gives the same items, so '
         'parse-serialise-parse-serialise is stable (parse_ser_stable, reserialise_same); parse_toIcal composes all '
         'layers down to the folded text (lines_roundtrip, parts_fromParts, raw_value) for hazard-free items. Typed '
         'decoders and time-zone construction are abstract parameters (their own laws are C03 / C12). The model of the '
         'line loop is tied to cal.py by correspondence on fixtures, generated and mutated calendars with the real '
         'decoders supplying the decode table; types_map, datetime names, lenient classes are regenerated from source.',
         'Component.from_ical (the whole loop) is regenerated from the source by tools/py2lean.py on every run and proved equal to the hand model pstep/parseText (body_from_ical ...). '
         'Trusted: Lean kernel; tools/extract.py; hand model of Component.from_ical/add/to_ical tied by correspondence; '
         'decoders enter as a table computed by the real code; ASCII names; findings: value-unescape-nontext, '
         'param-escape-hazard, bare-cr-in-line, vtimezone-validated-only-at-matching-end.',
         'DESIGN.md 6/C01'),
 'C03': ('Lean 4 proof (arithmetic on decimal digits, div/mod, regex matcher models) + exhaustive/differential correspondence',
         'Theorems unbounded in the value: DATE, DATE-TIME (floating and Z), TIME (naive), DURATION (every Int second '
         'count), UTC-OFFSET (|s| < 24 h, never -0000), INTEGER (every Int), BOOLEAN, weekday, frequency, month, PERIOD '
         '(both forms): encode output is in the RFC 5545 grammar (recognisers written from the RFC) with the right '
         'value, every grammar-valid text decodes to its RFC value, decode(encode v) = v, and vDDDTypes.from_ical '
         'dispatches every grammar-valid text to the right decoder, the classes being pairwise disjoint. The TIME UTC '
         'flag loss is proved as a witness (full statements refuted). FLOAT, GEO, BINARY, URI, CAL-ADDRESS wrap '
         'float()/repr, base64 and str: outside the proof (assumed library laws), decided by correspondence/oracle.',
         'Function bodies of the encoders/decoders (vDuration, vUTCOffset, vDate, vDatetime, vTime.from_ical, vMonth, vBoolean, vInt) are regenerated from the source by tools/py2lean.py on every run and proved equal to the hand models (body_* theorems). '
         'Trusted: Lean kernel; tools/extract.py + tools/py2lean.py with Model/PyRT*.lean (run against CPython every check) (weekday/frequency tables, regex shapes); hand models of every '
         'to_ical/from_ical tied by correspondence (all 86 400 times, all offsets, year boundaries / all 3.65 M dates in '
         'thorough, durations, ints to 2^70, grammar-generated and malformed texts); CPython int() modelled for ASCII; '
         'datetime domain years 0001-9999, seconds 00-59.',
         'DESIGN.md 6/C03'),
 'C04': ('Lean 4 proof (stack-machine step lemmas lifted over line lists) + differential correspondence + exception/CPU search on the implementation',
         'Theorems for every state, line and continuation: a property line that cannot be split or decoded inside a '
         'lenient component changes nothing but that component\'s error list (vevent_isolation, on states, parses and '
         'trees); lenient means exactly VEVENT on the generated tables; the same line in a strict component, a property '
         'without parent, END without BEGIN, or END of a VTIMEZONE whose zone cannot be built makes the parse fail '
         '(ValueError), and these are the ONLY failure classes of the loop (step_failure_cases); single parse needs '
         'exactly one component. Exception classes raised inside CPython/library code, recursion and CPU time are '
         'runtime facts outside any model: the oracle searches them on the implementation (random bytes, token soup, '
         'mutated fixtures, nesting to 64, hostile TZIDs, malformed VTIMEZONEs, overflowing values, both providers).',
         'The regenerated from_ical loop is proved to raise ValueError only (body_raises_only_valueError, body_fails_iff). '
         'Trusted: Lean kernel; hand model of the from_ical loop tied by correspondence on the same hostile inputs; '
         'partial by nature for "raises nothing else / terminates" (search only).',
         'DESIGN.md 6/C04'),
 'C09': ('Lean 4 proof (scanner lemmas for unfold/split; closure under composition by induction over rewrite lists) + differential correspondence',
         'Theorems: CRLF->LF (for texts whose CRs are all followed by LF; counterexample otherwise), a leading BOM, any '
         'number of trailing blank lines, and ANY placement of folds (each with its own CR LF / LF + SP / HT separator) '
         'leave the unfolded line list unchanged, hence the parse; closure under every composition of these rewrites '
         '(compose_invariant_text, at most one BOM); upper/lower-casing of property names and of BEGIN/END and their '
         'values leaves every step of the parser unchanged (case_invariant, via forProperty and the generated '
         'uname-dispatch flags: a regression of the case fix breaks the proof); parse_invariant combines both. '
         'str-vs-bytes is UTF-8 decoding, outside the model, decided by the oracle under both providers.',
         'The regenerated from_ical loop is the object of parse_invariant (body_parse_invariant). '
         'Trusted: Lean kernel; tools/extract.py; hand models of uFOLD.sub / NEWLINE.split / the line loop tied by '
         'correspondence (incl. exhaustive strings <= 6 over {CR LF SP HT a}); parameter-name case via parts() '
         'upper-casing (concrete examples, correspondence); ASCII case mapping.',
         'DESIGN.md 6/C09'),
 'C12': ('Lean 4 proof (sortedness/lookup invariants over transition tables; cache state machine) + differential correspondence under both providers',
         'Theorems for the in-repo (pytz) path: with onsets further apart than the offset jump, get_transitions is '
         'sorted by UTC and the DstTzInfo lookup returns, for every instant after the first onset, the offset, name and '
         'zero DST of the observance with the latest onset (local - TZOFFSETFROM) not after it (rfc_onset_partial); the '
         'tz cache machine: a calendar whose VTIMEZONE precedes its uses and whose id is fresh gets its own definition; '
         'decide witnesses for the recorded findings (first-wins cache, definition after use, onsets closer than the '
         'jump). The zoneinfo path delegates to dateutil.tz.tzical (external): tied by correspondence and the oracle '
         'only - partial, named. Clause theorems added: offsets_rounded_to_minute, sort_is_the_sorted_permutation, '
         'onset_set_semantics (result depends on the SET of onsets only), local_sort_is_utc_sort, assertion_error_iff / '
         'assertion_error_iff_daylight_only (the AssertionError exactly), dst_amount_spec (DST amount by cases: nearest '
         'earlier STANDARD tuple, falsy zero searched again in the future), names_resolved (explicit TZNAME verbatim, '
         'generated names pairwise distinct), cache_reparse_idempotent, reparse_position_independent, '
         'reparse_differs_witness.',
         'The second half of Timezone.get_transitions (everything after transitions.sort()) is regenerated from the source by tools/py2lean.py as a fragment and proved equal to infoGo / dstOffset (body_get_transitions_info). '
         'Trusted: Lean kernel; hand models of _extract_offsets/get_transitions/lookup/cache tied by correspondence on '
         'generated VTIMEZONEs at each onset -1s/0/+1s under both providers; RRULE expansion is dateutil\'s.',
         'DESIGN.md 6/C12'),
 'C13': ('Lean 4 proof (search invariant over the generated step list; induction along the transition chain) + differential correspondence over all zones',
         'Theorems: the coarse-to-fine search over the step list regenerated from cal.py finds the next offset change '
         'exactly when the old offset does not return within the largest step (search_finds_next); along such a chain '
         'the generator emits exactly one segment per transition with the zone\'s offset, name and kind (gen_onset); '
         'the generated component is well-formed; read by RFC onset rules it equals the zone at every instant of the '
         'window outside the gap between a transition and its generated onset (gen_faithful_partial); the onset shift '
         'and the short-excursion loss are proved as decide witnesses (recorded findings). Applicability is decided per '
         'zone by a table check proved sound (chainOK_sound), not assumed. Clause theorems added, for every zone: '
         'gen_keys_unique (one sub-component per grouping key), gen_onsets_increasing(_zone) (DTSTART then RDATEs '
         'strictly increasing), gen_first_observance (TZOFFSETFROM = TZOFFSETTO convention at the window start), '
         'gen_onset_count / gen_onset_count_chain (onsets = 1 + offset changes in the window), regen_same_if_faithful '
         '(from_tzinfo reads the zone only on [first, H]: generating again is the same from any zone equal there); the '
         'regeneration clause at full strength on the UTC clock is regen_full, refuted by regen_shift_witness / '
         'regen_full_false (finding tzgen-onset-shift).',
         'Trusted: Lean kernel; tools/extract.py (step list); hand model of from_tzinfo tied by correspondence against '
         'Timezone.from_tzid for every zone id x both providers x 3 windows (thorough) / 40 zones (quick); tz database '
         'content is the provider\'s.',
         'DESIGN.md 6/C13'),
 'C07': ('Lean 4 proof (induction on the string) over the translated replace chain + differential correspondence',
         'Theorems for every string: decode(encode s) = norm s; the encoded form is in the escaped-token language (no raw LF, '
         'no unescaped ; or ,); CATEGORIES join/split is item-wise lossless. The replace chain and the decoder class are '
         'regenerated from parser.py on every run, so the proofs are re-checked against the current source; vText/vCategory '
         'glue and the property route are tied by exhaustive short-string and random correspondence. Clause pass (round 10): escape_delims_escaped (every ; and , of the encoded form stands after an odd run of backslashes), escape_no_crlf_bare_cr_kept, escape_injective_iff (encoder injective exactly up to norm), norm_idem_partial / norm_idem_full_false / second_roundtrip_witness (the normalisation is not a projection: CR CR LF), categories_roundtrip_iff / categories_empty_witness (fails exactly at the empty list).',
         'split_on_unescaped_comma is regenerated from the source by tools/py2lean.py and proved equal to the hand model (body_split_on_unescaped_comma). '
         'Trusted: Lean kernel; tools/extract.py + tools/py2lean.py with Model/PyRT*.lean (run against CPython every check); the hand-written single-pass scanner and split_on_unescaped_comma models '
         '(tied by correspondence on all strings <= 4 over the 14-character critical alphabet); UTF-8 only.',
         'DESIGN.md 6/C07'),
 'C06': ('Lean 4 proof (induction on the line; generic in the limit) + translated constants + differential correspondence',
         'Theorems for every line: foldline(l) is its segments joined by CR LF SP, the segments concatenate to l, every '
         'segment has at most 74 octets (so every physical line has at most 75, a continuation = one added space + a '
         'segment of whole characters), unfolding the folded line - or any other fold placement - restores l exactly; '
         'UTF-8 encoding distributes over the cuts; lines_roundtrip: unfolding and splitting the CRLF-joined folded lines of a component returns exactly its content lines. limit, separator and slice width are regenerated from parser.py each '
         'run; the theorem is generic in any limit >= 5, so benign retuning keeps the proof. Both foldline paths, the '
         'unfold scanner and the newline splitter are tied to the code by correspondence (every length 0..240/400 x '
         'widths 1..4, every boundary alignment, all strings <= 6 over {CR LF SP HT a} against Python re). Clause pass (round 10): fold_short_identity (lines of at most 74 octets are not folded), fold_75_is_folded, fold_adds_exactly (exactly CR LF SP per fold), unfold_keeps_own_space, lines_bytes and component_bytes (every physical line of Contentlines.to_ical and of Component.to_ical of any tree, either sorted flag, has at most 75 octets and is UTF-8 of whole characters).',
         'foldline (both paths) is regenerated from the source by tools/py2lean.py and proved equal to the hand model for every limit >= 2 (body_foldline_with, body_foldline). '
         'Trusted: Lean kernel; tools/extract.py + tools/py2lean.py with Model/PyRT*.lean (run against CPython every check); hand models of foldline (both paths), uFOLD.sub and NEWLINE.split tied '
         'by correspondence; Char.utf8Size as the octet count; python -O (assert stripped) not modelled; '
         'lines_roundtrip covers Contentlines.to_ical/from_ical for lines that start with a name character.',
         'DESIGN.md 6/C06'),
 'C05': ('Lean 4 proof (induction over the quote-aware scanners and the placeholder chains) + differential correspondence',
         'Theorems for every token name, every parameter map of the domain and EVERY value text without LF: '
         'parts(from_parts(n, p, v)) = (n, readBack p, viaPlaceholders v) where the only possible change is the '
         'placeholder pass (escape_string/unescape_string) applied to each string - so the name is always preserved, '
         'the set and number of parameter names is always preserved (no_param_injection: a value or parameter value can '
         'never add, drop or rename a parameter or the property name), a raw LF is refused, raw_value() returns the '
         'value text exactly, and under the decidable hazard-free hypothesis the join/split is the exact inverse. The '
         'recorded findings D02/D03 are precisely "viaPlaceholders is not the identity" (decide witnesses; the '
         'unrestricted inverse statement is refuted). Chains and character classes are regenerated from parser.py '
         'every run. Tree-level no-injection (components/properties) is decided by the oracle on the implementation.',
         'Contentline.parts (whole function), raw_value, escape_string, unescape_string are regenerated from the source by tools/py2lean.py and proved equal to the hand models (body_parts, body_raw_value, ...). '
         'Trusted: Lean kernel; tools/extract.py + tools/py2lean.py with Model/PyRT*.lean (run against CPython every check); hand models of Contentline.parts / from_parts / raw_value tied by '
         'correspondence (all lines <= 5 over {A ; : = " \\ , %}, hostile pieces in every position); ASCII names; '
         'python -O (assert stripped) not modelled; parameter values within the domain (no double quote, no control '
         'characters).',
         'DESIGN.md 6/C05'),
 'C08': ('Lean 4 proof (induction over the quote-aware scanner) over translated character classes + differential correspondence',
         'Theorems for every parameter map in the stated domain (any number of parameters, list and string lengths): '
         'Parameters.from_ical(Parameters.to_ical(m)) = canon m (upper-cased sorted keys, values and their order kept, a '
         'single string with a comma stays a single string); every value containing , ; : is emitted in double quotes; '
         'q_split inverts any quote-balanced join. QUOTABLE/UNSAFE/QUNSAFE classes and the dquote substitution are '
         'regenerated from parser.py every run. The in-line and on-a-component routes are tied by correspondence and '
         'decided by the oracle; there the recorded finding param-escape-hazard (backslash before , : ; \\ and literal '
         '%2C-style codes in parameter values) applies. Clause pass (round 10): params_no_bare_colon (no colon outside double quotes in the whole parameter text, for every value), params_roundtrip_unsorted (insertion order kept with sorted=False), params_name_case_write / params_name_case_read, one_element_list_same_text, comma_string_stays_single.',
         'dquote, q_join, q_split are regenerated from the source by tools/py2lean.py and proved equal to the hand models (body_dquote, body_q_join, body_q_split). '
         'Trusted: Lean kernel; tools/extract.py + tools/py2lean.py with Model/PyRT*.lean (run against CPython every check); hand models of q_split, dquote, Parameters.from_ical/to_ical tied by '
         'correspondence (all strings <= 5 over {" , ; = a}, all values <= 3 over a 14-character alphabet); ASCII names '
         '(Python \\w and str.upper are Unicode-aware: non-ASCII names / strict-mode values are skipped as unmodelled).',
         'DESIGN.md 6/C08'),
 'C17': ('Lean 4 proof (invariant + refinement by induction over operation lists) + differential correspondence',
         'Theorems for every operation history: the key invariant (distinct, upper-cased keys) holds in every reachable '
         'state; every step returns what an ordered dict keyed by the folded name returns and leaves the same store, '
         'first-insertion order included (refinement), outside the one recorded finding (pop of an absent name returns '
         'None); equality with any mapping of the same folded content in any order and case; canonsort = priority names '
         'in declared order then the rest sorted, invariant under permutation of the keys. upper is abstract with the '
         'single law upper(upper k) = upper k, checked for every code point of the running interpreter.',
         "The ten delegating CaselessDict methods and their keyword defaults are regenerated from the source by tools/py2lean.py and proved equal to the hand model's steps (body_cd_*). "
         'canonsort_keys (dict comprehension, filtered comprehensions, keyed stable sort) and CaselessDict.__init__ / update / copy are regenerated too and proved equal to canonsort / cdInit / cdUpdate / cdCopy (body_canonsort_keys, body_cd_init, body_cd_init_rekey, body_cd_update, body_cd_copy). '
         'Trusted: Lean kernel; hand model of every CaselessDict method (overridden and inherited) tied by correspondence '
         'against live CaselessDict, Parameters and Component objects (all sequences <= 2, sampled 3, random 30-step); '
         'str.upper idempotence (checked exhaustively each run).',
         'DESIGN.md 6/C17'),
 'C10': ('Lean 4 proof (mutual structural induction over the tree; permutation invariance of the sorts) + differential correspondence + subprocess hash-seed runs',
         'Theorems for every tree: with sorting on, the bytes are invariant under every permutation of the insertion '
         'order of distinct properties (at every depth) and of parameters, while values of one name and subcomponents '
         'keep their order (toIcal_insertion_order_free, params_perm, items_sorted_order); with sorting off the items '
         'are exactly in insertion order; the item sequence is a balanced, properly nested BEGIN/END sequence for trees '
         'without a property named BEGIN/END (recorded finding + decide witness); add_missing_timezones is independent '
         'of the enumeration order of the missing-id set. canonical_order tables are regenerated from cal.py each run. '
         'Idempotence/purity are structural in the model (the serialiser is a function returning text) and are checked '
         'on the implementation by the oracle (bytes twice, tree before/after) and by subprocess runs under different '
         'PYTHONHASHSEED values.',
         'property_items, content_line, content_lines, to_ical are regenerated from the source by tools/py2lean.py and proved equal to the hand model (body_property_items ...). '
         'Trusted: Lean kernel; tools/extract.py; hand model of property_items / content_line / to_ical tied by '
         'correspondence on fixtures and generated trees (sorted on and off); the class of a component is taken from its '
         'name through ComponentFactory; the interpreter\'s hashing itself is not modelled.',
         'DESIGN.md 6/C10'),
 'C20': ('Lean 4 proof (mutual structural induction; completeness of the greedy matching) + differential correspondence',
         'Theorems for every tree: walk is the pre-order, visits every position exactly once, and with a name/predicate '
         'is the filter of the pre-order (name matched through upper-casing); events/todos/timezones are the filters by '
         'kind; component equality (with value equality abstract, assumed an equivalence) is reflexive, symmetric, '
         'transitive, invariant under permutation of subcomponents and of property insertion order, and false whenever '
         'the kind, a property value, the number or the multiset of subcomponents differs (eq_multiset: equality iff '
         'names equal, property maps equal and the subcomponent lists match one-to-one). Non-components, key case and '
         'copy mechanics (deepcopy, pickle, reparse) are decided by the oracle on the implementation. Clause pass (round 10): eq_congr_perm (congruence under permutation, giving order-insensitivity at every depth level by level), eq_perm_depth2.',
         'Component._walk/walk are regenerated from the source by tools/py2lean.py and proved equal to the hand model (body_walk). '
         'Trusted: Lean kernel; hand models of _walk and __eq__ tied by correspondence (generated trees, permutations, '
         'perturbations, both providers); value equality instantiated structurally in the driver and validated by '
         'correspondence; pickle/deepcopy are interpreter mechanisms checked by the oracle only.',
         'DESIGN.md 6/C20'),
 'C18': ('Lean 4 proof (structural induction over the tree; counting) + differential correspondence',
         'Theorems for every calendar tree: the used set is exactly the TZID parameters of every value of every '
         'property of every nested component (every element of a multi-valued parameter); missing = used minus the '
         'VTIMEZONE names present, total (never an error); after add-missing every used, known, previously absent id '
         'has exactly one VTIMEZONE, present ones are untouched, unknown ids stay missing, the used set is unchanged, and '
         'a second call changes nothing. Provider knowledge is an abstract predicate. Clause pass (round 10): add_missing_repeat (any number n+1 of calls = one call), unknown_stay_missing (after any number of calls), add_missing_repeat_closes.',
         'Calendar.timezones, get_used_tzids, get_missing_tzids, add_missing_timezones are regenerated from the source by tools/py2lean.py (Python sets as duplicate-free lists, compared sorted) and proved equal to the hand model (body_timezones, body_get_used_tzids, body_get_missing_tzids, body_add_missing_timezones). '
         'Trusted: Lean kernel; hand models of get_used_tzids / get_missing_tzids / add_missing_timezones tied by '
         'correspondence (calendars with used, unused, unknown, duplicate and TZID-less VTIMEZONEs, repeated calls); the '
         'content of a generated VTIMEZONE is C13.',
         'DESIGN.md 6/C18'),
 'C16': ('Lean 4 proof (invariant by induction over setter/deleter histories; case analysis of the getters) + differential correspondence',
         'Theorems for every history and every stored state: after any sequence of setter/deleter calls never both the '
         'end property and DURATION; whenever start and end are defined end = start + DURATION, = start + 1 day for a '
         'date-only start, = start for a date-time-only start, duration = end - start; every getter error is '
         'InvalidCalendar or IncompleteComponent and every setter error TypeError; each forbidden state (both end and '
         'DURATION, date/date-time mismatch, floating/zoned mismatch, time-of-day DURATION on a date, wrong-typed entry) '
         'is reported by start, end and duration alike; Journal statements. add() can create a both-present state '
         '(witness), so exclusivity is stated for setter/deleter histories and "reported" for arbitrary states.',
         '_get_start_end_duration, start, end, duration, is_date are regenerated from the source by tools/py2lean.py and proved equal to the hand model (body_get_start_end_duration ...). '
         'The setter / deleter closures p_set / p_del of create_single_property and _set_duration / _del_duration are regenerated too and proved equal to pSet / setDuration / the deleter step (body_p_set, body_p_del, body_set_duration, body_del_duration, body_step, body_step_excl); the getter closure p_get and _get_duration stay hand-modelled. '
         'Trusted: Lean kernel; hand model of the descriptors and getters tied by correspondence (all op sequences <= 2 '
         'over every accessor x argument kind x Event/Todo/Journal, random 3-8 step histories, parsed property '
         'combinations, both providers); zone offsets are inputs of the model (taken from the provider per value).',
         'DESIGN.md 6/C16'),
 'C14': ('Lean 4 proof (list induction; arithmetic over Int instants) + differential correspondence',
         'Theorems over all Int instants and all alarm lists: the computed times are, alarm by alarm, '
         '[(anchor + T) + k*D | k <= R] for relative triggers (anchor = start, or end unless RELATED is START in any '
         'case) and [T + k*D] for absolute ones, R = REPEAT when DURATION is present else 0; alarms without TRIGGER '
         'contribute nothing; Alarm.triggers (cumulative) and Alarms.times (multiplicative) agree; absolute alarms do '
         'not depend on start/end and are always computed; errors are exactly ComponentStartMissing/ComponentEndMissing '
         'when a needed anchor is absent. + is exact elapsed time (pytz/UTC/fixed offsets); zoneinfo wall-clock '
         'arithmetic across a DST change is characterised (wallclock_exact_iff) and is a recorded finding.',
         'Alarms._add/_repeat/times/add_component and the setters are regenerated from the source by tools/py2lean.py and proved equal to the hand model (11 body_* theorems). '
         'Trusted: Lean kernel; hand model of alarms.py tied by correspondence (events/todos x start/end kinds x alarm '
         'lists, API-built and parsed, both providers, instants clustered at DST changes); start/end are inputs here '
         '(their derivation is C16); provider localize tabulated per case.',
         'DESIGN.md 6/C14'),
 'C15': ('Lean 4 proof (decision logic over Int instants, all orderings incl. ties) + differential correspondence',
         'Theorems over all Int instants: acknowledged-until is the later of the two acknowledgements; active iff '
         'nothing acknowledged, or snoozed past the acknowledgement, or trigger later than it; a snooze later than the '
         'trigger moves the reported trigger; the active list is a sublist of all times; a later acknowledgement never '
         'activates an alarm (alarm-level and component-level); the only error is LocalTimezoneMissing and only for '
         'floating/date triggers without a local time zone; DTSTAMP vs X-MOZ-LASTACK/SNOOZE wiring. Clause pass (round 10): active_decision_table (is_active as one total function of the four optional instants for an aware trigger), active_equalities (boundary rows), ack_monotone_both (both acknowledgements move later), snooze_reported (reported trigger = later of trigger and snooze).',
         'AlarmTime.acknowledged/trigger/is_active and Alarms.active are regenerated from the source by tools/py2lean.py and proved equal to the hand model (body_alarmtime_*). '
         'Trusted: Lean kernel; hand model of AlarmTime/Alarms tied by correspondence (every ordering-with-ties of '
         'trigger, alarm ack, component ack, snooze, each possibly absent x trigger kind x local tz x Thunderbird, API '
         'and parsed, both providers).',
         'DESIGN.md 6/C15'),
}

PENDING = 'check not built yet in this session; design in DESIGN.md section 6 (work in progress, not a claim)'

def main():
    props = [json.loads(l)['id'] for l in open(os.path.join(VERIF, 'properties.jsonl'))]
    checks = []
    na = []
    for pid in props:
        if pid in CLAIMED and os.path.exists(os.path.join(VERIF, 'harness', 'props', pid + '.py')):
            tech, text, note, ref = CLAIMED[pid]
            checks.append({
                'property_id': pid,
                'quick_cmd': f'./check {pid} --tier quick',
                'thorough_cmd': f'./check {pid} --tier thorough',
                'evidence_file': f'evidence/{pid}.json',
                'replay_cmd_template': f'./check {pid} --replay {{path}}',
                'engine': ENGINE,
                'level_claimed': {'category': 'proof', 'text': text, 'design_ref': ref},
                'level_note': note,
                'technique': tech,
            })
        else:
            na.append({'property_id': pid, 'reason': PENDING})
    m = {
        'version': 1,
        'setup_cmd': './setup.sh',
        'hooks': {
            'guard': 'ICALENDAR_VERIF',
            'enable': 'none needed: the checks observe public API and module attributes only; no hook commits in /repo',
            'baseline_off_cmd': 'cd /repo && /venv/bin/python -m pytest -q -p no:cacheprovider --timeout=900 --continue-on-collection-errors',
            'source_commits': [],
            'add_only': True,
        },
        'engines': [{
            'name': ENGINE, 'path': 'check',
            'serves_properties': [c['property_id'] for c in checks],
            'kind_free_text': 'Lean 4 theorems about an executable model (lean/ICal); model tied to /repo on every run by '
                              'a source-to-Lean translator for declarative code (tools/extract.py) and a differential '
                              'correspondence run for control flow (harness/), with a property oracle on the '
                              'implementation as failing-input search',
        }],
        'checks': checks,
        'not_applicable': na,
        'notes': 'See DESIGN.md. KNOWN_FINDINGS.txt lists recorded findings and fix: commits. exit 2 = infrastructure failure.',
    }
    with open(os.path.join(VERIF, 'MANIFEST.json'), 'w') as f:
        json.dump(m, f, indent=1)
    print('claimed', [c['property_id'] for c in checks], 'pending', len(na))

main()
