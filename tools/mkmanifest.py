#!/venv/bin/python
"""Write MANIFEST.json from the table below (one place to edit; keeps the file schema-valid)."""
import json, os, sys
VERIF = os.path.dirname(os.path.dirname(os.path.abspath(__file__)))

ENGINE = 'lean4-model+correspondence'

# id -> (technique, level text, level note, design section)
CLAIMED = {
 'C07': ('Lean 4 proof (induction on the string) over the translated replace chain + differential correspondence',
         'Theorems for every string: decode(encode s) = norm s; the encoded form is in the escaped-token language (no raw LF, '
         'no unescaped ; or ,); CATEGORIES join/split is item-wise lossless. The replace chain and the decoder class are '
         'regenerated from parser.py on every run, so the proofs are re-checked against the current source; vText/vCategory '
         'glue and the property route are tied by exhaustive short-string and random correspondence.',
         'Trusted: Lean kernel; tools/extract.py; the hand-written single-pass scanner and split_on_unescaped_comma models '
         '(tied by correspondence on all strings <= 4 over the 14-character critical alphabet); UTF-8 only.',
         'DESIGN.md 6/C07'),
}

PENDING = 'check not built yet in this session; design in DESIGN.md section 6 (work in progress, not a claim)'

def main():
    props = [json.loads(l)['id'] for l in open(os.path.join(VERIF, 'properties.jsonl'))]
    checks = []
    na = []
    for pid in props:
        if pid in CLAIMED and os.path.exists(os.path.join(VERIF, 'harness', 'props', pid + '.py')):
            tech, text, note, ref = CLAIMED[pid]
            checks.append({
                'property_id': pid,
                'quick_cmd': f'./check {pid} --tier quick',
                'thorough_cmd': f'./check {pid} --tier thorough',
                'evidence_file': f'evidence/{pid}.json',
                'replay_cmd_template': f'./check {pid} --replay {{path}}',
                'engine': ENGINE,
                'level_claimed': {'category': 'proof', 'text': text, 'design_ref': ref},
                'level_note': note,
                'technique': tech,
            })
        else:
            na.append({'property_id': pid, 'reason': PENDING})
    m = {
        'version': 1,
        'setup_cmd': './setup.sh',
        'hooks': {
            'guard': 'ICALENDAR_VERIF',
            'enable': 'none needed: the checks observe public API and module attributes only; no hook commits in /repo',
            'baseline_off_cmd': 'cd /repo && /venv/bin/python -m pytest -q -p no:cacheprovider --timeout=900 --continue-on-collection-errors',
            'source_commits': [],
            'add_only': True,
        },
        'engines': [{
            'name': ENGINE, 'path': 'check',
            'serves_properties': [c['property_id'] for c in checks],
            'kind_free_text': 'Lean 4 theorems about an executable model (lean/ICal); model tied to /repo on every run by '
                              'a source-to-Lean translator for declarative code (tools/extract.py) and a differential '
                              'correspondence run for control flow (harness/), with a property oracle on the '
                              'implementation as failing-input search',
        }],
        'checks': checks,
        'not_applicable': na,
        'notes': 'See DESIGN.md. KNOWN_FINDINGS.txt lists recorded findings and fix: commits. exit 2 = infrastructure failure.',
    }
    with open(os.path.join(VERIF, 'MANIFEST.json'), 'w') as f:
        json.dump(m, f, indent=1)
    print('claimed', [c['property_id'] for c in checks], 'pending', len(na))

main()
