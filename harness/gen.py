"""Seeded generators shared by the property modules."""
import itertools

TEXT_ALPHABET = ['\\', 'n', 'N', ';', ',', ':', '"', '%', '2', 'C', '\r', '\n', ' ', 'a']
WIDE = ['é', 'ß', '€', '中', '\u2028', '\x85', '😀', '\U0001F600', '\x0b', '\x0c', '\x1c', '\t', '\x7f', '’', "'", '=', '^',
        # invisible / space-like / combining code points: content like any other (a leading U+FEFF is not a BOM inside a value)
        '\ufeff', '\u00a0', '\u3000', '\u200b', '\u2000', '\u0301', '\u1680']


def all_strings(alphabet, maxlen):
    for n in range(maxlen + 1):
        for t in itertools.product(alphabet, repeat=n):
            yield ''.join(t)


def rand_text(rng, maxlen=200, alphabet=None, wide=0.15):
    alphabet = alphabet or TEXT_ALPHABET
    n = rng.choice([0, 1, 2, 3, 5, 8, 13, 30, 74, 75, 76, 100, maxlen]) if rng.random() < 0.5 else rng.randint(0, maxlen)
    out = []
    for _ in range(n):
        r = rng.random()
        if r < wide:
            out.append(rng.choice(WIDE))
        elif r < wide + 0.1:
            out.append(chr(rng.choice([rng.randint(0x20, 0x7e), rng.randint(0xa0, 0x2fff), rng.randint(0x10000, 0x10ffff)])))
        else:
            out.append(rng.choice(alphabet))
    if out and rng.random() < 0.06:
        out[rng.choice([0, 0, len(out) - 1])] = rng.choice(['\ufeff', '\u00a0', '\u3000', '\u2000'])
    return ''.join(out)
