"""Line protocol shared with lean/ICal/Driver/Proto.lean, and the model process."""
import os
import subprocess
import tempfile

VERIF = os.path.dirname(os.path.dirname(os.path.abspath(__file__)))
EXE = os.path.join(VERIF, 'lean', '.lake', 'build', 'bin', 'icalmodel')


def enc(s):
    """str -> comma separated code points"""
    if isinstance(s, bytes):
        s = s.decode('utf-8')
    return ','.join(str(ord(c)) for c in s)


def dec(f):
    return '' if f == '' else ''.join(chr(int(x)) for x in f.split(','))


def encl(xs):
    return str(len(xs)) + ''.join('|' + enc(x) for x in xs)


def decl(f):
    parts = f.split('|')
    return [dec(p) for p in parts[1:]]


def encb(b):
    return ','.join(str(x) for x in b)


def decb(f):
    return b'' if f == '' else bytes(int(x) for x in f.split(','))


def has_surrogate(s):
    return any(0xD800 <= ord(c) <= 0xDFFF for c in s)


class ModelUnavailable(Exception):
    pass


def run_model(lines):
    """Feed op lines to the Lean driver; return one output line per input line."""
    if not lines:
        return []
    if not os.path.exists(EXE):
        raise ModelUnavailable(EXE + ' not built')
    with tempfile.TemporaryDirectory(prefix='icalverif-') as td:
        inp = os.path.join(td, 'in')
        with open(inp, 'w', encoding='ascii') as f:
            for ln in lines:
                assert '\n' not in ln
                f.write(ln + '\n')
        with open(inp, 'rb') as f:
            p = subprocess.run([EXE], stdin=f, stdout=subprocess.PIPE, stderr=subprocess.PIPE)
    if p.returncode != 0:
        raise ModelUnavailable(f'driver exit {p.returncode}: {p.stderr[-400:]!r}')
    out = p.stdout.decode('ascii').split('\n')
    if out and out[-1] == '':
        out.pop()
    if len(out) != len(lines):
        raise ModelUnavailable(f'driver produced {len(out)} lines for {len(lines)} inputs')
    return out
