"""Correspondence of Component.from_ical / to_ical with the Lean stack machine and serialiser.
Typed decoding is supplied to the model as a table computed by the real decoders (the decoders
themselves are the subject of C03)."""
import re

from .proto import enc, has_surrogate
from .trees import enc_pval, enc_tree, tree_of, value_text


def _tz_key(tz):
    if tz is None:
        return '-'
    if isinstance(tz, (list, tuple)):
        return enc_pval(('n', [str(x) for x in tz]))
    return enc_pval(('1', str(tz)))


def _decode(factory, text, tz):
    try:
        v = factory(factory.from_ical(text, tz)) if tz is not None else factory(factory.from_ical(text))
    except ValueError:
        return '!'
    except Exception as e:  # noqa: BLE001
        return '=' + enc('\x00raised-' + type(e).__name__)
    return '=' + enc(value_text(v))


def dec_table(data):
    """all (kind, text, tz) queries the loop could make for this input, answered by the real decoders"""
    from icalendar.cal import types_factory
    from icalendar.parser import Contentlines
    entries = {}
    try:
        lines = Contentlines.from_ical(data)
    except ValueError:
        return ''
    for line in lines:
        if not line:
            continue
        try:
            name, params, vals = line.parts()
        except ValueError:
            continue
        if name.upper() in ('BEGIN', 'END'):
            continue
        factory = types_factory.for_property(name)
        kind = factory.__name__
        texts = {vals, line.raw_value()} | set(vals.split(','))
        tzs = [None]
        if 'TZID' in params:
            tzs.append(params['TZID'])
        for t in texts:
            if has_surrogate(t):
                continue
            for tz in tzs:
                key = (kind, t, _tz_key(tz))
                if key in entries:
                    continue
                try:
                    entries[key] = _decode(factory, t, tz)
                except TypeError:
                    # from_ical() of this class takes no timezone argument
                    entries[key] = '!'
    return '|'.join(f'{enc(k)}^{enc(t)}^{tz}^{r}' for (k, t, tz), r in entries.items())


NAME_AREA = re.compile(r'^[^:]*')


def modelled_text(text):
    """the model's name / parameter-name matching is ASCII (Python's \\w is Unicode-aware): skip inputs with
    a non-ASCII character in a property name or parameter name; unparseable lines are judged by everything
    before the first colon"""
    from icalendar.parser import Contentlines
    if has_surrogate(text):
        return False
    try:
        lines = Contentlines.from_ical(text)
    except ValueError:
        return True
    for ln in lines:
        if not ln:
            continue
        try:
            name, params, vals = ln.parts()
            if not name.isascii() or not all(k.isascii() for k in params.keys()):
                return False
            if name.upper() in ('BEGIN', 'END') and not vals.isascii():
                return False   # component names are upper-cased with Python's Unicode str.upper
        except ValueError:
            if not NAME_AREA.match(ln).group(0).isascii():
                return False
    return True


def raised_in(exc, func_name):
    """does the traceback of exc, or of an exception it was raised from, pass through func_name?"""
    seen = set()
    while exc is not None and id(exc) not in seen:
        seen.add(id(exc))
        tb = exc.__traceback__
        while tb is not None:
            if tb.tb_frame.f_code.co_name == func_name:
                return True
            tb = tb.tb_next
        exc = exc.__cause__ or exc.__context__
    return False


def impl_parse(data, multiple):
    from icalendar import Component
    try:
        res = Component.from_ical(data, multiple=multiple)
    except ValueError as e:
        if raised_in(e, 'cache_timezone_component'):
            # building a time zone object from a malformed VTIMEZONE failed (C12's subject; the
            # stack-machine model abstracts it as `tzok`, instantiated with "always succeeds")
            return None, 'skip:tz-creation'
        return None, 'err:ValueError'
    except Exception as e:  # noqa: BLE001
        return None, 'err:' + type(e).__name__      # never expected; disagrees with the model
    comps = res if multiple else [res]
    log = []
    for c in comps:
        for w in c.walk():
            for e in w.errors:
                log.append((w.name or '', e[0] or ''))
    log.sort()
    out = 'ok\t' + str(len(comps)) + ''.join('\t' + enc_tree(tree_of(c)) for c in comps) + '\t' + \
        str(len(log)) + ''.join('|' + enc(a) + '^' + enc(b) for a, b in log)
    return comps, out


def parse_case(ctx, data, multiple=False, nontrivial=True):
    """register one parse correspondence case; returns the parsed components (or None)"""
    text = data.decode('utf-8-sig', 'replace') if isinstance(data, bytes) else data
    if isinstance(data, bytes):
        try:
            data.decode('utf-8-sig')
        except UnicodeDecodeError:
            ctx.count('parse:undecodable-skipped')
            comps, _ = impl_parse(data, multiple)
            return comps
    if not modelled_text(text):
        ctx.count('parse:nonascii-name-skipped')
        comps, _ = impl_parse(data, multiple)
        return comps
    tab = dec_table(data)
    comps, out = impl_parse(data, multiple)
    if out.startswith('skip:'):
        ctx.count('parse:' + out)
        return comps
    ctx.corr('parse', ['1' if multiple else '0', tab, enc(text)], out, nontrivial)
    return comps


def ser_case(ctx, comp, sorted_=True):
    """register one serialisation correspondence case"""
    t = tree_of(comp)
    try:
        b = comp.to_ical(sorted=sorted_)
        out = 'ok\t' + enc(b.decode('utf-8'))
    except AssertionError:
        out = 'err:AssertionError'
    except UnicodeEncodeError:
        return None
    ctx.corr('ser', ['1' if sorted_ else '0', enc_tree(t)], out)
    return out
