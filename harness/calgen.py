"""Calendars for the tree-level properties (C01, C02, C04, C09, C10): fixture files of the
repository, API-built random calendars, and mutations."""
import glob
import os
from datetime import date, datetime, time, timedelta, timezone

from . import gen

FIXTURE_DIRS = ['calendars', 'events', 'timezones', 'alarms']
ZONES = ['Europe/Berlin', 'America/New_York', 'Asia/Kolkata', 'Australia/Lord_Howe', 'UTC', 'Pacific/Apia']


def fixtures():
    out = []
    base = os.path.join(os.environ.get('VERIF_REPO', '/repo'), 'src', 'icalendar', 'tests')
    for d in FIXTURE_DIRS:
        for p in sorted(glob.glob(os.path.join(base, d, '*.ics'))):
            with open(p, 'rb') as f:
                out.append((os.path.relpath(p, base), f.read()))
    return out


def rand_dt(rng, kind=None):
    from icalendar import timezone as _tz  # noqa: F401
    from icalendar.timezone import tzp
    kind = kind or rng.choice(['date', 'naive', 'utc', 'zoned'])
    y, mo, d = rng.randint(1971, 2036), rng.randint(1, 12), rng.randint(1, 28)
    if kind in ('date', 'naive') and rng.random() < 0.08:
        y = rng.choice([1, 9, 99, 100, 999, 1000, 9999])   # years that need zero padding / the range ends
    if kind == 'date':
        return date(y, mo, d)
    dt = datetime(y, mo, d, rng.randint(0, 23), rng.randint(0, 59), rng.randint(0, 59))
    if kind == 'naive':
        return dt
    if kind == 'utc':
        return tzp.localize_utc(dt)
    return tzp.localize(dt, rng.choice(ZONES[:4]))


def rand_td(rng):
    return timedelta(seconds=rng.choice([0, 1, 60, 3600, 86400, 90061, -3600, 604800, rng.randint(-10**6, 10**6)]))


def rand_params(rng, k=2):
    d = {}
    for _ in range(rng.randint(0, k)):
        key = rng.choice(['X-P', 'LANGUAGE', 'CN', 'x-q', 'ROLE', 'ALTREP'])
        v = gen.rand_text(rng, 8, alphabet=list('ab c,:;=^\'%'), wide=0.1).replace('"', '').replace('\n', '').replace('\r', '')
        v = ''.join(c for c in v if ord(c) >= 32 and ord(c) != 127 and not (0xD800 <= ord(c) <= 0xDFFF))
        d[key] = [v, 'z'] if rng.random() < 0.25 else v
    return d


def rand_text(rng, n=40):
    s = gen.rand_text(rng, n, wide=0.1)
    return ''.join(c for c in s if not (0xD800 <= ord(c) <= 0xDFFF))


def add_random_props(rng, c, kind):
    """add properties of many value kinds to component c through the public API"""
    from icalendar import vCalAddress, vUri
    n = rng.randint(1, 6)
    for _ in range(n):
        r = rng.choice(['summary', 'description', 'comment', 'location', 'x-text', 'priority', 'sequence', 'geo',
                        'url', 'attendee', 'categories', 'dtstart', 'dtend', 'due', 'duration', 'rdate', 'exdate',
                        'rrule', 'dtstamp', 'created', 'last-modified', 'uid', 'x-bool', 'percent-complete',
                        'recurrence-id', 'status', 'class', 'transp', 'resources', 'organizer', 'contact'])
        try:
            if r in ('summary', 'description', 'comment', 'location', 'x-text', 'status', 'class', 'transp', 'contact', 'uid'):
                c.add(r, rand_text(rng), parameters=rand_params(rng))
            elif r in ('priority', 'sequence', 'percent-complete'):
                c.add(r, rng.randint(-5, 10**6))
            elif r == 'geo':
                c.add(r, (round(rng.uniform(-90, 90), 4), round(rng.uniform(-180, 180), 4)))
            elif r == 'url':
                c.add(r, 'https://example.com/' + gen.rand_text(rng, 10, alphabet=list('abc/?=&%~:;,'), wide=0).replace('\n', '').replace('\r', '').replace('\\', ''))
            elif r in ('attendee', 'organizer'):
                c.add(r, vCalAddress('mailto:' + ''.join(rng.choice('abc.@') for _ in range(8))), parameters=rand_params(rng))
            elif r in ('categories', 'resources'):
                c.add(r, [rand_text(rng, 8) for _ in range(rng.randint(1, 3))])
            elif r in ('dtstart', 'dtend', 'due', 'recurrence-id'):
                if r.upper() not in c:
                    c.add(r, rand_dt(rng))
            elif r == 'duration':
                if 'DURATION' not in c:
                    c.add(r, rand_td(rng))
            elif r in ('rdate', 'exdate'):
                k = rng.choice(['date', 'naive', 'utc', 'zoned'])
                c.add(r, [rand_dt(rng, k) for _ in range(rng.randint(1, 3))])
            elif r == 'rrule':
                if rng.random() < 0.35:       # rule parts given as scalars (the writer wraps them; the caller's rule must stay as given)
                    c.add(r, {'freq': rng.choice(['DAILY', 'WEEKLY', 'MONTHLY', 'YEARLY']), 'count': rng.randint(1, 9),
                              'interval': rng.choice([1, 2, 0]), 'byday': rng.choice(['MO', '-1SU'])})
                else:
                    c.add(r, {'freq': [rng.choice(['DAILY', 'WEEKLY', 'MONTHLY', 'YEARLY'])], 'count': [rng.randint(1, 9)],
                              'byday': [rng.choice(['MO', 'TU', '-1SU', '2FR'])]})
            elif r in ('dtstamp', 'created', 'last-modified'):
                if r.upper() not in c:
                    c.add(r, rand_dt(rng, rng.choice(['naive', 'utc', 'zoned'])))
            elif r == 'x-bool':
                c.add('x-flag', 'TRUE', parameters={'VALUE': 'BOOLEAN'})
        except (ValueError, TypeError):
            pass


def rand_component(rng, depth=0):
    from icalendar import Alarm, Calendar, Component, Event, FreeBusy, Journal, Timezone, TimezoneDaylight, TimezoneStandard, Todo
    kind = rng.choice(['VEVENT', 'VEVENT', 'VTODO', 'VJOURNAL', 'VFREEBUSY', 'VALARM', 'X-FOO', 'VTIMEZONE'])
    cls = {'VEVENT': Event, 'VTODO': Todo, 'VJOURNAL': Journal, 'VFREEBUSY': FreeBusy, 'VALARM': Alarm,
           'VTIMEZONE': Timezone}.get(kind)
    if cls is None:
        c = Component()
        c.name = kind
    else:
        c = cls()
    if kind == 'VTIMEZONE':
        c.add('tzid', 'Custom/' + ''.join(rng.choice('ABCxyz') for _ in range(4)))
        for sub in (TimezoneStandard, TimezoneDaylight)[:rng.randint(1, 2)]:
            s = sub()
            s.add('dtstart', datetime(1990 + rng.randint(0, 20), rng.randint(1, 12), 1, 2))
            s.add('tzoffsetfrom', timedelta(hours=rng.randint(-11, 12)))
            s.add('tzoffsetto', timedelta(hours=rng.randint(-11, 12), minutes=rng.choice([0, 30])))
            if rng.random() < 0.5:
                s.add('tzname', rng.choice(['STD', 'DST', 'X']))
            c.add_component(s)
        return c
    if kind == 'VFREEBUSY':
        st = rand_dt(rng, 'utc')
        c.add('freebusy', (st, st + timedelta(hours=1)))
        if rng.random() < 0.5:
            c.add('freebusy', [(st, timedelta(hours=2))])
    add_random_props(rng, c, kind)
    if depth < 3:
        for _ in range(rng.choice([0, 0, 1, 2])):
            c.add_component(rand_component(rng, depth + 1))
    return c


def rand_calendar(rng):
    from icalendar import Calendar
    cal = Calendar()
    cal.add('prodid', '-//verif//EN')
    cal.add('version', '2.0')
    if rng.random() < 0.3:
        cal.add('x-wr-calname', rand_text(rng, 12))
    for _ in range(rng.randint(0, 4)):
        cal.add_component(rand_component(rng))
    return cal


def mutate(rng, data):
    """one byte- or line-level mutation of calendar bytes"""
    lines = data.split(b'\r\n') if b'\r\n' in data else data.split(b'\n')
    r = rng.random()
    if r < 0.2 and len(lines) > 2:
        i = rng.randrange(len(lines))
        del lines[i]
    elif r < 0.4 and len(lines) > 2:
        i = rng.randrange(len(lines))
        lines.insert(i, lines[rng.randrange(len(lines))])
    elif r < 0.55:
        i = rng.randrange(len(lines))
        lines[i] = lines[i][:rng.randint(0, max(0, len(lines[i])))]
    elif r < 0.7:
        i = rng.randrange(len(lines))
        soup = [b'BEGIN:VEVENT', b'END:VEVENT', b'BEGIN:VTIMEZONE', b'END:VTIMEZONE', b'TZID:x', b'DTSTART:20200101',
                b'DTSTART;TZID=Europe:20200101T000000', b'RRULE:FREQ=DAILY;UNTIL=100000', b'DURATION:20200101',
                b'FREEBUSY:20200101T000000/20200101T010000Z', b'X-COMMENT:x', b';', b':', b'A', b'BEGIN:', b'END:',
                b'DTSTART;VALUE=DATE:2020', b'TRIGGER:-P', b'GEO:1', b'RDATE;VALUE=PERIOD:20200101T000000Z/PT', b'TZOFFSETFROM:+2500',
                b'ATTENDEE;CN="a:mailto:x', b'SUMMARY;LANGUAGE=:x', b'BEGIN:VCALENDAR', b'END:VCALENDAR', b'\xff\xfe', b'DTSTART;TZID=' + b'a' * 300 + b':20200101T000000']
        lines.insert(i, rng.choice(soup))
    elif r < 0.85:
        b = bytearray(b'\r\n'.join(lines))
        if b:
            for _ in range(rng.randint(1, 3)):
                b[rng.randrange(len(b))] = rng.choice([0, 10, 13, 32, 34, 44, 58, 59, 61, 92, 255, rng.randrange(256)])
        return bytes(b)
    else:
        i = rng.randrange(len(lines))
        j = rng.randrange(len(lines))
        lines[i], lines[j] = lines[j], lines[i]
    return b'\r\n'.join(lines)
