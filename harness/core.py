"""Shared machinery of ./check: context object, proof step, correspondence, findings, evidence."""
import fcntl
import hashlib
import json
import os
import random
import re
import subprocess
import sys
import time

from . import proto

VERIF = proto.VERIF
LEAN = os.path.join(VERIF, 'lean')
ALLOWED_AXIOMS = {'propext', 'Classical.choice', 'Quot.sound'}
FORBIDDEN = re.compile(r'\b(sorry|admit|native_decide|bv_decide|implemented_by|unsafe)\b|^\s*axiom\s|maxHeartbeats\s+0')
TRUSTED_BASE = [
    'Lean 4.33.0 kernel; axioms allowed: propext, Classical.choice, Quot.sound',
    'tools/extract.py (ast walk; emits the literals it reads); tools/py2lean.py + Model/PyRT.lean (meaning of the translated Python subset, run against CPython in C03)',
    'correspondence harness (same inputs to model and implementation, canonical comparison)',
    'hand-written Lean model of the control flow named in level_note, tied by correspondence only',
    'oracle = reading of the property text, DESIGN.md section 5/6',
]


class ImplTimeout(Exception):
    """the implementation did not answer within the CPU/wall budget of one call or one phase"""


class guard:
    """with guard(seconds): ...  raises ImplTimeout in the main thread when the block runs longer (wall clock).
    Nested guards keep the outer deadline (the inner one is restored on exit)."""
    def __init__(self, seconds):
        self.seconds = seconds

    def __enter__(self):
        import signal
        import time
        def fire(signum, frame):
            raise ImplTimeout(f'no answer within {self.seconds} s')
        self._old = signal.signal(signal.SIGALRM, fire)
        self._t0 = time.time()
        self._prev = signal.setitimer(signal.ITIMER_REAL, self.seconds)
        return self

    def __exit__(self, *exc):
        import signal
        import time
        signal.setitimer(signal.ITIMER_REAL, 0)
        signal.signal(signal.SIGALRM, self._old)
        if self._prev and self._prev[0] > 0:
            left = max(0.01, self._prev[0] - (time.time() - self._t0))
            signal.setitimer(signal.ITIMER_REAL, left)
        return False


class Infra(Exception):
    """Infrastructure failure (exit 2): not a statement about the property."""


class Ctx:
    def __init__(self, prop, tier, seed):
        self.prop = prop
        self.tier = tier
        self.seed = seed
        self.rng = random.Random(seed * 1000003 + int(prop[1:]))
        self.escalate = False          # tie/proof/fingerprint trouble -> search harder
        self.cases = []                # (op, args, impl, nontrivial)
        self.case_keys = set()
        self.nontrivial_keys = set()
        self.counters = {}
        self.samples = []
        self.violations = []           # dicts: kind, input, detail, cls
        self.disagreements = []        # dicts: op, args, impl, model
        self.unmodelled = 0
        self.traces = 0
        self.notes = []
        self.t0 = time.time()
        self.budget_s = 150 if tier == 'quick' else 1500

    # volume helper: n for quick, n*k for thorough or when escalated
    def vol(self, n, k=20):
        if self.tier == 'thorough':
            return n * k
        if self.escalate:
            return n * min(k, 4)      # quick tier, but the tie or a fingerprint changed: search harder
        return n

    def count(self, key, n=1):
        self.counters[key] = self.counters.get(key, 0) + n

    def time_left(self):
        return self.budget_s - (time.time() - self.t0)

    # ---- correspondence
    def corr(self, op, args, impl, nontrivial=True):
        """Register one case: the op line for the model and the implementation's canonical answer."""
        line = '\t'.join([op] + list(args))
        if line in self.case_keys:
            return
        self.case_keys.add(line)
        if nontrivial:
            self.nontrivial_keys.add(line)
        self.cases.append((line, impl))
        self.count('corr:' + op)

    def run_corr(self):
        if not self.cases:
            return
        outs = proto.run_model([c[0] for c in self.cases])
        for (line, impl), out in zip(self.cases, outs):
            if out == 'unmodelled':
                self.unmodelled += 1
                continue
            self.traces += 1
            if out != impl:
                self.disagreements.append({'line': line, 'impl': impl, 'model': out})
        for line, impl in self.cases[:3] + self.cases[len(self.cases) // 2:len(self.cases) // 2 + 2]:
            if len(line) < 300:
                self.samples.append({'op_line': line, 'impl': impl[:200]})
        self.disagreements.sort(key=lambda d: len(d['line']))

    # ---- oracle
    def violation(self, kind, inp, detail, cls=None):
        self.violations.append({'kind': kind, 'input': inp, 'detail': detail, 'cls': cls})

    def evaluated(self, key, nontrivial=True):
        """Count one oracle evaluation (distinctness by key)."""
        k = 'o:' + hashlib.sha1(repr(key).encode('utf-8', 'surrogatepass')).hexdigest()
        self.count('oracle_evaluations')
        if k not in self.case_keys:
            self.case_keys.add(k)
            if nontrivial:
                self.nontrivial_keys.add(k)


# ------------------------------------------------------------------ extract + build + audit

class Lock:
    def __enter__(self):
        self.f = open(os.path.join(LEAN, '.build.lock'), 'w')
        fcntl.flock(self.f, fcntl.LOCK_EX)
        return self

    def __exit__(self, *a):
        fcntl.flock(self.f, fcntl.LOCK_UN)
        self.f.close()


def run_extract():
    p = subprocess.run(['/venv/bin/python', os.path.join(VERIF, 'tools', 'extract.py')],
                       stdout=subprocess.PIPE, stderr=subprocess.PIPE, text=True)
    try:
        info = json.loads(p.stdout.strip().splitlines()[-1])
    except Exception:
        info = {'changed': [], 'failed': [f'extract.py crashed: {p.stderr[-500:]}']}
    return info


def gen_deps(modules):
    """generated files (ICal/Gen/X.lean) that the given Lean modules import, transitively"""
    seen, todo, gens = set(), list(modules), set()
    while todo:
        m = todo.pop()
        if m in seen or not m.startswith('ICal.'):
            continue
        seen.add(m)
        if m.startswith('ICal.Gen.'):
            gens.add(m.split('.')[-1] + '.lean')
            continue
        path = os.path.join(LEAN, *m.split('.')) + '.lean'
        try:
            with open(path, encoding='utf-8') as f:
                for line in f:
                    mm = re.match(r'^import\s+(\S+)', line)
                    if mm:
                        todo.append(mm.group(1))
        except FileNotFoundError:
            pass
    return gens


def fingerprints():
    try:
        with open(os.path.join(LEAN, 'ICal', 'Gen', 'fingerprints.json')) as f:
            cur = json.load(f)
        with open(os.path.join(VERIF, 'tools', 'fingerprints.baseline.json')) as f:
            base = json.load(f)
    except FileNotFoundError:
        return {}, []
    changed = sorted(k for k in set(cur) | set(base) if cur.get(k) != base.get(k))
    return cur, changed


def lake_build(targets, timeout=1500):
    env = dict(os.environ)
    p = subprocess.run(['lake', 'build'] + targets, cwd=LEAN, stdout=subprocess.PIPE, stderr=subprocess.STDOUT,
                       text=True, timeout=timeout, env=env)
    return p.returncode, p.stdout


def theorem_names(prop_file, ns):
    names = []
    with open(prop_file, encoding='utf-8') as f:
        for line in f:
            m = re.match(r'^theorem\s+([A-Za-z0-9_\.\']+)', line)
            if m:
                names.append(f'{ns}.{m.group(1)}')
    return names


def strip_comments(text):
    # block comments (non-nested is enough for our files), then line comments
    text = re.sub(r'/-.*?-/', '', text, flags=re.S)
    text = re.sub(r'--.*', '', text)
    return text


def grep_forbidden():
    hits = []
    for root, _, files in os.walk(os.path.join(LEAN, 'ICal')):
        for fn in files:
            if fn.endswith('.lean'):
                path = os.path.join(root, fn)
                with open(path, encoding='utf-8') as f:
                    body = strip_comments(f.read())
                for i, line in enumerate(body.splitlines(), 1):
                    if FORBIDDEN.search(line):
                        hits.append(f'{os.path.relpath(path, LEAN)}: {line.strip()[:100]}')
    return hits


def audit(prop, modules):
    """#print axioms for every theorem of the property's Props module(s).
    Returns (theorems, discharged, problems)."""
    thms = []
    for mod in modules:
        path = os.path.join(LEAN, *mod.split('.')) + '.lean'
        ns = 'ICal.' + mod.split('.')[-1]
        thms += theorem_names(path, ns)
    os.makedirs(os.path.join(LEAN, '.audit'), exist_ok=True)
    apath = os.path.join(LEAN, '.audit', f'{prop}.lean')
    with open(apath, 'w') as f:
        for mod in modules:
            f.write(f'import {mod}\n')
        for t in thms:
            f.write(f'#print axioms {t}\n')
    p = subprocess.run(['lake', 'env', 'lean', apath], cwd=LEAN, stdout=subprocess.PIPE, stderr=subprocess.STDOUT,
                       text=True, timeout=600)
    out = p.stdout
    flat = re.sub(r'\s+', ' ', out)
    discharged = []
    problems = []
    for t in thms:
        m = re.search(r"'" + re.escape(t) + r"' (does not depend on any axioms|depends on axioms: \[([^\]]*)\])", flat)
        if not m:
            problems.append(f'{t}: no axiom report (does it still exist?)')
            continue
        axs = set() if m.group(2) is None else {a.strip() for a in m.group(2).split(',') if a.strip()}
        bad = axs - ALLOWED_AXIOMS
        if bad:
            problems.append(f'{t}: depends on {sorted(bad)}')
        else:
            discharged.append(t)
    if p.returncode != 0 and not problems:
        problems.append('audit file failed: ' + out[-300:])
    return thms, discharged, problems


# ------------------------------------------------------------------ findings

def load_findings():
    res = {'finding': [], 'fixed': []}
    path = os.path.join(VERIF, 'KNOWN_FINDINGS.txt')
    if not os.path.exists(path):
        return res
    with open(path, encoding='utf-8') as f:
        for line in f:
            line = line.strip()
            if not line or line.startswith('#'):
                continue
            m = re.match(r'^(finding|fixed):\s+property=(C\d+)\s+(.*)$', line)
            if not m:
                continue
            kind, prop, rest = m.groups()
            entry = {'property': prop, 'text': rest}
            mc = re.search(r'class=(\S+)', rest)
            if mc:
                entry['class'] = mc.group(1)
            res[kind].append(entry)
    return res


# ------------------------------------------------------------------ evidence

def write_evidence(ctx, level, proof, extra):
    cov = {
        'obligations': max(1, len(proof.get('theorems', []))),
        'discharged': len(proof.get('discharged', [])),
        'checker_cmd': proof.get('checker_cmd', ''),
        'trusted_base': TRUSTED_BASE,
        'evaluations': max(1, len(ctx.cases) + ctx.counters.get('oracle_evaluations', 0)),
        'distinct_nontrivial': len(ctx.nontrivial_keys),
        'rule': extra.get('rule', ''),
        'samples': (ctx.samples or [{'note': 'no correspondence cases ran'}])[:8] +
                   [{'theorem': t} for t in proof.get('discharged', [])[:6]],
        'traces_validated_against_impl': ctx.traces,
        'unmodelled_skipped': ctx.unmodelled,
        'theorems': proof.get('theorems', []),
        'proof_problems': proof.get('problems', []),
        'extract': proof.get('extract', {}),
        'fingerprints_changed': proof.get('fingerprints_changed', []),
        'distribution': dict(sorted(ctx.counters.items())),
        'disagreements': len(ctx.disagreements),
        'known_findings_reproduced': extra.get('known', []),
        'notes': ctx.notes,
        'exhaustive': False,
    }
    ev = {
        'property_id': ctx.prop,
        'tier': ctx.tier,
        'seed': ctx.seed,
        'level': level,
        'coverage': cov,
        'assumptions': extra.get('assumptions', []),
        'wall_s': round(time.time() - ctx.t0, 2),
        'violations': extra.get('n_violations', 0),
    }
    os.makedirs(os.path.join(VERIF, 'evidence'), exist_ok=True)
    path = os.path.join(VERIF, 'evidence', f'{ctx.prop}.json')
    tmp = path + '.tmp'
    with open(tmp, 'w', encoding='utf-8') as f:
        json.dump(ev, f, indent=1, ensure_ascii=True, default=str)
    os.replace(tmp, path)
    return path
