"""Component trees: extraction from live icalendar objects and the wire format of
lean/ICal/Driver/TreeProto.lean."""
from .proto import enc, dec


TOICAL_ERROR = '\x00to_ical-ValueError'


def value_text(v):
    """value.to_ical() as text (what the serialiser prints); non-icalendar values go through vText like
    Contentline.from_parts does."""
    from icalendar.prop import vText
    try:
        t = v.to_ical() if hasattr(v, 'to_ical') else vText(v).to_ical()
    except ValueError:
        return TOICAL_ERROR   # the value was accepted by the parser but cannot be rendered
    if isinstance(t, bytes):
        t = t.decode('utf-8', 'replace')
    return t


def params_of(v):
    p = getattr(v, 'params', None)
    if p is None:
        return []
    out = []
    for k, val in p.items():
        if isinstance(val, (list, tuple)):
            out.append((k, ('n', [str(x) if isinstance(x, str) else value_text(x) for x in val])))
        elif isinstance(val, str):
            out.append((k, ('1', str(val))))
        else:
            out.append((k, ('1', value_text(val))))
    return out


def val_of(v):
    return (type(v).__name__, value_text(v), params_of(v))


def tree_of(c):
    """(name, [(key, isList, [val...])...], [subtrees])"""
    props = []
    for k, v in c.items():
        if isinstance(v, list):
            props.append((k, True, [val_of(x) for x in v]))
        else:
            props.append((k, False, [val_of(v)]))
    return (c.name or '', props, [tree_of(s) for s in c.subcomponents])


def enc_pval(pv):
    tag, x = pv
    if tag == '1':
        return '1~' + enc(x)
    return 'n~' + str(len(x)) + ''.join('~' + enc(s) for s in x)


def enc_val(v):
    kind, text, params = v
    return enc(kind) + '~' + enc(text) + '~' + str(len(params)) + ''.join(
        '~' + enc(k) + '~' + enc_pval(pv) for k, pv in params)


def enc_entry(e):
    name, is_list, vals = e
    return enc(name) + ':' + ('L' if is_list else 'S') + ':' + str(len(vals)) + ''.join(':' + enc_val(v) for v in vals)


def enc_tree(t):
    name, props, subs = t
    return '(' + enc(name) + ';' + str(len(props)) + ''.join(';' + enc_entry(e) for e in props) + ';' + \
        str(len(subs)) + ''.join(';' + enc_tree(s) for s in subs) + ')'


def canon_tree(t):
    """order-insensitive view: properties sorted by name (values of one name keep their order), parameters sorted"""
    name, props, subs = t
    cp = sorted((k, is_list, [(kind, text, sorted(params)) for kind, text, params in vals]) for k, is_list, vals in props)
    return (name, cp, [canon_tree(s) for s in subs])
