"""C14 - alarm times = anchor + TRIGGER + k*DURATION (relative to start/end, or absolute), with the
documented incomplete-information errors only.

Shared with C15: the spec -> component builders (API and text), the canonical encodings of the
alarm driver protocol (lean/ICal/Driver/Alarm.lean) and the provider switch."""
from contextlib import contextmanager
from datetime import date, datetime, timedelta, timezone

LEAN = ['ICal.Props.C14']
# ops body_al_add / body_al_repeat run lean/ICal/Gen/BodiesAlarm.lean (Alarms._add, Alarms._repeat, tools.is_date regenerated
# by tools/py2lean.py); Props.C14 imports it too (ICal.Lemmas.BodiesAlarm): a translator failure there breaks this tie
# ops body_al_times / body_al_state run the regenerated Alarms.add_component (with the setters, add_alarm) and Alarms.times (with
# _get_*_alarm_times, _alarm_time) on the pieces of lean/ICal/Model/AlarmPieces.lean
DRIVER_MODULES = ['ICal.Driver.BodiesAlarm', 'ICal.Driver.BodiesAlarmTimes', 'ICal.Driver.Alarm']
LEVEL = 'proof'
FINGERPRINTS = ['alarms.Alarms', 'alarms.AlarmTime', 'cal.Alarm', 'cal.create_utc_property', 'tools.to_datetime',
                'tools.normalize_pytz', 'tools.is_date', 'cal.Component.is_thunderbird']
RULE = ('events and todos x start kind (none, date, floating, UTC, zoned at a DST change) x end kind (none, DTEND/DUE, '
        'DURATION) x every single alarm of a 274-shape table (relative +/- triggers, RELATED absent/START/END/end/start, '
        'absolute UTC/zoned/floating, no TRIGGER, REPEAT absent/0..3/-1 with DURATION absent/0/sub-day/whole-day), then seeded '
        'random lists of 0-4 alarms; each built through the API, from hand-written text and from its own to_ical(), under '
        'zoneinfo and pytz; a case is non-trivial when it has a repeating alarm, an error, a date/floating anchor or a DST '
        'change between anchor and alarm time')
ASSUMPTIONS = ['component start/end are taken from Event/Todo.start/.end (their derivation is property C16); the oracle '
               're-derives the end from DTEND/DUE, DTSTART+DURATION or the RFC default on its own',
               'whole seconds only (no microseconds); years 2019-2022',
               'aware + timedelta is exact elapsed time in the model; zoneinfo cases where the UTC offset changes between '
               'an anchor and anchor+delta are sent as al_skip (unmodelled) and judged by the oracle (known finding '
               'zoneinfo-wallclock-dst)',
               'an absolute TRIGGER with a TZID (not RFC 5545: MUST be UTC) is only built through the API; parsing drops '
               'its TZID (C02/C11 finding D06)',
               'oracle: for a zoned anchor the whole-day part of a delta may be read as nominal days (RFC 5545 3.3.6) or as '
               'exact 24 h; a date and the floating midnight of that date are the same time']

EPOCH = datetime(1970, 1, 1, tzinfo=timezone.utc)
NEPOCH = datetime(1970, 1, 1)
DEPOCH = date(1970, 1, 1)
SEC = timedelta(seconds=1)
UTC = timezone.utc
PROVIDERS = ('zoneinfo', 'pytz')

# zones and their 2020 transitions (UTC); Kolkata has none
ZONES = {
    'Europe/Berlin': [datetime(2020, 3, 29, 1, 0), datetime(2020, 10, 25, 1, 0)],
    'America/New_York': [datetime(2020, 3, 8, 7, 0), datetime(2020, 11, 1, 6, 0)],
    'Australia/Lord_Howe': [datetime(2020, 4, 4, 15, 0), datetime(2020, 10, 3, 15, 30)],
    'Asia/Kolkata': [datetime(2020, 6, 1, 0, 0)],
}


@contextmanager
def provider(name):
    import icalendar
    getattr(icalendar, 'use_' + name)()
    try:
        yield
    finally:
        icalendar.use_zoneinfo()


# ------------------------------------------------------------------ canonical values

def is_date(v):
    return isinstance(v, date) and not isinstance(v, datetime)


def inst(dt):
    return (dt - EPOCH) // SEC


def wall(dt):
    return (dt.replace(tzinfo=None) - NEPOCH) // SEC


def enc_val(v):
    """date / naive datetime / aware datetime / None -> trig field"""
    if v is None:
        return '-'
    if is_date(v):
        return 'd:%d' % (v - DEPOCH).days
    if v.tzinfo is None:
        return 'f:%d' % wall(v)
    return 'a:%d' % inst(v)


def enc_opt(v):
    return '-' if v is None else str(v)


def enc_inst(dt):
    return '-' if dt is None else str(inst(dt))


def exc_name(e):
    from icalendar.alarms import ComponentEndMissing, ComponentStartMissing, LocalTimezoneMissing
    for cls in (ComponentStartMissing, ComponentEndMissing, LocalTimezoneMissing):
        if type(e) is cls:
            return 'err:' + cls.__name__
    return 'err:Other:' + type(e).__name__


# ------------------------------------------------------------------ specs
# value spec: None | ('date', date) | ('float', naive) | ('utc', naive utc wall) | ('zone', zone id, naive wall)
# alarm spec: dict(trigger=None|('r', seconds)|('a', value spec), related=None|str, repeat=None|int,
#                  duration=None|seconds, ack=None|naive utc)
# component spec: dict(kind='VEVENT'|'VTODO', start=value spec, end=('at', value spec)|('dur', seconds)|None,
#                      dtstamp/lastack/snooze = None|naive utc, othermoz=bool, alarms=[alarm spec])

class SubDate(date):
    """an instance of a subclass of date is a date (time-freezing libraries, application helpers)"""


class SubDateTime(datetime):
    pass


def mk_value(v, sub=False):
    """value spec -> python value under the current provider; sub: as an instance of a subclass"""
    from icalendar.timezone import tzp
    if v is None:
        return None
    if v[0] == 'date':
        return SubDate(v[1].year, v[1].month, v[1].day) if sub else v[1]
    if v[0] == 'float':
        d = v[1]
        return SubDateTime(d.year, d.month, d.day, d.hour, d.minute, d.second) if sub else d
    if v[0] == 'utc':
        return tzp.localize_utc(v[1])
    return tzp.localize(v[2], tzp.timezone(v[1]))


def fmt_dt(n):
    return n.strftime('%Y%m%dT%H%M%S')


def fmt_value(name, v):
    if v[0] == 'date':
        return '%s;VALUE=DATE:%s' % (name, v[1].strftime('%Y%m%d'))
    if v[0] == 'float':
        return '%s:%s' % (name, fmt_dt(v[1]))
    if v[0] == 'utc':
        return '%s:%sZ' % (name, fmt_dt(v[1]))
    return '%s;TZID=%s:%s' % (name, v[1], fmt_dt(v[2]))


def fmt_dur(sec):
    sign = '-' if sec < 0 else ''
    sec = abs(sec)
    d, r = divmod(sec, 86400)
    h, r = divmod(r, 3600)
    m, s = divmod(r, 60)
    out = sign + 'P'
    if d:
        out += '%dD' % d
    if h or m or s or not d:
        out += 'T'
        if h:
            out += '%dH' % h
        if m:
            out += '%dM' % m
        if s or not (h or m):
            out += '%dS' % s
    return out


def build_api(spec):
    from icalendar import Alarm, Event, Todo
    comp = Event() if spec['kind'] == 'VEVENT' else Todo()
    sub = spec_hash(spec) % 5 == 0           # one case in five hands over subclass instances
    if spec.get('start') is not None:
        comp.start = mk_value(spec['start'], sub)
    end = spec.get('end')
    if end is not None:
        if end[0] == 'at':
            comp.end = mk_value(end[1], sub)
        else:
            comp.DURATION = timedelta(seconds=end[1])
    if spec.get('dtstamp') is not None:
        comp.DTSTAMP = mk_value(('utc', spec['dtstamp']))
    if spec.get('lastack') is not None:
        comp.X_MOZ_LASTACK = mk_value(('utc', spec['lastack']))
    if spec.get('snooze') is not None:
        comp.X_MOZ_SNOOZE_TIME = mk_value(('utc', spec['snooze']))
    if spec.get('othermoz'):
        comp.add(MOZ_NAMES[spec_hash(spec) % len(MOZ_NAMES)], '1')
    for a in spec['alarms']:
        al = Alarm()
        t = a.get('trigger')
        if t is not None:
            al.TRIGGER = timedelta(seconds=t[1]) if t[0] == 'r' else mk_value(t[1])
            if a.get('related') is not None:
                al.TRIGGER_RELATED = a['related']
        if a.get('repeat') is not None:
            al.REPEAT = a['repeat']
        if a.get('duration') is not None:
            al.DURATION = timedelta(seconds=a['duration'])
        if a.get('ack') is not None:
            al.ACKNOWLEDGED = mk_value(('utc', a['ack']))
        comp.add_component(al)
    return comp


MOZ_NAMES = ['X-MOZ-GENERATION', 'X-MOZ-SEND-INVITATIONS', 'X-MOZ-SNOOZE-TIME-1601775000000000', 'X-MOZ-FAKED-MASTER',
             'x-moz-received-sequence']


def spec_hash(spec):
    """a stable number derived from the case itself (selects spellings that must not matter)"""
    import zlib
    return zlib.crc32(repr(sorted((k, repr(v)) for k, v in spec.items())).encode())


def spell(name, h):
    """property names are case-insensitive (RFC 5545 2.3): the same case in another spelling"""
    return [name, name, name.lower(), name.capitalize()][h % 4]


def build_text(spec):
    h = spec_hash(spec)
    fmt_value = lambda name, v, _f=globals()['fmt_value']: _f(spell(name, h), v)   # noqa: E731
    lines = ['BEGIN:' + spec['kind']]
    if spec.get('dtstamp') is not None:
        lines.append('DTSTAMP:%sZ' % fmt_dt(spec['dtstamp']))
    if spec.get('start') is not None:
        lines.append(fmt_value('DTSTART', spec['start']))
    end = spec.get('end')
    if end is not None:
        if end[0] == 'at':
            lines.append(fmt_value('DTEND' if spec['kind'] == 'VEVENT' else 'DUE', end[1]))
        else:
            lines.append('DURATION:' + fmt_dur(end[1]))
    if spec.get('lastack') is not None:
        lines.append('X-MOZ-LASTACK:%sZ' % fmt_dt(spec['lastack']))
    if spec.get('snooze') is not None:
        lines.append('X-MOZ-SNOOZE-TIME:%sZ' % fmt_dt(spec['snooze']))
    if spec.get('othermoz'):
        lines.append(MOZ_NAMES[h % len(MOZ_NAMES)] + ':1')
    for a in spec['alarms']:
        lines.append('BEGIN:VALARM')
        lines.append('ACTION:DISPLAY')
        t = a.get('trigger')
        if t is not None:
            if t[0] == 'r':
                rel = '' if a.get('related') is None else ';RELATED=' + a['related']
                lines.append('TRIGGER%s:%s' % (rel, fmt_dur(t[1])))
            else:
                v = t[1]
                if v[0] == 'utc':
                    lines.append('TRIGGER;VALUE=DATE-TIME:%sZ' % fmt_dt(v[1]))
                elif v[0] == 'float':
                    lines.append('TRIGGER;VALUE=DATE-TIME:%s' % fmt_dt(v[1]))
                else:
                    lines.append('TRIGGER;VALUE=DATE-TIME;TZID=%s:%s' % (v[1], fmt_dt(v[2])))
        if a.get('repeat') is not None:
            lines.append('REPEAT:%d' % a['repeat'])
        if a.get('duration') is not None:
            lines.append('DURATION:' + fmt_dur(a['duration']))
        if a.get('ack') is not None:
            lines.append('ACKNOWLEDGED:%sZ' % fmt_dt(a['ack']))
        lines.append('END:VALARM')
    lines.append('END:' + spec['kind'])
    return '\r\n'.join(lines) + '\r\n'


def api_only(spec):
    """a zoned absolute TRIGGER is not RFC 5545 (MUST be UTC) and loses its TZID when parsed (C02/C11,
    design finding D06): such alarms are only built through the API"""
    return any(a.get('trigger') is not None and a['trigger'][0] == 'a' and a['trigger'][1][0] == 'zone'
               for a in spec['alarms'])


def build(spec, how):
    from icalendar import Event, Todo
    cls = Event if spec['kind'] == 'VEVENT' else Todo
    if how == 'api' or api_only(spec):
        return build_api(spec)
    if how == 'text':
        return cls.from_ical(build_text(spec))
    return cls.from_ical(build_api(spec).to_ical())


def to_jsonable(x):
    """spec -> JSON-able form (for replay files)"""
    if isinstance(x, datetime):
        return {'$dt': x.isoformat()}
    if isinstance(x, date):
        return {'$d': x.isoformat()}
    if isinstance(x, tuple):
        return {'$t': [to_jsonable(y) for y in x]}
    if isinstance(x, list):
        return [to_jsonable(y) for y in x]
    if isinstance(x, dict):
        return {k: to_jsonable(v) for k, v in x.items()}
    return x


def from_jsonable(x):
    if isinstance(x, dict):
        if '$dt' in x:
            return datetime.fromisoformat(x['$dt'])
        if '$d' in x:
            return date.fromisoformat(x['$d'])
        if '$t' in x:
            return tuple(from_jsonable(y) for y in x['$t'])
        return {k: from_jsonable(v) for k, v in x.items()}
    if isinstance(x, list):
        return [from_jsonable(y) for y in x]
    return x


# ------------------------------------------------------------------ model inputs

def enc_alarm_spec(a):
    t = a.get('trigger')
    if t is None:
        tf = '-'
    elif t[0] == 'r':
        tf = 'r:%d' % t[1]
    else:
        v = mk_value(t[1])
        tf = ('f:%d' % wall(v)) if v.tzinfo is None else ('a:%d' % inst(v))
    rel = a.get('related') if t is not None and t[0] == 'r' else None
    rf = '-' if rel is None else '=' + ','.join(str(ord(c)) for c in rel)
    # the RELATED parameter of an absolute trigger is never looked at; it is not generated
    ack = None if a.get('ack') is None else inst(a['ack'].replace(tzinfo=UTC))
    return ';'.join([tf, rf, str(a.get('repeat') or 0), enc_opt(a.get('duration')), enc_opt(ack)])


def enc_parent_spec(spec):
    def f(k):
        return enc_opt(None if spec.get(k) is None else inst(spec[k].replace(tzinfo=UTC)))
    return ';'.join([f('dtstamp'), f('lastack'), f('snooze'), '1' if spec.get('othermoz') else '0'])


def comp_start_end(comp):
    from icalendar.cal import IncompleteComponent
    try:
        st = comp.start
    except IncompleteComponent:
        st = None
    try:
        en = comp.end
    except IncompleteComponent:
        en = None
    return st, en


def alarm_index(comp, encs, alarm):
    walk = comp.walk('VALARM')
    for i, a in enumerate(walk):
        if a is alarm:
            return encs.index(encs[i])
    return -1


def enc_alarm_time(comp, encs, t):
    try:
        act = '1' if t.is_active() else '0'
    except Exception as e:  # noqa: BLE001
        act = exc_name(e)
    try:
        rep = enc_val(t.trigger)
    except Exception as e:  # noqa: BLE001
        rep = exc_name(e)
    return '%d:%s;%s;%s;%s' % (alarm_index(comp, encs, t.alarm), enc_val(t._trigger), enc_inst(t.acknowledged), act, rep)


def impl_times(comp, encs, prepare=None):
    from icalendar.alarms import Alarms
    try:
        al = Alarms(comp)
        if prepare:
            prepare(al)
        ts = al.times
    except Exception as e:  # noqa: BLE001
        return exc_name(e)
    return 'ok' + ''.join('|' + enc_alarm_time(comp, encs, t) for t in ts)


def impl_state(comp, encs, prepare=None):
    """what Alarms(component) - add_component and the setters - leaves in the attributes (op body_al_state)"""
    from icalendar.alarms import Alarms
    try:
        al = Alarms(comp)
        if prepare:
            prepare(al)
    except Exception as e:  # noqa: BLE001
        return exc_name(e)
    idx = lambda lst: ','.join(str(alarm_index(comp, encs, a)) for a in lst)   # noqa: E731
    return 'ok ' + ';'.join([idx(al._absolute_alarms), idx(al._start_alarms), idx(al._end_alarms), enc_val(al._start),
                             enc_val(al._end), enc_inst(al._last_ack), enc_inst(al._snooze_until)])


def impl_active(comp, encs, prepare=None):
    from icalendar.alarms import Alarms
    try:
        al = Alarms(comp)
        if prepare:
            prepare(al)
        ts = al.active
    except Exception as e:  # noqa: BLE001
        return exc_name(e)
    out = 'ok'
    for t in ts:
        try:
            rep = enc_val(t.trigger)
        except Exception as e:  # noqa: BLE001
            rep = exc_name(e)
        out += '|%d:%s' % (alarm_index(comp, encs, t.alarm), rep)
    return out


def rel_is_start(rel):
    """TRIGGER_RELATED == "START" (absent, or START in any case)"""
    return rel is None or rel.upper() == 'START'


def offset_changes(x, td):
    """zoneinfo: does `x + td` (wall-clock arithmetic) land on another UTC offset than `x`?"""
    if is_date(x) or x.tzinfo is None:
        return False
    return (x + td).utcoffset() != x.utcoffset()


def wallclock_differs(prov, st, en, spec):
    """True when some `_add` step of this component is not exact elapsed time under zoneinfo."""
    if prov != 'zoneinfo':
        return False
    for a in spec['alarms']:
        t = a.get('trigger')
        if t is None:
            continue
        if t[0] == 'r':
            anchor = st if rel_is_start(a.get('related')) else en
            if anchor is None:
                continue
            td = timedelta(seconds=t[1])
            if offset_changes(anchor, td):
                return True
            if is_date(anchor):
                continue
            first = anchor + td
        else:
            first = mk_value(t[1])
        if a.get('repeat') and a.get('duration') is not None and a['repeat'] > 0:
            for k in range(1, a['repeat'] + 1):
                if offset_changes(first, timedelta(seconds=a['duration'] * k)):
                    return True
    return False


def local_table(ltz, st, en, spec):
    """tabulate the provider's localize for every wall time the alarms of this component can have"""
    from icalendar.timezone import tzp
    from icalendar.tools import normalize_pytz
    walls = set()

    def base(v):
        if v is None:
            return None
        if is_date(v):
            return (v - DEPOCH).days * 86400
        if v.tzinfo is None:
            return wall(v)
        return None
    for a in spec['alarms']:
        t = a.get('trigger')
        if t is None:
            continue
        if t[0] == 'r':
            b = base(st if rel_is_start(a.get('related')) else en)
            if b is not None:
                b += t[1]
        else:
            b = base(mk_value(t[1]))
        if b is None:
            continue
        walls.add(b)
        if a.get('repeat') and a.get('duration') is not None:
            for k in range(1, max(a['repeat'], 0) + 1):
                walls.add(b + a['duration'] * k)
    tz = tzp.timezone(ltz)
    out = 'L'
    for w in sorted(walls):
        i = inst(normalize_pytz(tzp.localize(NEPOCH + timedelta(seconds=w), tz)))
        out += ',%d>%d' % (w, i)
    return out


def register_component(ctx, spec, prov, how, ltz=None, ops=('al_times',), nontrivial=True):
    """one correspondence case per op for a component built in the current provider"""
    comp = build(spec, how)
    st, en = comp_start_end(comp)
    encs = [enc_alarm_spec(a) for a in spec['alarms']]
    tag = '%s/%s' % (how, prov)
    if wallclock_differs(prov, st, en, spec):
        ctx.corr('al_skip', ['zoneinfo-wallclock-dst', repr(spec), tag], 'unmodelled', nontrivial)
        ctx.count('corr:zoneinfo-wallclock-dst-skipped')
        return comp
    args = [enc_parent_spec(spec), enc_val(st), enc_val(en), '|'.join(encs),
            '-' if ltz is None else local_table(ltz, st, en, spec), tag]
    prep = None if ltz is None else (lambda al: al.set_local_timezone(ltz))
    for op in ops:
        res = impl_times(comp, encs, prep) if op == 'al_times' else impl_active(comp, encs, prep)
        ctx.corr(op, args, res, nontrivial)
        if op == 'al_times':      # the same case for the regenerated add_component + times, and for the attributes add_component leaves
            ctx.corr('body_al_times', args, res, nontrivial)
            ctx.corr('body_al_state', args, impl_state(comp, encs, prep), nontrivial)
    return comp


# ------------------------------------------------------------------ generators

def near(rng, zone):
    """a naive wall time in `zone` close to one of its transitions"""
    tr = rng.choice(ZONES[zone])
    off = rng.choice([-93600, -86400, -7200, -5400, -3600, -1800, -1, 0, 1, 1800, 3600, 5400, 7200, 9000, 10800, 86400, 90000])
    import zoneinfo
    z = zoneinfo.ZoneInfo(zone)
    base = (tr + timedelta(seconds=off)).replace(tzinfo=UTC).astimezone(z).replace(tzinfo=None)
    if rng.random() < 0.25:
        # also wall times inside the gap / the repeated hour
        base = base + timedelta(seconds=rng.choice([-3600, -1800, 1800, 3600]))
    return base


def rand_start(rng, kind):
    zone = rng.choice(list(ZONES))
    w = near(rng, zone)
    if kind == 'none':
        return None
    if kind == 'date':
        return ('date', w.date())
    if kind == 'float':
        return ('float', w)
    if kind == 'utc':
        return ('utc', w)
    return ('zone', zone, w)


def rand_end(rng, start, kind):
    """an end of the same value kind as `start`"""
    if kind == 'none' or (start is None and kind == 'dur'):
        return None
    if kind == 'dur':
        if start[0] == 'date':
            return ('dur', rng.choice([0, 86400, 172800, 604800]))     # an explicit zero DURATION is not a missing one
        return ('dur', rng.choice([0, 1800, 3600, 5400, 7200, 86400, 90000]))
    if start is None:
        start = rand_start(rng, rng.choice(['date', 'float', 'utc', 'zone']))
    if start[0] == 'date':
        return ('at', ('date', start[1] + timedelta(days=rng.choice([1, 2]))))
    if start[0] == 'float':
        return ('at', ('float', start[1] + timedelta(seconds=rng.choice([0, 1800, 3600, 7200, 90000]))))
    if start[0] == 'utc':
        return ('at', ('utc', start[1] + timedelta(seconds=rng.choice([0, 1800, 3600, 7200, 90000]))))
    return ('at', ('zone', start[1], start[2] + timedelta(seconds=rng.choice([0, 1800, 3600, 7200, 90000]))))


REL_TRIGGERS = [-7200, -900, 0, 3600, -86400, 90000, -129600, 1]
RELATED = [None, 'START', 'END', 'end', 'start', 'Start']
REPDUR = [(None, None), (0, 3600), (2, None), (None, 3600), (2, 3600), (3, 0), (1, 86400), (2, 43200), (2, 5400), (-1, 60)]
ABS = [('utc', datetime(2020, 3, 29, 0, 30)), ('utc', datetime(2021, 1, 1, 0, 0)),
       ('zone', 'Europe/Berlin', datetime(2020, 3, 29, 1, 30)), ('float', datetime(2020, 10, 25, 2, 30))]


def alarm_table():
    out = [dict(trigger=None, repeat=2, duration=60), dict(trigger=None)]
    for rd in REPDUR:
        for t in REL_TRIGGERS[:4]:
            for rel in RELATED[:5]:
                out.append(dict(trigger=('r', t), related=rel, repeat=rd[0], duration=rd[1]))
        for v in ABS:
            out.append(dict(trigger=('a', v), repeat=rd[0], duration=rd[1]))
    for t in REL_TRIGGERS[4:]:
        for rel in (None, 'END', 'start', 'Start'):
            out.append(dict(trigger=('r', t), related=rel, repeat=2, duration=3600))
            out.append(dict(trigger=('r', t), related=rel))
    return out


def rand_alarm(rng):
    r = rng.random()
    rd = rng.choice(REPDUR)
    if r < 0.1:
        return dict(trigger=None, repeat=rd[0], duration=rd[1])
    if r < 0.3:
        v = rng.choice(ABS)
        if rng.random() < 0.5:
            zone = rng.choice(list(ZONES))
            v = rng.choice([('utc', near(rng, zone)), ('zone', zone, near(rng, zone))])
        return dict(trigger=('a', v), repeat=rd[0], duration=rd[1])
    t = rng.choice(REL_TRIGGERS + [-1800, -3600, -5400, 1800, 5400, 7200, -172800, 86400])
    return dict(trigger=('r', t), related=rng.choice(RELATED), repeat=rd[0], duration=rd[1])


def spec_nontrivial(spec):
    if not spec['alarms']:
        return False
    for a in spec['alarms']:
        if a.get('trigger') is None:
            return True
        if a.get('repeat') and a.get('duration') is not None:
            return True
        if not rel_is_start(a.get('related')):
            return True
    return spec.get('start') is None or spec['start'][0] in ('date', 'float', 'zone')


def small_domain(rng):
    """kind x start kind x end kind x every alarm of the table (start/end instants drawn near DST changes)"""
    table = alarm_table()
    for kind in ('VEVENT', 'VTODO'):
        for sk in ('none', 'date', 'float', 'utc', 'zone'):
            for ek in ('none', 'at', 'dur'):
                for a in table:
                    start = rand_start(rng, sk)
                    yield dict(kind=kind, start=start, end=rand_end(rng, start, ek), alarms=[a])


def random_specs(rng, n):
    for _ in range(n):
        kind = rng.choice(['VEVENT', 'VTODO'])
        start = rand_start(rng, rng.choice(['none', 'date', 'float', 'utc', 'zone', 'zone', 'zone']))
        end = rand_end(rng, start, rng.choice(['none', 'at', 'dur']))
        yield dict(kind=kind, start=start, end=end, alarms=[rand_alarm(rng) for _ in range(rng.randint(0, 4))])


# corpus: the finding witness and the repaired defects (D17)
CORPUS = [
    dict(kind='VEVENT', start=('zone', 'Europe/Berlin', datetime(2020, 3, 29, 3, 30)), end=None,
         alarms=[dict(trigger=('r', -7200))]),
    dict(kind='VEVENT', start=('zone', 'Europe/Berlin', datetime(2020, 3, 29, 3, 30)), end=None,
         alarms=[dict(trigger=('r', -86400))]),
    dict(kind='VEVENT', start=('utc', datetime(2020, 1, 1, 12, 0)), end=None,
         alarms=[dict(trigger=('r', -600), repeat=2, duration=0)]),
    dict(kind='VEVENT', start=None, end=None, alarms=[dict(trigger=('a', ('utc', datetime(2020, 1, 1, 12, 0))), repeat=1, duration=60)]),
    dict(kind='VTODO', start=None, end=('at', ('utc', datetime(2020, 1, 1, 12, 0))),
         alarms=[dict(trigger=('r', -600), related='END')]),
    dict(kind='VTODO', start=None, end=None, alarms=[dict(trigger=('r', -600), related='END'), dict(trigger=('r', 0))]),
    dict(kind='VEVENT', start=('date', date(2020, 3, 29)), end=None,
         alarms=[dict(trigger=('r', -86400), repeat=2, duration=43200), dict(trigger=('r', -3600), related='END')]),
    dict(kind='VTODO', start=None, end=('at', ('zone', 'Europe/Berlin', datetime(2020, 3, 29, 2, 30))),
         alarms=[dict(trigger=('r', 0), related='END', repeat=2, duration=1800)]),
    # an all-day anchor with a sub-day trigger whose repetitions land exactly on midnight (whole days from the anchor)
    dict(kind='VEVENT', start=('date', date(2024, 5, 1)), end=None, alarms=[dict(trigger=('r', -900), repeat=2, duration=900)]),
    dict(kind='VTODO', start=None, end=('at', ('date', date(2024, 5, 1))), alarms=[dict(trigger=('r', -43200), related='END', repeat=3, duration=21600)]),
    dict(kind='VEVENT', start=('date', date(2024, 5, 1)), end=None, alarms=[dict(trigger=('r', 3600), repeat=1, duration=82800)]),
    dict(kind='VEVENT', start=('date', date(2024, 5, 1)), end=('at', ('date', date(2024, 5, 3))),
         alarms=[dict(trigger=('r', -1800), related='END', repeat=4, duration=1800)]),
    # an explicit zero DURATION on an all-day start: the end is the start itself, not the RFC default of one day
    dict(kind='VEVENT', start=('date', date(2024, 5, 1)), end=('dur', 0), alarms=[dict(trigger=('r', -3600), related='END'), dict(trigger=('r', 0), related='END', repeat=1, duration=3600)]),
    dict(kind='VTODO', start=('date', date(2024, 5, 1)), end=('dur', 0), alarms=[dict(trigger=('r', -3600), related='END')]),
    dict(kind='VEVENT', start=('utc', datetime(2024, 5, 1, 10, 0)), end=('dur', 0), alarms=[dict(trigger=('r', 600), related='END')]),
    # repaired: lower-case RELATED=start was anchored to the end
    dict(kind='VEVENT', start=('date', date(2020, 3, 29)), end=None, alarms=[dict(trigger=('r', -86400), related='start')]),
]


def all_specs(ctx, n_random):
    for s in CORPUS:
        yield s
    for s in small_domain(ctx.rng):
        yield s
    for s in random_specs(ctx.rng, n_random):
        yield s


# ------------------------------------------------------------------ correspondence

def enc_triggers(tr):
    return 's:%s;e:%s;a:%s' % (','.join(str(x // SEC) for x in tr.start), ','.join(str(x // SEC) for x in tr.end),
                               ','.join(enc_val(x) for x in tr.absolute))


def correspondence(ctx):
    from icalendar.alarms import Alarms
    specs = list(all_specs(ctx, ctx.vol(700)))
    locals_ = ['Europe/Berlin', 'America/New_York', 'UTC']
    for prov in PROVIDERS:
        with provider(prov):
            # Alarms._add on its own
            al = Alarms()
            for _ in range(ctx.vol(600)):
                v = mk_value(rand_start(ctx.rng, ctx.rng.choice(['date', 'float', 'utc', 'zone'])))
                td = ctx.rng.choice(REL_TRIGGERS + [-1800, 1800, 5400, -5400, 172800, -172800, 43200, -43200, 604800])
                if prov == 'zoneinfo' and offset_changes(v, timedelta(seconds=td)):
                    # the known finding: tie the wall-clock model (`wallAdd`) instead of the exact one
                    res = al._add(v, timedelta(seconds=td))
                    ctx.corr('al_wall', [str(wall(v)), str(td), str(res.utcoffset() // SEC), prov], enc_val(res))
                    continue
                ctx.corr('al_add', [enc_val(v), str(td), prov], enc_val(al._add(v, timedelta(seconds=td))))
                ctx.corr('body_al_add', [enc_val(v), str(td), prov], enc_val(al._add(v, timedelta(seconds=td))))
            # the regenerated Alarms._repeat (generator, range loop) against the real one; no zoned values: their sums are
            # wall-clock under zoneinfo (known finding), which `_add` above covers
            from icalendar import Alarm
            for _ in range(ctx.vol(300)):
                v = mk_value(rand_start(ctx.rng, ctx.rng.choice(['date', 'float', 'utc'])))
                rep = ctx.rng.choice([0, 0, 1, 2, 3, 5, -1])
                dur = ctx.rng.choice([None, 0, 60, 3600, 86400, 90000, -3600, 172800, 43200])
                alarm = Alarm()
                if rep:
                    alarm.REPEAT = rep
                if dur is not None:
                    alarm.DURATION = timedelta(seconds=dur)
                ctx.corr('body_al_repeat', [enc_val(v), str(rep), '-' if dur is None else str(dur), prov],
                         'ok:' + ','.join(enc_val(x) for x in al._repeat(v, alarm)))
            for i, spec in enumerate(specs):
                nt = spec_nontrivial(spec)
                hows = ('api', 'text', 'reparse') if i % 3 == 0 or i < len(CORPUS) else (('api', 'text')[i % 2],)
                for how in hows:
                    comp = register_component(ctx, spec, prov, how, nontrivial=nt)
                # Alarm.triggers of every alarm (cumulative additions)
                for a, alarm in zip(spec['alarms'], comp.walk('VALARM')):
                    t = a.get('trigger')
                    if prov == 'zoneinfo' and t is not None and t[0] == 'a' and t[1][0] == 'zone':
                        continue    # un-normalised wall-clock sums of a zoned absolute trigger: not modelled
                    ctx.corr('al_triggers', [enc_alarm_spec(a), prov], enc_triggers(alarm.triggers), nt)
                # a local time zone applied to floating and date results
                if i % 5 == 0 and spec.get('start') is not None and spec['start'][0] in ('date', 'float'):
                    register_component(ctx, spec, prov, 'api', ltz=locals_[i % 3], nontrivial=nt)


# ------------------------------------------------------------------ oracle (no model)

def norm_time(v):
    """canonical time for comparison: a date is a date (not the datetime of its midnight: the times of one alarm
    are of one kind, so that they can be ordered); aware values are instants"""
    if is_date(v):
        return ('d', (v - DEPOCH).days * 86400)
    if v.tzinfo is None:
        return ('f', wall(v))
    return ('a', inst(v))


def plus_options(v, sec):
    """the acceptable readings of `v + sec seconds` (python values, kept in the zone of `v`)"""
    td = timedelta(seconds=sec)
    if is_date(v):
        if sec % 86400 == 0:
            return [v + td]
        return [datetime(v.year, v.month, v.day) + td]
    if v.tzinfo is None:
        return [v + td]
    out = [(v.astimezone(UTC) + td).astimezone(v.tzinfo)]     # exact elapsed time
    days, rest = divmod(sec, 86400) if sec >= 0 else (-((-sec) // 86400), -((-sec) % 86400))
    if days != 0:
        # nominal days on the wall clock of the zone (RFC 5545 3.3.6), then the exact remainder
        moved = v.replace(tzinfo=None) + timedelta(days=days)
        nominal = v.tzinfo.localize(moved) if hasattr(v.tzinfo, 'localize') else moved.replace(tzinfo=v.tzinfo)
        out.append((nominal.astimezone(UTC) + timedelta(seconds=rest)).astimezone(v.tzinfo))
    return out


def wall_plus(v, sec):
    """what wall-clock arithmetic gives (zoneinfo): classification of the known finding only"""
    if is_date(v):
        return plus_options(v, sec)[0]
    return v + timedelta(seconds=sec)


def expected_anchor_end(spec, start_opts):
    """options for the end: DTEND/DUE, DTSTART+DURATION, RFC default; None when it cannot be known"""
    end = spec.get('end')
    if end is not None and end[0] == 'at':
        return [mk_value(end[1])]
    if not start_opts:
        return None
    if end is not None:
        return [o for s in start_opts for o in plus_options(s, end[1])]
    s = start_opts[0]
    return [s + timedelta(days=1)] if is_date(s) else [s]


def related_is_end(rel):
    """the oracle's reading of RELATED: absent or START -> start, END -> end; unquoted parameter values
    are case-insensitive (RFC 5545 3.2)"""
    return rel is not None and rel.upper() == 'END'


def check_spec(ctx, spec, prov, how):
    from icalendar.alarms import Alarms, ComponentEndMissing, ComponentStartMissing
    comp = build(spec, how)
    walk = comp.walk('VALARM')
    start = mk_value(spec.get('start'))
    start_opts = None if start is None else [start]
    end_opts = expected_anchor_end(spec, start_opts)
    # wall-clock variants (only used to recognise the known finding)
    if start is None:
        wend = None
    elif spec.get('end') is not None and spec['end'][0] == 'dur':
        wend = wall_plus(start, spec['end'][1])
    else:
        wend = None
    need_start = need_end = False
    expected = []      # per alarm: list (per k) of sets of acceptable canonical times
    wallexp = []       # per alarm: list of canonical wall-clock results
    for a in spec['alarms']:
        t = a.get('trigger')
        if t is None:
            expected.append([])
            wallexp.append([])
            continue
        reps = a['repeat'] if (a.get('repeat') and a.get('duration') is not None and a['repeat'] > 0) else 0
        dur = a.get('duration') or 0
        if t[0] == 'a':
            firsts = [mk_value(t[1])]
            wfirst = firsts[0]
        else:
            to_end = related_is_end(a.get('related'))
            opts = end_opts if to_end else start_opts
            if opts is None:
                need_end = need_end or to_end
                need_start = need_start or not to_end
                expected.append(None)
                wallexp.append(None)
                continue
            firsts = [o for x in opts for o in plus_options(x, t[1])]
            wanchor = (wend if (to_end and wend is not None) else opts[0])
            wfirst = wall_plus(wanchor, t[1])
        seq = [set(norm_time(f) for f in firsts)]
        wseq = [norm_time(wfirst)]
        for k in range(1, reps + 1):
            seq.append(set(norm_time(o) for f in firsts for o in plus_options(f, dur * k)))
            wseq.append(norm_time(wall_plus(wfirst, dur * k)))
        expected.append(seq)
        wallexp.append(wseq)
    inp = {'spec': to_jsonable(spec), 'provider': prov, 'how': how}
    try:
        ts = Alarms(comp).times
    except (ComponentStartMissing, ComponentEndMissing) as e:
        ok = (need_start and isinstance(e, ComponentStartMissing)) or (need_end and isinstance(e, ComponentEndMissing))
        if not ok:
            ctx.violation('undue-error', inp, f'{type(e).__name__} although no alarm needs the missing anchor '
                          f'(need_start={need_start}, need_end={need_end})')
        return
    except Exception as e:  # noqa: BLE001
        ctx.violation('undocumented-error', inp, f'{type(e).__name__}: {e}')
        return
    if need_start or need_end:
        ctx.violation('missing-error', inp, 'times answered although an alarm is relative to a missing '
                      + ('start' if need_start else 'end'))
        return
    got = [[] for _ in walk]
    for t in ts:
        for i, al in enumerate(walk):
            if al is t.alarm:
                got[i].append(norm_time(t._trigger))
                break
        else:
            ctx.violation('foreign-alarm', inp, 'an alarm time refers to an alarm that is not in the component')
    for i, (g, exp) in enumerate(zip(got, expected)):
        good = len(g) == len(exp) and all(x in e for x, e in zip(g, exp))
        if good:
            continue
        cls = None
        if prov == 'zoneinfo' and len(g) == len(exp) and g == wallexp[i]:
            cls = 'zoneinfo-wallclock-dst'
        ctx.violation('times-mismatch', dict(inp, alarm=i),
                      f'alarm {i}: computed {g}, expected one of {[sorted(e) for e in exp]}', cls)


TWO_ALARMS = (b'BEGIN:VEVENT\r\nUID:leak\r\nDTSTART:20240305T100000Z\r\nDTEND:20240305T120000Z\r\n'
              b'BEGIN:VALARM\r\nACTION:DISPLAY\r\nDESCRIPTION:one\r\nTRIGGER;RELATED=START:-PT15M\r\nEND:VALARM\r\n'
              b'BEGIN:VALARM\r\nACTION:DISPLAY\r\nDESCRIPTION:two\r\nTRIGGER;RELATED=START:-PT30M\r\nEND:VALARM\r\nEND:VEVENT\r\n')


def check_alarms_independent(ctx):
    """the alarm times of one alarm depend on that alarm only: editing one parsed alarm (RELATED) must not move
    its sibling, nor the alarms of a later parse of the same text"""
    from datetime import datetime, timezone
    from icalendar import Event
    ctx.evaluated(('independent-alarms',))
    e = Event.from_ical(TWO_ALARMS)
    a1, a2 = e.walk('VALARM')
    a1.TRIGGER_RELATED = 'END'
    want2 = datetime(2024, 3, 5, 9, 30, tzinfo=timezone.utc)
    got = sorted(t.trigger for t in e.alarms.times)
    want = sorted([datetime(2024, 3, 5, 11, 45, tzinfo=timezone.utc), want2])
    if [g.astimezone(timezone.utc) for g in got] != want:
        ctx.violation('alarm-state-shared', {'text': TWO_ALARMS.decode()},
                      f'after setting RELATED=END on the first alarm only, the times are {got}, expected {want}')
    e2 = Event.from_ical(TWO_ALARMS)
    got2 = sorted(t.trigger.astimezone(timezone.utc) for t in e2.alarms.times)
    want_fresh = sorted([datetime(2024, 3, 5, 9, 45, tzinfo=timezone.utc), want2])
    if got2 != want_fresh:
        ctx.violation('alarm-state-shared', {'text': TWO_ALARMS.decode()},
                      f'a fresh parse of the same text gives {got2} after another parsed copy was edited, expected {want_fresh}')


def check_refused_component(ctx):
    """the computed times of an Alarms object are those of its component, also after it refused another one"""
    from datetime import datetime, timezone
    from icalendar import Alarm, Event, Todo
    from icalendar.alarms import Alarms
    U = timezone.utc

    def comp(cls, start, uid):
        c = cls()
        c.add('uid', uid)
        c.start = start
        c.end = start + timedelta(hours=2) if isinstance(start, datetime) else start + timedelta(days=2)
        for rel in ('START', 'END'):
            a = Alarm()
            a.TRIGGER = timedelta(minutes=-30)
            a.TRIGGER_RELATED = rel
            a.REPEAT = 1
            a.DURATION = timedelta(minutes=10)
            c.add_component(a)
        return c
    first = comp(Event, datetime(2024, 3, 5, 10, tzinfo=U), 'first')
    for other in (comp(Event, datetime(2029, 6, 1, 8, tzinfo=U), 'later'), comp(Todo, date(2030, 1, 1), 'todo')):
        al = Alarms(first)
        before = [t.trigger for t in al.times]
        ctx.evaluated(('refused-component', str(other.get('uid'))))
        try:
            al.add_component(other)
            continue
        except ValueError:
            pass
        after = [t.trigger for t in al.times]
        if after != before:
            ctx.violation('times-after-refused-component', {'other': str(other.get('uid'))},
                          f'add_component of a second component was refused, yet the times changed from {before} to {after}')


EXTRA_ALARM_LINES = ['PROXIMITY:ARRIVE', 'PROXIMITY:DEPART', 'X-WR-ALARMUID:6B5A', 'UID:alarm-1', 'RELATED-TO;RELTYPE=SNOOZE:alarm-0',
                     'DESCRIPTION:text', 'SUMMARY:s', 'ATTENDEE:mailto:a@example.com', 'ACTION:AUDIO', 'ACTION:X-LOCATE', 'X-APPLE-PROXIMITY:ARRIVE',
                     'BEGIN:VLOCATION\r\nUID:loc\r\nEND:VLOCATION', 'X-MOZ-LASTACK:20240101T000000Z', 'CLASS:PUBLIC']


def check_other_alarm_properties(ctx):
    """the computed times depend on TRIGGER, REPEAT, DURATION and the component's times - on nothing else an alarm may carry
    (RFC 9074 PROXIMITY, UID, RELATED-TO, a nested VLOCATION, client extensions): the same alarm with one more line gives the
    same times, and every alarm with a TRIGGER gives at least one"""
    import icalendar
    base = ('BEGIN:VEVENT\r\nUID:e\r\nDTSTART:20240305T100000Z\r\nDTEND:20240305T120000Z\r\n'
            'BEGIN:VALARM\r\nACTION:DISPLAY\r\nTRIGGER:-PT15M\r\nEND:VALARM\r\n'
            'BEGIN:VALARM\r\n%sTRIGGER;RELATED=END:PT5M\r\nREPEAT:2\r\nDURATION:PT10M\r\nEND:VALARM\r\n'
            'BEGIN:VALARM\r\n%sTRIGGER;VALUE=DATE-TIME:20240305T090000Z\r\nEND:VALARM\r\nEND:VEVENT\r\n')

    def times(text):
        ev = icalendar.Event.from_ical(text)
        return sorted(t.trigger for t in ev.alarms.times)
    want = times(base % ('', ''))
    for line in EXTRA_ALARM_LINES:
        ctx.evaluated(('other-alarm-property', line))
        text = base % (line + '\r\n', line + '\r\n')
        try:
            got = times(text)
        except Exception as e:  # noqa: BLE001
            ctx.violation('other-alarm-property', {'ics': text}, f'computing the times raised {type(e).__name__}: {e}', None)
            continue
        if got != want:
            ctx.violation('other-alarm-property', {'ics': text}, f'with the line {line!r} in two of the alarms the times are {got}, without it {want}', None)


def oracle(ctx):
    check_other_alarm_properties(ctx)
    check_alarms_independent(ctx)
    check_refused_component(ctx)
    light = not ctx.escalate and ctx.tier == 'quick'
    specs = list(all_specs(ctx, ctx.vol(500)))
    for prov in PROVIDERS:
        with provider(prov):
            for i, spec in enumerate(specs):
                if light and i >= len(CORPUS) and i % 2 == (0 if prov == 'pytz' else 1):
                    continue
                how = ('api', 'text', 'reparse')[i % 3]
                ctx.evaluated((prov, how, repr(spec)), spec_nontrivial(spec))
                check_spec(ctx, spec, prov, how)


def replay(ctx, data):
    inp = data['input']
    spec = from_jsonable(inp['spec'])
    with provider(inp['provider']):
        check_spec(ctx, spec, inp['provider'], inp.get('how', 'api'))
    for v in ctx.violations:
        print('REPRODUCED', v['kind'], v['detail'], '(class %s)' % v.get('cls'))
    if not ctx.violations:
        print('not reproduced on the current tree')
    return 1 if ctx.violations else 0
