"""C16 - start / end / duration stay consistent after any edit history (VEVENT, VTODO, VJOURNAL)."""
import itertools
from datetime import date, datetime, time, timedelta

LEAN = ['ICal.Props.C16']
LEVEL = 'proof'
FINGERPRINTS = ['cal.create_single_property', 'cal._get_duration', 'cal._set_duration', 'cal._del_duration',
                'cal.Event._get_start_end_duration', 'cal.Event.start', 'cal.Event.end', 'cal.Event.duration',
                'cal.Todo._get_start_end_duration', 'cal.Todo.start', 'cal.Todo.end', 'cal.Todo.duration',
                'cal.Journal.start', 'cal.Journal.duration', 'cal.Component.add', 'caselessdict.CaselessDict.pop']
RULE = ('every operation sequence of length <= 2 (thorough: <= 3 over a reduced alphabet; quick: a sample of those) over '
        '{set DTSTART/DTEND/DUE/DURATION/start/end, del DTSTART/DTEND/DUE/DURATION, add dtstart/dtend/due/duration} x '
        '{None, str, time, date, naive, UTC, zoned, whole-day timedelta, time-of-day timedelta} x {Event, Todo, Journal} x '
        '{zoneinfo, pytz}; seeded random sequences of length 3-8 with values around DST changes; components parsed from '
        'arbitrary combinations (0-2 copies) of DTSTART/DTEND/DUE/DURATION lines with every value shape and wrong VALUE '
        'parameters. After every step: stored keys, the six getters (values as canonical text) and error kinds are compared '
        'with the Lean model. A case is non-trivial when at least one of the four entries is stored.')
ASSUMPTIONS = ['whole-second timedeltas and datetimes (microseconds are outside the model)',
               'no arithmetic overflow beyond year 9999',
               'deleting a name that is not a descriptor of the class (del todo.DTEND on a fresh Todo) is outside the model',
               'zoned values use tzinfo objects handed out by the active provider (tzp.localize)']

ZONES = ['Europe/Berlin', 'America/New_York', 'Asia/Kolkata']
EPOCH = datetime(1970, 1, 1)
EPOCH_D = date(1970, 1, 1)
ACCS = ['DTSTART', 'DTEND', 'DUE', 'DURATION', 'start', 'end']
KEYS = ['DTSTART', 'DTEND', 'DUE', 'DURATION']
CLASSES = ['E', 'T', 'J']
DESCR = {'E': ['DTSTART', 'DTEND', 'DURATION'], 'T': ['DTSTART', 'DUE', 'DURATION'], 'J': ['DTSTART']}
ENDKEY = {'E': 'DTEND', 'T': 'DUE'}


def cls_of(c):
    from icalendar import Event, Todo, Journal
    return {'E': Event, 'T': Todo, 'J': Journal}[c]


def use(prov):
    import icalendar
    if prov == 'p':
        icalendar.use_pytz()
    else:
        icalendar.use_zoneinfo()


# ---------------------------------------------------------------- abstract arguments
# ('N',) ('W', i) ('R', i) ('D', day) ('F', wall) ('U', wall) ('Z', zone, wall) ('T', seconds)

def build(arg):
    """the Python object of an abstract argument, with tzinfo objects of the active provider"""
    from icalendar.timezone import tzp
    k = arg[0]
    if k == 'N':
        return None
    if k == 'W':
        return ['x', 5, b'y', 1.5][arg[1] % 4]
    if k == 'R':
        return time(1, 2, 3) if arg[1] % 2 == 0 else time(0, 0)
    if k == 'D':
        return EPOCH_D + timedelta(days=arg[1])
    if k == 'F':
        return EPOCH + timedelta(seconds=arg[1])
    if k == 'U':
        return tzp.localize_utc(EPOCH + timedelta(seconds=arg[1]))
    if k == 'Z':
        return tzp.localize(EPOCH + timedelta(seconds=arg[2]), ZONES[arg[1]])
    if k == 'T':
        return timedelta(seconds=arg[1])
    raise AssertionError(arg)


def enc_arg(arg, obj):
    k = arg[0]
    if k in 'NWR':
        return k
    if k == 'Z':
        return f'Z{arg[1]}:{arg[2]}:{int(obj.utcoffset().total_seconds())}'
    return f'{k}{arg[1]}'


def enc_op(op, obj=None):
    if op[0] == 'd':
        return f'd;{op[1]}'
    return f'{op[0]};{op[1]};{enc_arg(op[2], obj)}'


def tzname_of(tz):
    return getattr(tz, 'key', None) or getattr(tz, 'zone', None) or str(tz)


def canon(v):
    if v is None:
        return '-'
    if isinstance(v, timedelta):
        if v.microseconds:
            return f'T?{v!r}'
        return f'T{v.days * 86400 + v.seconds}'
    if isinstance(v, datetime):
        wall = v.replace(tzinfo=None) - EPOCH
        w = wall.days * 86400 + wall.seconds
        if v.tzinfo is None:
            return f'F{w}'
        name = tzname_of(v.tzinfo)
        if name == 'UTC':
            return f'U{w}'
        if name in ZONES:
            return f'Z{ZONES.index(name)}:{w}'
        return f'Z?{name}:{w}'
    if isinstance(v, date):
        return f'D{(v - EPOCH_D).days}'
    if isinstance(v, (time, tuple)):
        return 'R'
    return f'?{type(v).__name__}'


def err_kind(e):
    from icalendar.cal import InvalidCalendar, IncompleteComponent
    if isinstance(e, InvalidCalendar):
        return '!IC'
    if isinstance(e, IncompleteComponent):
        return '!INC'
    if isinstance(e, TypeError):
        return '!TE'
    if isinstance(e, AttributeError):
        return '!AE'
    if isinstance(e, ValueError):
        return '!VE'
    return f'!Other:{type(e).__name__}'


def read(comp, name):
    try:
        return canon(getattr(comp, name))
    except Exception as e:  # noqa: BLE001 - the kind is the observation
        return err_kind(e)


def keys_of(comp):
    k = ''.join(ch for ch, n in zip('SEUD', KEYS) if n in comp)
    return k or '-'


def record(c, comp, res):
    has_end = c != 'J'
    return ';'.join([res, keys_of(comp), read(comp, 'DTSTART'),
                     read(comp, ENDKEY[c]) if has_end else '-',
                     read(comp, 'DURATION') if has_end else '-',
                     read(comp, 'start'), read(comp, 'end'), read(comp, 'duration')])


def apply_op(comp, op, obj):
    if op[0] == 's':
        setattr(comp, op[1], obj)
    elif op[0] == 'd':
        delattr(comp, op[1])
    else:
        comp.add(op[1].lower(), obj)


def run_impl(c, ops):
    """-> (encoded op fields, records) on the real code under the active provider"""
    comp = cls_of(c)()
    recs = [record(c, comp, 'new')]
    fields = []
    for op in ops:
        obj = build(op[2]) if op[0] != 'd' else None
        fields.append(enc_op(op, obj))
        try:
            apply_op(comp, op, obj)
            res = 'ok'
        except Exception as e:  # noqa: BLE001
            res = err_kind(e)
        recs.append(record(c, comp, res))
    return fields, recs


# ---------------------------------------------------------------- alphabets

D0 = 18262                      # 2020-01-01
W0 = D0 * 86400 + 12 * 3600
REPR_ARGS = [('N',), ('W', 0), ('R', 0), ('D', D0), ('F', W0), ('U', W0 + 1800), ('Z', 0, W0 + 3600),
             ('T', 2 * 86400), ('T', 3600)]
CORE_ARGS = [('N',), ('D', D0 + 1), ('F', W0 + 60), ('Z', 1, W0), ('T', 86400), ('T', -1800), ('W', 1)]
CORE_ADD = [('D', D0 + 2), ('F', W0), ('U', W0), ('T', 7200)]


# day offsets from 2020-01-01 around the 2020 DST changes of Europe/Berlin (03-29, 10-25) and America/New_York (03-08, 11-01)
DST_DAYS = [0, 1, 2, 66, 67, 68, 87, 88, 89, 298, 299, 300, 304, 305, 306, 365]
DST_SECS = [0, 3600, 5400, 7200, 9000, 10800, 43200]


def dst_pairs():
    """start / end in one zone on both sides of every DST change: zoneinfo subtracts wall clocks, pytz instants"""
    for z in range(len(ZONES)):
        for d1, d2 in [(66, 67), (67, 68), (87, 88), (88, 89), (298, 299), (299, 300), (304, 305), (305, 306), (88, 88), (299, 299)]:
            for s1 in DST_SECS:
                for s2 in DST_SECS:
                    yield ('Z', z, (D0 + d1) * 86400 + s1), ('Z', z, (D0 + d2) * 86400 + s2)


def alphabet(c, set_args, add_args, foreign=True):
    ops = []
    for a in ACCS:
        if not foreign and a in KEYS and a not in DESCR[c]:
            continue
        for x in set_args:
            ops.append(('s', a, x))
    for k in DESCR[c]:
        ops.append(('d', k))
    for k in KEYS:
        for x in add_args:
            ops.append(('a', k, x))
    return ops


def rand_arg(rng):
    r = rng.random()
    day = D0 + rng.choice(DST_DAYS)
    sec = rng.choice([0, 1, 3600, 5400, 7200, 9000, 10800, 43200, 86399])
    if r < 0.07:
        return ('N',)
    if r < 0.11:
        return ('W', rng.randrange(4))
    if r < 0.14:
        return ('R', rng.randrange(2))
    if r < 0.32:
        return ('D', day)
    if r < 0.46:
        return ('F', day * 86400 + sec)
    if r < 0.56:
        return ('U', day * 86400 + sec)
    if r < 0.78:
        return ('Z', rng.randrange(len(ZONES)), day * 86400 + sec)
    return ('T', rng.choice([0, 1, -1, 60, 3600, -3600, 86400, -86400, 90000, 172800, 604800, 86400 * 30, 86399, -90000, 1800]))


def rand_op(rng, c):
    r = rng.random()
    if r < 0.55:
        a = rng.choice(ACCS) if rng.random() < 0.15 else rng.choice(DESCR[c] + ['start', 'end'])
        return ('s', a, rand_arg(rng))
    if r < 0.70:
        return ('d', rng.choice(DESCR[c]))
    return ('a', rng.choice(KEYS), rand_arg(rng))


# ---------------------------------------------------------------- parsed states

def ical_dt(wall):
    return (EPOCH + timedelta(seconds=wall)).strftime('%Y%m%dT%H%M%S')


def ical_dur(s, plus=False, weeks=False):
    """RFC 5545 3.3.6 dur-value: optional sign (an explicit plus is allowed), weeks form for whole weeks"""
    sign = '-' if s < 0 else ('+' if plus else '')
    s = abs(s)
    if weeks and s and s % 604800 == 0:
        return f'{sign}P{s // 604800}W'
    d, r = divmod(s, 86400)
    h, r = divmod(r, 3600)
    m, sec = divmod(r, 60)
    t = ''
    if h or m or sec:
        t = 'T' + (f'{h}H' if h else '') + (f'{m}M' if m else '') + (f'{sec}S' if sec else '')
    if not d and not t:
        return sign + 'PT0S'
    return sign + 'P' + (f'{d}D' if d else '') + t


def rand_line(rng, name):
    """-> (content line, abstract arg or None when the value does not parse)"""
    arg = rand_arg(rng)
    while arg[0] in 'NW':
        arg = rand_arg(rng)
    params = ''
    if rng.random() < 0.3:
        params = ';VALUE=' + rng.choice(['DATE', 'DATE-TIME', 'DURATION', 'PERIOD', 'TIME', 'TEXT'])
    k = arg[0]
    if rng.random() < 0.06:
        return f'{name}{params}:{rng.choice(["garbage", "2020", "", "20201301", "T120000", "20200101T250000"])}', None
    if rng.random() < 0.03:
        return f'{name}{params}:{rng.choice(["P", "PT", "-P"])}', ('T', 0)      # read as timedelta(0)
    if k == 'D':
        txt = (EPOCH_D + timedelta(days=arg[1])).strftime('%Y%m%d')
    elif k == 'F':
        txt = ical_dt(arg[1])
    elif k == 'U':
        txt = ical_dt(arg[1]) + 'Z'
    elif k == 'Z':
        if name == 'DURATION':
            arg = ('F', arg[2])         # TZID is honoured for the date-time names only
            txt = ical_dt(arg[1])
        else:
            params += f';TZID={ZONES[arg[1]]}'
            txt = ical_dt(arg[2])
    elif k == 'T':
        txt = ical_dur(arg[1], plus=rng.random() < 0.3, weeks=rng.random() < 0.5)
    else:
        if arg[1] % 2 == 0:
            txt = '010203'
        else:
            txt = ical_dt(W0) + '/' + rng.choice(['PT1H', ical_dt(W0 + 3600)])
    return f'{name}{params}:{txt}', arg


def rand_parsed(rng, c):
    lines = []
    for name in KEYS:
        r = rng.random()
        n = 0 if r < 0.3 else (1 if r < 0.85 else 2)
        for _ in range(n):
            lines.append(rand_line(rng, name))
    rng.shuffle(lines)
    return lines


def parse_case(c, lines):
    """-> (op fields, final record) or None when from_ical refuses the text"""
    kind = {'E': 'VEVENT', 'T': 'VTODO', 'J': 'VJOURNAL'}[c]
    text = '\r\n'.join([f'BEGIN:{kind}'] + [ln for ln, _ in lines] + [f'END:{kind}', ''])
    try:
        comp = cls_of(c).from_ical(text)
    except ValueError:
        return None
    fields = []
    for ln, arg in lines:
        if arg is None:
            continue                     # a bad value in a VEVENT is skipped (ignore_exceptions)
        name = ln.split(';')[0].split(':')[0]
        fields.append(enc_op(('a', name, arg), build(arg)))
    return fields, record(c, comp, 'ok'), comp, text


def check_parsed_matches_text(ctx, c, lines, got, where):
    """the state produced by parsing holds exactly the values the text gives: every line whose value is of one of
    the RFC's forms is stored, in text order, as the Python value it denotes (so that start/end/duration are
    derived from what the text says and not from a subset of it)"""
    def bad(kind, detail):
        ctx.violation(kind, where, detail)
    valid = [(ln.split(';')[0].split(':')[0], arg) for ln, arg in lines if arg is not None]
    if got is None:
        if len(valid) == len(lines):
            bad('valid-text-rejected', 'from_ical raised ValueError although every line holds a value of an RFC 5545 form: '
                + ' | '.join(ln for ln, _ in lines))
        return
    comp = got[2]
    for name in KEYS:
        want = [canon(build(arg)) for n, arg in valid if n == name]
        raw = comp.get(name)
        vals = [] if raw is None else (raw if isinstance(raw, list) else [raw])
        have = []
        for v in vals:
            have.append(canon(v.dt) if hasattr(v, 'dt') else f'?{type(v).__name__}')
        if have != want:
            bad('parsed-state-differs-from-text', f'{name}: the text gives {want}, the parsed component holds {have}; '
                + ' | '.join(ln for ln, _ in lines))


# ---------------------------------------------------------------- correspondence

def stored(rec):
    return rec.split(';')[1] != '-'


def corr_seq(ctx, c, prov, ops):
    fields, recs = run_impl(c, ops)
    ctx.corr('se', [c, prov] + fields, '|'.join(recs), any(stored(r) for r in recs))
    for r in recs:
        for f in r.split(';')[2:]:
            if f.startswith('!'):
                ctx.count('getter:' + f)


def correspondence(ctx):
    import icalendar
    thorough = ctx.tier == 'thorough' or ctx.escalate
    try:
        for prov in ('z', 'p'):
            use(prov)
            for c in CLASSES:
                alpha = alphabet(c, REPR_ARGS, REPR_ARGS)
                for n in (0, 1, 2):
                    for ops in itertools.product(alpha, repeat=n):
                        corr_seq(ctx, c, prov, ops)
                core = alphabet(c, CORE_ARGS, CORE_ADD, foreign=False)
                if thorough and prov == 'z':
                    for ops in itertools.product(core, repeat=3):
                        corr_seq(ctx, c, prov, ops)
                else:
                    for _ in range(ctx.vol(700, 1)):
                        corr_seq(ctx, c, prov, [ctx.rng.choice(core) for _ in range(3)])
                if c != 'J':
                    for a, b in dst_pairs():
                        if thorough or ctx.rng.random() < 0.25:
                            corr_seq(ctx, c, prov, [('s', 'start', a), ('s', 'end', b)])
                            ctx.count('dst_pair')
                for _ in range(ctx.vol(1000)):
                    ops = [rand_op(ctx.rng, c) for _ in range(ctx.rng.randint(3, 8))]
                    corr_seq(ctx, c, prov, ops)
                    ctx.count(f'random_len:{len(ops)}')
                for _ in range(ctx.vol(500)):
                    lines = rand_parsed(ctx.rng, c)
                    got = parse_case(c, lines)
                    if got is None:
                        ctx.count('parse:refused')
                        continue
                    fields, rec, _, _ = got
                    ctx.corr('se_last', [c, prov] + fields, rec, stored(rec))
                    ctx.count('parse:ok')
    finally:
        icalendar.use_zoneinfo()


# ---------------------------------------------------------------- oracle (implementation only)

def get(comp, name):
    """-> ('ok', value) | ('IC',) | ('INC',) | ('bad', exception)"""
    from icalendar.cal import InvalidCalendar, IncompleteComponent
    try:
        return ('ok', getattr(comp, name))
    except InvalidCalendar:
        return ('IC',)
    except IncompleteComponent:
        return ('INC',)
    except Exception as e:  # noqa: BLE001
        return ('bad', e)


def single(comp, key):
    """the stored Python value when the entry is one property, else None"""
    v = comp.get(key)
    if v is None or isinstance(v, list):
        return None
    return getattr(v, 'dt', getattr(v, 'td', None))


def is_d(v):
    return isinstance(v, date) and not isinstance(v, datetime)


def check_state(ctx, c, comp, where):
    """the property on one component state; `where` is the replayable description"""
    def bad(kind, detail):
        ctx.violation(kind, where, detail, None)
    names = ['DTSTART', 'start', 'end', 'duration'] + ([ENDKEY[c], 'DURATION'] if c != 'J' else [])
    res = {n: get(comp, n) for n in names}
    for n, r in res.items():
        if r[0] == 'bad':
            bad('undocumented-error', f'{n} getter raised {type(r[1]).__name__}: {r[1]}')
        if r[0] == 'INC' and n.isupper():
            bad('undocumented-error', f'{n} getter raised IncompleteComponent')
    st, en, du = res['start'], res['end'], res['duration']
    if c == 'J':
        if st != en:
            bad('journal', f'start {st!r} and end {en!r} differ')
        if du != ('ok', timedelta(0)):
            bad('journal', f'duration is {du!r}, not timedelta(0)')
        if 'DTSTART' not in comp and st[0] != 'INC':
            bad('missing-start', f'start is {st!r} without DTSTART')
        return
    ek = ENDKEY[c]
    has_end, has_dur, has_start = ek in comp, 'DURATION' in comp, 'DTSTART' in comp
    sv, ev, dv = single(comp, 'DTSTART'), single(comp, ek), single(comp, 'DURATION')
    trio = (st[0], en[0], du[0])
    # forbidden states are reported, by InvalidCalendar, from all three getters
    if has_end and has_dur and trio != ('IC', 'IC', 'IC'):
        bad('both-not-reported', f'{ek} and DURATION both stored but start/end/duration gave {trio}')
    if isinstance(sv, date) and isinstance(ev, date) and is_d(sv) != is_d(ev) and trio != ('IC', 'IC', 'IC'):
        bad('mismatch-not-reported', f'DTSTART {sv!r} and {ek} {ev!r} differ in type but start/end/duration gave {trio}')
    if is_d(sv) and isinstance(dv, timedelta) and dv.seconds != 0 and trio != ('IC', 'IC', 'IC'):
        bad('date-with-time-duration-not-reported', f'DTSTART {sv!r} with DURATION {dv!r}: start/end/duration gave {trio}')
    if not has_start:
        if st[0] not in ('INC', 'IC'):
            bad('missing-start', f'start is {st!r} without DTSTART')
        if du[0] not in ('INC', 'IC'):
            bad('missing-start', f'duration is {du!r} without DTSTART')
    # identities whenever the getters return
    if st[0] == 'ok' and en[0] == 'ok':
        s, e = st[1], en[1]
        if du[0] != 'ok':
            bad('duration-undefined', f'start {s!r} and end {e!r} are defined but duration gave {du!r}')
        else:
            try:
                diff = e - s
            except TypeError as ex:
                diff = ex
            if du[1] != diff:
                bad('duration-identity', f'duration {du[1]!r} but end - start = {diff!r}')
        if has_dur:
            subday_on_date = is_d(s) and isinstance(dv, timedelta) and (dv.seconds or dv.microseconds)
            if not isinstance(dv, timedelta) or e != s + dv or (du[0] == 'ok' and du[1] != dv and not subday_on_date):
                bad('end-identity', f'DURATION {dv!r}: start {s!r}, end {e!r}, duration {du!r}')
        elif has_end:
            if e != ev or type(e) is not type(ev):
                bad('end-identity', f'{ek} {ev!r} stored but end is {e!r}')
        else:
            want = s + timedelta(days=1) if is_d(s) else s
            if e != want or type(e) is not type(want):
                bad('end-identity', f'only DTSTART {s!r}: end is {e!r}, expected {want!r}')
        if s != sv:
            bad('start-identity', f'start {s!r} differs from stored DTSTART {sv!r}')
    elif st[0] == 'ok' and not has_end and not has_dur:
        bad('end-identity', f'only DTSTART {st[1]!r} but end gave {en!r}')


class SubDate(date):
    """a date that is an instance of a subclass (what time-freezing libraries and date helpers hand out)"""


class SubDateTime(datetime):
    pass


def exotic_of(obj, mode):
    """the same value as another kind of Python object: subclass instances; a duration with microseconds"""
    if mode == 0 or obj is None:
        return obj
    if isinstance(obj, datetime):
        return SubDateTime(obj.year, obj.month, obj.day, obj.hour, obj.minute, obj.second, obj.microsecond, tzinfo=obj.tzinfo, fold=obj.fold)
    if isinstance(obj, date):
        return SubDate(obj.year, obj.month, obj.day)
    if isinstance(obj, timedelta) and mode == 2:
        return obj + timedelta(microseconds=1)
    return obj


def oracle_seq(ctx, c, prov, ops, exotic=0):
    """run one history on the real code, checking the property after every step"""
    comp = cls_of(c)()
    edits_only = True
    done = []
    for op in ops:
        obj = build(op[2]) if op[0] != 'd' else None
        done.append(enc_op(op, obj))
        obj = exotic_of(obj, exotic)
        where = {'cls': c, 'prov': prov, 'ops': list(done), 'exotic': exotic}
        before = {k: comp.get(k) for k in KEYS}
        try:
            apply_op(comp, op, obj)
            raised = None
        except Exception as e:  # noqa: BLE001
            raised = e
        if op[0] == 'a':
            edits_only = False
            if raised is not None and not (isinstance(raised, ValueError) and op[2][0] in 'NW'):
                ctx.violation('undocumented-error', where, f'add raised {type(raised).__name__}: {raised}', None)
        elif raised is not None:
            if op[0] == 'd':
                ctx.violation('undocumented-error', where, f'deleter raised {type(raised).__name__}: {raised}', None)
            elif not isinstance(raised, TypeError):
                ctx.violation('undocumented-error', where, f'setter raised {type(raised).__name__}: {raised}', None)
        if raised is not None and any(comp.get(k) is not before[k] for k in KEYS):
            ctx.violation('partial-update', where, f'{type(raised).__name__} raised after the component was changed', None)
        if edits_only and c != 'J' and ENDKEY[c] in comp and 'DURATION' in comp:
            ctx.violation('exclusivity', where, f'{ENDKEY[c]} and DURATION both present after a setter/deleter history', None)
        check_state(ctx, c, comp, where)


CORPUS = [
    # 6103c08: a DURATION that holds a date / date-time / time used to escape as AttributeError / TypeError
    ('E', [('s', 'DTSTART', ('D', D0)), ('a', 'DURATION', ('D', D0 + 2))]),
    ('E', [('s', 'DTSTART', ('F', W0)), ('a', 'DURATION', ('D', D0 + 2))]),
    ('T', [('s', 'DTSTART', ('D', D0)), ('a', 'DURATION', ('R', 0))]),
    ('T', [('s', 'start', ('Z', 0, W0)), ('a', 'DURATION', ('F', W0))]),
    # c5ccc33: floating start with zoned end used to escape as TypeError from duration
    ('E', [('s', 'start', ('F', W0)), ('s', 'end', ('Z', 0, W0 + 3600))]),
    ('T', [('s', 'start', ('U', W0)), ('s', 'end', ('F', W0 + 3600))]),
    # both / mismatch / time-of-day duration on a date
    ('E', [('a', 'DTEND', ('D', D0)), ('a', 'DURATION', ('T', 86400)), ('s', 'DTSTART', ('D', D0))]),
    ('E', [('s', 'DTSTART', ('D', D0)), ('s', 'DTEND', ('F', W0))]),
    ('T', [('s', 'DTSTART', ('D', D0)), ('s', 'DURATION', ('T', 3600))]),
    ('E', [('a', 'DTSTART', ('D', D0)), ('a', 'DTSTART', ('D', D0))]),
]
EXOTIC_CORPUS = [
    [('s', 'DTSTART', ('D', D0))],
    [('s', 'start', ('D', D0))],
    [('s', 'start', ('D', D0)), ('s', 'end', ('D', D0 + 3))],
    [('s', 'DTSTART', ('D', D0)), ('s', 'DURATION', ('T', 172800))],
    [('s', 'DTSTART', ('D', D0)), ('s', 'DURATION', ('T', 172800)), ('d', 'DURATION')],
    [('s', 'DTSTART', ('F', W0)), ('s', 'DURATION', ('T', 3600))],
    [('a', 'DTSTART', ('D', D0)), ('a', 'DURATION', ('T', 86400))],
]

CORPUS_ICS = [
    ('E', 'BEGIN:VEVENT\r\nDTSTART;VALUE=DATE:20200101\r\nDURATION:20200103\r\nEND:VEVENT\r\n'),
    ('E', 'BEGIN:VEVENT\r\nDTSTART:20200101T100000\r\nDURATION:20200103T000000\r\nEND:VEVENT\r\n'),
    ('T', 'BEGIN:VTODO\r\nDTSTART;VALUE=DATE:20200101\r\nDURATION:120000\r\nEND:VTODO\r\n'),
    ('T', 'BEGIN:VTODO\r\nDTSTART:20200101T100000\r\nDURATION:20200101T000000/PT1H\r\nEND:VTODO\r\n'),
    ('E', 'BEGIN:VEVENT\r\nDTSTART:20200101T100000\r\nDTEND;TZID=Europe/Berlin:20200101T120000\r\nEND:VEVENT\r\n'),
    ('E', 'BEGIN:VEVENT\r\nDTSTART:PT1H\r\nDTEND:20200101\r\nDURATION:PT1H\r\nDURATION:PT2H\r\nEND:VEVENT\r\n'),
]


def oracle(ctx):
    import icalendar
    try:
        for prov in ('z', 'p'):
            use(prov)
            for c, ops in CORPUS:
                ctx.evaluated(('corpus', prov, c, tuple(ops)))
                oracle_seq(ctx, c, prov, ops)
            for c in CLASSES:
                for mode in (1, 2):
                    for ops in EXOTIC_CORPUS:
                        ctx.evaluated(('exotic-corpus', prov, c, mode, tuple(ops)))
                        oracle_seq(ctx, c, prov, ops, exotic=mode)
            for c, text in CORPUS_ICS:
                ctx.evaluated(('ics', prov, text))
                comp = cls_of(c).from_ical(text)
                check_state(ctx, c, comp, {'cls': c, 'prov': prov, 'ics': text})
            for c in CLASSES:
                alpha = alphabet(c, REPR_ARGS, REPR_ARGS, foreign=False)
                depth = 2
                for n in range(1, depth + 1):
                    for ops in itertools.product(alpha, repeat=n):
                        if n == 2 and prov == 'p' and not any(len(o) > 2 and o[2][0] == 'Z' for o in ops):
                            continue            # provider-independent: checked once
                        ctx.evaluated((prov, c, ops))
                        oracle_seq(ctx, c, prov, ops)
                if c != 'J':
                    for a, b in dst_pairs():
                        if ctx.rng.random() < 0.1:
                            ops = [('s', 'start', a), ('s', 'end', b)]
                            ctx.evaluated((prov, c, tuple(ops)))
                            oracle_seq(ctx, c, prov, ops)
                for _ in range(ctx.vol(500)):
                    ops = [rand_op(ctx.rng, c) for _ in range(ctx.rng.randint(3, 8))]
                    if ctx.rng.random() < 0.5:
                        ops = [o for o in ops if o[0] != 'a'] or ops        # pure setter/deleter histories
                    ctx.evaluated((prov, c, tuple(ops)))
                    oracle_seq(ctx, c, prov, ops)
                    if ctx.rng.random() < 0.5:
                        mode = ctx.rng.choice([1, 2])
                        ctx.evaluated((prov, c, tuple(ops), 'exotic', mode))
                        oracle_seq(ctx, c, prov, ops, exotic=mode)
                for _ in range(ctx.vol(300)):
                    lines = rand_parsed(ctx.rng, c)
                    got = parse_case(c, lines)
                    kind = {'E': 'VEVENT', 'T': 'VTODO', 'J': 'VJOURNAL'}[c]
                    text0 = '\r\n'.join([f'BEGIN:{kind}'] + [ln for ln, _ in lines] + [f'END:{kind}', ''])
                    check_parsed_matches_text(ctx, c, lines, got, {
                        'cls': c, 'prov': prov, 'ics': text0,
                        'lines': [[ln, None if a is None else enc_arg(a, build(a))] for ln, a in lines]})
                    if got is None:
                        continue
                    _, _, comp, text = got
                    ctx.evaluated(('ics', prov, text))
                    check_state(ctx, c, comp, {'cls': c, 'prov': prov, 'ics': text})
    finally:
        icalendar.use_zoneinfo()


# ---------------------------------------------------------------- replay

def dec_arg(f):
    k = f[0]
    if k == 'N':
        return ('N',)
    if k in 'WR':
        return (k, 0)
    if k == 'Z':
        z, w, _ = f[1:].split(':')
        return ('Z', int(z), int(w))
    return (k, int(f[1:]))


def dec_op(f):
    p = f.split(';')
    return ('d', p[1]) if p[0] == 'd' else (p[0], p[1], dec_arg(p[2]))


def replay(ctx, data):
    import icalendar
    inp = data['input']
    try:
        use(inp.get('prov', 'z'))
        if 'lines' in inp:
            lines = [(ln, None if a is None else dec_arg(a)) for ln, a in inp['lines']]
            got = parse_case(inp['cls'], lines)
            check_parsed_matches_text(ctx, inp['cls'], lines, got, inp)
            if got is not None:
                check_state(ctx, inp['cls'], got[2], inp)
        elif 'ics' in inp:
            comp = cls_of(inp['cls']).from_ical(inp['ics'])
            check_state(ctx, inp['cls'], comp, inp)
        else:
            oracle_seq(ctx, inp['cls'], inp.get('prov', 'z'), [dec_op(f) for f in inp['ops']], exotic=inp.get('exotic', 0))
    finally:
        icalendar.use_zoneinfo()
    for v in ctx.violations:
        print('REPRODUCED', v['kind'], v['detail'])
    if not ctx.violations:
        print('not reproduced on the current tree')
    return 1 if ctx.violations else 0
