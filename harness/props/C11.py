"""C11 - zoned date-times keep wall time, zone id and offset; UTC stays an instant.

(a) correspondence: the code path (vDatetime / vDDDTypes / vDDDLists / vPeriod, Component.add / from_ical,
    create_utc_property, TZP.timezone) against lean/ICal/Model/Zoned.lean.  The time zone library is not in the
    model: for every case the harness tabulates the provider's answers (ids of the zone objects, which names
    the provider knows, offsets of the wall times) into `env`, as C14/C15 do with `localize`.
(b) the provider laws the theorems assume (ProviderLaws in Lemmas/Zoned.lean) cannot be proved - they are the tz
    database.  They are checked on the implementation for the ids of the active provider at wall times around
    every offset transition 1900-2100 (-1 s / 0 / +1 s in wall terms on both sides, inside gaps and folds) and on
    a coarse grid: quick tier a seeded sample of ids + all Etc/*, links, ids that need cleaning; thorough tier
    every id of zoneinfo.available_timezones() and pytz.all_timezones, both providers, 16 processes.
(c) the oracle states the property directly on the implementation (no model).
"""
import os
import random
from contextlib import contextmanager
from datetime import date, datetime, timedelta, timezone as dtz

from harness.proto import enc

LEAN = ['ICal.Props.C11']
LEVEL = 'proof'
FINGERPRINTS = ['timezone.tzid.', 'timezone.tzp.TZP.timezone', 'timezone.tzp.TZP.clean_timezone_id',
                'timezone.tzp.TZP.localize', 'timezone.zoneinfo.ZONEINFO.localize', 'timezone.zoneinfo.ZONEINFO.timezone',
                'timezone.pytz.PYTZ.localize', 'timezone.pytz.PYTZ.timezone', 'prop.vDatetime.', 'prop.vDDDTypes.',
                'prop.vDDDLists.', 'prop.vPeriod.', 'cal.Component.add', 'cal.create_utc_property',
                'cal.Component.from_ical']
RULE = ('zone ids: quick = seeded sample of 60 ids of the active provider + all Etc/*, link names (US/*, backward), '
        'UTC aliases, ids wrapped in "/" ; thorough = every id of zoneinfo.available_timezones() and pytz.all_timezones; '
        'both providers; wall times = for every offset transition of the zone 1900-2100 (union of the pytz table and '
        'the TZif data + footer rule) the wall second before / at / after it on both sides, the middle of the gap or '
        'fold, plus a coarse grid; tzinfo objects of the active provider, of the other library, of dateutil.tz.gettz and '
        'datetime.timezone; fold=0 and fold=1 inputs; routes: single value (DTSTART/DTEND/DUE/RECURRENCE-ID), RDATE/EXDATE '
        'lists, FREEBUSY and RDATE periods (explicit end / duration), DTSTAMP/CREATED/LAST-MODIFIED/ACKNOWLEDGED through add, '
        'DTSTAMP/LAST_MODIFIED/ACKNOWLEDGED through the UTC setters, absolute TRIGGER; a case is non-trivial when the '
        'zone is not UTC')
ASSUMPTIONS = ['"the UTC offset the provider assigns to that wall time" is the provider\'s answer for fold=0 '
               '(tzp.localize of the naive wall time); a fold=1 input re-reads with that offset (DESIGN section 5, '
               'interpretation 5)',
               'a tzinfo object of another library is in the domain when its id is listed by the active provider; '
               'dateutil objects are identified through the equivalence lookup tree, so only the wall time is demanded',
               'whole seconds (microseconds are not representable in DATE-TIME)',
               'lists and periods of the oracle hold zoned values only (floating items are outside the property)',
               'provider laws (ProviderLaws: listed id -> zone with that id, ids clean and non-empty, UTC zone called UTC '
               'with offset 0, localize keeps the wall fields) are hypotheses of the theorems and are checked here, not proved']

PROVIDERS = ('zoneinfo', 'pytz')
EPOCH = datetime(1970, 1, 1)
LO = datetime(1900, 1, 1)
HI = datetime(2100, 12, 31, 23, 59, 59)
UNKNOWN_ID = 'Europe/Nowhere'
CORE_ZONES = ['Europe/Berlin', 'America/New_York', 'Australia/Lord_Howe', 'Asia/Kolkata', 'UTC', 'Etc/UTC',
              'Etc/GMT+5', 'Pacific/Apia', 'US/Eastern', 'Africa/Cairo', 'Europe/Dublin', 'America/St_Johns']
SINGLE_NAMES = ['DTSTART', 'DTEND', 'DUE', 'RECURRENCE-ID']


@contextmanager
def provider(name):
    import icalendar
    getattr(icalendar, 'use_' + name)()
    try:
        yield
    finally:
        icalendar.use_zoneinfo()


def provider_ids(prov):
    if prov == 'zoneinfo':
        import zoneinfo
        return sorted(zoneinfo.available_timezones() - {'localtime', 'Factory'})
    import pytz
    return sorted(pytz.all_timezones)


# ------------------------------------------------------------------ small helpers

def fields(d):
    return (d.year, d.month, d.day, d.hour, d.minute, d.second)


def fmt(w):
    return '%04d%02d%02dT%02d%02d%02d' % tuple(w)


def secs(td):
    return td.days * 86400 + td.seconds


def family(tz):
    import zoneinfo
    from dateutil.tz import tz as dtzmod
    if tz is None:
        return None
    if isinstance(tz, zoneinfo.ZoneInfo):
        return 'zi'
    if hasattr(tz, 'zone') and hasattr(tz, 'localize'):
        return 'pytz'
    if isinstance(tz, dtz):
        return 'dt'
    if type(tz).__module__.startswith('dateutil'):
        return 'du'
    return type(tz).__name__


def key_of(tz):
    from icalendar.timezone.tzid import tzid_from_tzinfo
    return tzid_from_tzinfo(tz)


def zid(tz):
    return (family(tz), key_of(tz))


def instant(v):
    """UTC wall clock of an aware value.  (`==` between aware values of different zones is False by PEP 495
    whenever one of them lies in a fold or gap, so instants are compared through this.)"""
    return v.replace(tzinfo=None, fold=0) - v.utcoffset()


def folded(v):
    """an input value whose offset is not the fold=0 answer of its own zone object: in the model the pair
    (tzinfo, fold=1) is a zone object of its own (same id, other offsets)"""
    if v.tzinfo is None:
        return False
    naive = v.replace(tzinfo=None, fold=0)
    if hasattr(v.tzinfo, 'localize'):
        return v.utcoffset() != v.tzinfo.localize(naive, is_dst=False).utcoffset()
    return v.utcoffset() != naive.replace(tzinfo=v.tzinfo).utcoffset()


def the_provider():
    from icalendar.timezone import tzp
    return tzp._TZP__provider


def make_dt(fam, k, w, fold=0):
    """a datetime with wall fields w in zone k as an object of library `fam`, under the active provider"""
    from icalendar.timezone import tzp
    naive = datetime(*w)
    if fam == 'provider':
        z = tzp.timezone(k)
        if z is None:
            return None
        if tzp.uses_pytz():
            return z.localize(naive, is_dst=bool(fold)) if hasattr(z, 'localize') else naive.replace(tzinfo=z)
        return tzp.localize(naive, z).replace(fold=fold)
    if fam == 'zi':
        import zoneinfo
        try:
            return naive.replace(tzinfo=zoneinfo.ZoneInfo(k), fold=fold)
        except Exception:  # noqa: BLE001
            return None
    if fam == 'pytz':
        import pytz
        try:
            return pytz.timezone(k).localize(naive, is_dst=bool(fold))
        except Exception:  # noqa: BLE001
            return None
    if fam == 'du':
        import dateutil.tz
        z = dateutil.tz.gettz(k)
        return None if z is None else naive.replace(tzinfo=z, fold=fold)
    if fam == 'dt':
        return naive.replace(tzinfo=dtz.utc)
    raise ValueError(fam)


def provider_offset(k, w):
    """the offset the active provider assigns to wall time w in zone k (fold = 0), in seconds"""
    from icalendar.timezone import tzp
    return secs(tzp.localize(datetime(*w), tzp.timezone(k)).utcoffset())


def lines_of(ical):
    from icalendar.parser import Contentlines
    out = []
    for ln in Contentlines.from_ical(ical):
        if ln:
            name, params, val = ln.parts()
            out.append((name, params, val))
    return out


def line_of(ical, uname):
    for name, params, val in lines_of(ical):
        if name.upper() == uname:
            return params, val
    return None


# ------------------------------------------------------------------ transitions of a zone (independent of icalendar)

_TRANS = {}


def utc_transitions(k):
    """UTC seconds (since 1970) of every offset/abbreviation change of zone k between 1900 and 2100:
    union of the pytz table and of the TZif data with its footer rule"""
    if k in _TRANS:
        return _TRANS[k]
    out = set()
    lo, hi = int((LO - EPOCH).total_seconds()), int((HI - EPOCH).total_seconds())
    try:
        import pytz
        tz = pytz.timezone(k)
        for t in getattr(tz, '_utc_transition_times', [])[1:]:
            out.add(int((t - EPOCH).total_seconds()))
    except Exception:  # noqa: BLE001
        pass
    try:
        from zoneinfo import _zoneinfo
        z = _zoneinfo.ZoneInfo.no_cache(k)
        out.update(z._trans_utc)
        after = z._tz_after
        if isinstance(after, _zoneinfo._TZStr):
            last = z._trans_utc[-1] if z._trans_utc else 0
            y0 = max(1900, datetime.fromtimestamp(max(last, 0), dtz.utc).year)
            for y in range(y0, 2101):
                s, e = after.transitions(y)
                out.add(int(s - after.std.utcoff.total_seconds()))
                out.add(int(e - after.dst.utcoff.total_seconds()))
    except Exception:  # noqa: BLE001
        pass
    res = sorted(t for t in out if lo + 2 * 86400 < t < hi - 2 * 86400)
    _TRANS[k] = res
    return res


def offset_at(z, t):
    """offset in seconds of zone object z at UTC second t"""
    u = (EPOCH + timedelta(seconds=t)).replace(tzinfo=dtz.utc)
    return secs(u.astimezone(z).utcoffset())


def walls_around(z, t):
    """wall times (naive field tuples) around the transition at UTC second t: one second before, at and
    after it on both sides, and the middle of the gap / fold; with a tag"""
    try:
        ob, oa = offset_at(z, t - 1), offset_at(z, t)
    except (OverflowError, ValueError):
        return []
    out = []
    for o, side in ((ob, 'before'), (oa, 'after')):
        for d in (-1, 0, 1):
            out.append((fields(EPOCH + timedelta(seconds=t + o + d)), side))
    if ob != oa:
        out.append((fields(EPOCH + timedelta(seconds=t + (ob + oa) // 2)), 'gap' if oa > ob else 'fold'))
    return out


def grid_walls(rng, n):
    span = int((HI - LO).total_seconds())
    step = span // n
    return [(fields(LO + timedelta(seconds=i * step + rng.randrange(step))), 'grid') for i in range(n)]


# ------------------------------------------------------------------ (a) correspondence: env tabulation

class Env:
    """the provider's answers for one case, sent to the model"""

    def __init__(self):
        from icalendar.timezone import tzp
        self.zones = []          # (family, key)
        self.objs = []           # a tzinfo object per zone
        self.lookups = {}
        self.win = {}
        self.cache = {}
        self.offs = {}
        self.walls = set()
        self.utc = self.idx(tzp.localize_utc(datetime(2000, 1, 1)).tzinfo)

    def idx(self, tz, fold1=False):
        z = zid(tz)
        if z[1] is None:
            raise KeyError('tzinfo without id')
        if fold1:
            z = (z[0] + '~fold1', z[1])
        if z not in self.zones:
            self.zones.append(z)
            self.objs.append(tz)
        return self.zones.index(z)

    def idx_dt(self, v):
        return self.idx(v.tzinfo, folded(v))

    def find(self, tz):
        z = zid(tz)
        return str(self.zones.index(z)) if z in self.zones else '?%s:%s' % z

    def note_tzid(self, t):
        """every name TZP.timezone(t) may ask the provider for"""
        from icalendar.timezone import tzp
        from icalendar.timezone.windows_to_olson import WINDOWS_TO_OLSON
        P = the_provider()
        c = tzp.clean_timezone_id(t)
        names = [c, t]
        if c in WINDOWS_TO_OLSON:
            self.win[c] = WINDOWS_TO_OLSON[c]
            names.append(WINDOWS_TO_OLSON[c])
        for n in names:
            z = P.timezone(n)
            if z is not None:
                self.lookups[n] = self.idx(z)
        cz = tzp._TZP__tz_cache.get(c)
        if cz is not None:
            self.cache[c] = self.idx(cz)

    def note_value(self, v):
        """an input value: its zone object, its own offset, its id as a TZID the reader will see"""
        if isinstance(v, tuple):
            for x in v:
                self.note_value(x)
            return
        if not isinstance(v, datetime):
            return
        self.walls.add(fields(v))
        if v.tzinfo is not None:
            i = self.idx_dt(v)
            self.offs[(i, fields(v))] = secs(v.utcoffset())
            self.note_tzid(key_of(v.tzinfo))
            # the wall time it has in UTC (forced-UTC names)
            self.walls.add(fields(v.replace(tzinfo=None) - v.utcoffset()))

    def finish(self):
        """offsets the provider assigns to every wall time of the case in every zone a reader can resolve"""
        from icalendar.timezone import tzp
        for i in set(self.lookups.values()) | set(self.cache.values()) | {self.utc}:
            for w in self.walls:
                if (i, w) in self.offs:
                    continue
                try:
                    self.offs[(i, w)] = secs(tzp.localize(datetime(*w), self.objs[i]).utcoffset())
                except Exception:  # noqa: BLE001
                    pass
        return self

    def encode(self):
        keys = ';'.join(enc(k) for _, k in self.zones)
        lk = ''.join('%s>%d;' % (enc(n), i) for n, i in sorted(self.lookups.items()))
        win = ''.join('%s>%s;' % (enc(a), enc(b)) for a, b in sorted(self.win.items()))
        cache = ''.join('%s>%d;' % (enc(n), i) for n, i in sorted(self.cache.items()))
        offs = ''.join('%d@%s>%d;' % (i, '.'.join(map(str, w)), o) for (i, w), o in sorted(self.offs.items()))
        return '!'.join([keys, lk, win, cache, offs, str(self.utc)])


def enc_wall(w):
    return '.'.join(str(x) for x in w)


def enc_zdt(env, v, with_off=False, register=True):
    if v.tzinfo is None:
        return enc_wall(fields(v)) + '@-'
    z = str(env.idx_dt(v)) if register else env.find(v.tzinfo)
    s = enc_wall(fields(v)) + '@' + z
    if with_off:
        s += '+%d' % secs(v.utcoffset())
    return s


def enc_val(env, v, with_off=False, register=True):
    if isinstance(v, datetime):
        return 'D:' + enc_zdt(env, v, with_off, register)
    if isinstance(v, date):
        return 'd:%d.%d.%d' % (v.year, v.month, v.day)
    if isinstance(v, timedelta):
        return 'P:%d' % secs(v)
    raise ValueError(v)


def enc_item(env, v, with_off=False, register=True):
    if isinstance(v, tuple):
        return enc_val(env, v[0], with_off, register) + '/' + enc_val(env, v[1], with_off, register)
    return enc_val(env, v, with_off, register)


def enc_opt(x):
    return '-' if x is None else '=' + enc(str(x))


def enc_line(params, text):
    return enc_opt(params.get('VALUE')) + '|' + enc_opt(params.get('TZID')) + '|' + enc(text)


def exc(e):
    return 'err:ValueError' if isinstance(e, ValueError) else 'err:' + type(e).__name__


def klass_of(name):
    from icalendar.prop import vDDDLists, vPeriod
    from icalendar import cal
    k = cal.types_factory.for_property(name)
    return 'list' if k is vDDDLists else 'period' if k is vPeriod else 'ddd'


def values_of(prop):
    """the Python values a parsed property holds, as a list of items"""
    from icalendar.prop import vDDDLists
    props = prop if isinstance(prop, list) else [prop]
    out = []
    for p in props:
        if isinstance(p, vDDDLists):
            out += [x.dt for x in p.dts]
        else:
            out.append(p.dt)
    return out


def impl_rt(env, name, value):
    """Component.add -> to_ical -> from_ical"""
    from icalendar import Event
    try:
        e = Event()
        e.add(name, value)
        ical = e.to_ical()
    except Exception as x:  # noqa: BLE001
        return exc(x)
    params, text = line_of(ical, name.upper())
    e2 = Event.from_ical(ical)
    if e2.errors or name.upper() not in e2:
        back = 'err:ValueError'
    else:
        back = 'ok:' + ','.join(enc_item(env, v, True, False) for v in values_of(e2[name.upper()]))
    return enc_line(params, text) + '#' + back


def impl_read(env, name, value_param, tzid, text):
    from icalendar import Event
    ps = ''
    if value_param is not None:
        ps += ';VALUE=' + value_param
    if tzid is not None:
        ps += ';TZID=' + tzid
    ical = 'BEGIN:VEVENT\r\n%s%s:%s\r\nEND:VEVENT\r\n' % (name, ps, text)
    try:
        e = Event.from_ical(ical)
    except ValueError:
        return 'err:ValueError'
    if e.errors or name.upper() not in e:
        return 'err:ValueError'
    return 'ok:' + ','.join(enc_item(env, v, False, False) for v in values_of(e[name.upper()]))


def corr_rt(ctx, prov, name, value, nontrivial=True):
    env = Env()
    items = value if isinstance(value, list) else [value]
    try:
        for it in items:
            env.note_value(it)
        enc_items = ','.join(enc_item(env, it) for it in items)
    except KeyError:
        return
    impl = impl_rt(env, name, value)
    env.finish()
    ctx.corr('zn_rt', [env.encode(), klass_of(name), enc(name), enc_items, prov], impl, nontrivial)


def corr_line(ctx, prov, klass, value):
    """the constructors on their own: derived parameters and text"""
    from icalendar.prop import vDDDLists, vDDDTypes, vPeriod
    env = Env()
    items = value if isinstance(value, list) else [value]
    try:
        for it in items:
            env.note_value(it)
        enc_items = ','.join(enc_item(env, it) for it in items)
    except KeyError:
        return
    try:
        obj = {'ddd': vDDDTypes, 'list': vDDDLists, 'period': vPeriod}[klass](value)
        impl = enc_line(obj.params, obj.to_ical().decode())
    except Exception as x:  # noqa: BLE001
        impl = exc(x)
    ctx.corr('zn_line', [env.finish().encode(), klass, enc_items, prov], impl)


def corr_vdt(ctx, prov, d):
    from icalendar.prop import vDatetime
    env = Env()
    try:
        env.note_value(d)
        e = enc_zdt(env, d)
    except KeyError:
        return
    v = vDatetime(d)
    ctx.corr('zn_vdt', [env.finish().encode(), e, prov], enc_opt(v.params.get('TZID')) + '|' + enc(v.to_ical().decode()))


def corr_vdt_from(ctx, prov, text, tzid, walls=()):
    from icalendar.prop import vDatetime
    env = Env()
    if tzid is not None:
        env.note_tzid(tzid)
    env.finish()
    try:
        v = vDatetime.from_ical(text, tzid)
        impl = 'ok:' + enc_zdt(env, v, False, False)
    except ValueError:
        impl = 'err:ValueError'
    ctx.corr('zn_vdt_from', [env.encode(), enc(text), enc_opt(tzid), prov], impl)


def corr_read(ctx, prov, name, value_param, tzid, text):
    env = Env()
    if tzid is not None:
        env.note_tzid(tzid)
    env.finish()
    impl = impl_read(env, name, value_param, tzid, text)
    ctx.corr('zn_read', [env.encode(), klass_of(name), enc(name.upper()),
                         enc_opt(value_param) + '|' + enc_opt(tzid) + '|' + enc(text), prov], impl)


def corr_utc(ctx, prov, how, d):
    from icalendar import Alarm, Event
    env = Env()
    try:
        env.note_value(d)
        e = enc_zdt(env, d)
    except KeyError:
        return
    env.finish()
    try:
        if how.startswith('add:'):
            name = how[4:]
            c = Event()
            c.add(name, d)
        else:
            name = how[4:]
            c = Alarm() if name == 'ACKNOWLEDGED' else Event()
            setattr(c, name.replace('-', '_'), d)
        params, text = line_of(c.to_ical(), name.upper())
        impl = enc_line(params, text)
    except OverflowError:
        impl = 'err:OverflowError'
    ctx.corr('zn_utc', [env.encode(), 'add:' + enc(how[4:]) if how.startswith('add:') else 'set', e, prov + '/' + how], impl)


def sample_walls(rng, k, n):
    """n wall times of zone k: around a few of its transitions, plus random ones 1900-2100"""
    from icalendar.timezone import tzp
    z = tzp.timezone(k)
    out = []
    ts = utc_transitions(k)
    if z is not None and ts:
        for t in rng.sample(ts, min(len(ts), max(1, n // 4))):
            ws = walls_around(z, t)
            if ws:
                out.append(rng.choice(ws)[0])
    while len(out) < n:
        out.append(fields(LO + timedelta(seconds=rng.randrange(int((HI - LO).total_seconds())))))
    return out[:n]


CUSTOM_CAL = '\r\n'.join([
    'BEGIN:VCALENDAR', 'BEGIN:VTIMEZONE', 'TZID:/X/Custom/', 'BEGIN:STANDARD', 'DTSTART:19700101T000000',
    'TZOFFSETFROM:+0117', 'TZOFFSETTO:+0117', 'TZNAME:XST', 'END:STANDARD', 'END:VTIMEZONE', 'END:VCALENDAR', ''])


def corr_list_bodies(ctx):
    """vDDDLists.from_ical / to_ical against the bodies regenerated from the source by tools/py2lean.py (ops body_ddl_from /
    body_ddl_to; Gen/BodiesDec.lean, Gen/Bodies.lean): comma lists of grammar-generated date / date-time / period /
    duration / time texts, with empty, malformed and repeated parts"""
    from icalendar.prop import vDDDLists
    from harness.props import C03
    rng = ctx.rng
    gens = [C03.gen_date_text, C03.gen_dt_text, C03.gen_dt_text, C03.gen_period_text, C03.gen_dur_text, C03.gen_time_text]
    junk = ['', ' ', 'x', '2020', '20200101T', 'P', '20200101/20200102', '20200101T000000Z/P', ',']
    for i in range(ctx.vol(4000)):
        g = rng.choice(gens) if rng.random() < 0.7 else None
        parts = [(g or rng.choice(gens))(rng) for _ in range(rng.choice([1, 1, 2, 2, 3, 4]))]
        r = rng.random()
        if r < 0.12:
            parts.insert(rng.randint(0, len(parts)), rng.choice(junk))
        elif r < 0.16:
            parts = []
        t = ','.join(parts)
        if 'P' in t and C03.LONG_DIGITS.search(t):
            continue
        try:
            impl = C03.call(lambda: vDDDLists.from_ical(t), lambda xs: ';'.join(C03.ddd_s(x) for x in xs))
        except C03.Skip:
            continue
        ctx.corr('body_ddl_from', [enc(t)], impl, len(parts) > 1)
        if impl.startswith('ok:'):
            try:
                lst = vDDDLists(vDDDLists.from_ical(t))
                texts = [x if isinstance(x, str) else x.decode() for x in (e.to_ical() for e in lst.dts)]
                whole = lst.to_ical().decode()
            except (ValueError, TypeError, OverflowError):
                continue
            ctx.corr('body_ddl_to', [enc(x) for x in texts], enc(whole), len(texts) > 1)


def correspondence(ctx):
    from icalendar import Calendar
    from icalendar.timezone import tzp
    rng = ctx.rng
    corr_list_bodies(ctx)
    # id cleaning
    for s in ['', '/', '//', 'a', '/a', 'a/', '/a/b/', '//a//', 'a//b', '/Europe/Berlin', 'Europe/Berlin/', ' /a/ ',
              '/ /', 'Etc/GMT+1']:
        ctx.corr('zn_clean', [enc(s)], enc(tzp.clean_timezone_id(s)), '/' in s)
    # the day count against CPython: every day 1899-2101, a stride over 0001-9999
    days = list(range(date(1899, 1, 1).toordinal(), date(2101, 12, 31).toordinal() + 1))
    days += list(range(1, 3652060, 97 if ctx.tier == 'quick' and not ctx.escalate else 7)) + [1, 3652059]
    for o in days:
        d = date.fromordinal(o)
        ctx.corr('zn_days', [str(o + 305)], '%d.%d.%d;1' % (d.year, d.month, d.day), False)
    for prov in PROVIDERS:
        with provider(prov):
            ids = provider_ids(prov)
            zones = list(CORE_ZONES) + rng.sample(ids, 8)
            Calendar.from_ical(CUSTOM_CAL)       # puts X/Custom into the proxy's cache
            # TZP.timezone
            for k in zones + ['X/Custom']:
                for t in [k, '/' + k, k + '/', '/' + k + '/', k.lower(), k + 'x']:
                    env = Env()
                    env.note_tzid(t)
                    z = tzp.timezone(t)
                    ctx.corr('zn_timezone', [env.encode(), enc(t), prov], '-' if z is None else env.find(z), t != k)
            for t in ['W. Europe Standard Time', '/Eastern Standard Time', 'Tokyo Standard Time', UNKNOWN_ID, '', '/',
                      'Europe', 'UTC', 'utc', 'GMT', 'Z']:
                env = Env()
                env.note_tzid(t)
                z = tzp.timezone(t)
                ctx.corr('zn_timezone', [env.encode(), enc(t), prov], '-' if z is None else env.find(z))
            fams = ['provider', 'zi', 'pytz', 'du']
            n_walls = ctx.vol(6, 4)
            for k in zones:
                walls = sample_walls(rng, k, n_walls)
                for wi, w in enumerate(walls):
                    fam = fams[wi % len(fams)] if wi else 'provider'
                    d = make_dt(fam, k, w, fold=rng.choice([0, 0, 1]))
                    if d is None or key_of(d.tzinfo) is None:
                        continue
                    nt = key_of(d.tzinfo) != 'UTC'
                    corr_vdt(ctx, prov, d)
                    corr_line(ctx, prov, 'ddd', d)
                    for name in [rng.choice(SINGLE_NAMES), rng.choice(['dtstart', 'TRIGGER', 'ACKNOWLEDGED', 'COMPLETED',
                                                                       'DtEnd'])]:
                        corr_rt(ctx, prov, name, d, nt)
                    for name in ['DTSTAMP', 'created', 'Last-Modified', 'Acknowledged']:
                        corr_rt(ctx, prov, name, d, nt)
                        corr_utc(ctx, prov, 'add:' + name, d)
                    for attr in ['DTSTAMP', 'LAST-MODIFIED', 'ACKNOWLEDGED']:
                        corr_utc(ctx, prov, 'set:' + attr, d)
                    # lists: one zone, two zones, zoned + UTC, zoned + floating, dates, periods
                    d2 = make_dt('provider', k, walls[(wi + 1) % len(walls)])
                    other = make_dt('provider', rng.choice(zones), walls[(wi + 2) % len(walls)])
                    utc = make_dt('provider', 'UTC', walls[(wi + 3) % len(walls)])
                    flo = datetime(*walls[(wi + 4) % len(walls)])
                    for lst in ([d], [d, d2], [d, other], [other, d], [d, utc], [utc, d], [d, flo], [flo, d], [utc, flo],
                                [d.date(), d2.date()], [d.date(), d], [(d, timedelta(hours=2))],
                                [(d, timedelta(hours=2)), (other, timedelta(minutes=90))],
                                [(utc, timedelta(days=1)), utc]):
                        if any(x is None for x in lst):
                            continue
                        corr_line(ctx, prov, 'list', lst)
                        corr_rt(ctx, prov, rng.choice(['RDATE', 'EXDATE', 'rdate']), lst, nt)
                    # periods
                    for per in ((d, timedelta(seconds=rng.choice([0, 1, 3600, 86400, 93784]))),
                                (d, d + timedelta(days=2)), (utc, utc + timedelta(days=2)), (flo, timedelta(hours=1)),
                                (d, (d + timedelta(days=3)).astimezone(dtz.utc))):
                        corr_line(ctx, prov, 'period', per)
                        corr_line(ctx, prov, 'ddd', per)
                        corr_rt(ctx, prov, 'FREEBUSY', per, nt)
                    # hand-written lines: what the parser does with a TZID it is handed
                    t = fmt(w)
                    for tzid in [k, '/' + k, k + '/', UNKNOWN_ID, 'W. Europe Standard Time', k.lower(), None, 'X/Custom']:
                        for text in [t, t + 'Z', t + 'X', t[:-1], t[:8], t + ',' + t + 'Z', t + '/PT1H', t + '/' + t + 'Z']:
                            if rng.random() < (0.35 if ctx.tier == 'quick' and not ctx.escalate else 1.0):
                                name = rng.choice(['DTSTART', 'dtstart', 'DUE', 'RDATE', 'EXDATE', 'FREEBUSY', 'TRIGGER',
                                                   'DTSTAMP', 'ACKNOWLEDGED', 'RECURRENCE-ID'])
                                corr_read(ctx, prov, name, None, tzid, text)
                        corr_vdt_from(ctx, prov, t, tzid)
                        corr_vdt_from(ctx, prov, t + 'Z', tzid)
                        corr_vdt_from(ctx, prov, t + 'x', tzid)
                        corr_vdt_from(ctx, prov, t[:10], tzid)
            # objects that are not from a tz database
            for d in [datetime(2020, 1, 1, 10, tzinfo=dtz.utc), datetime(2020, 6, 1, 10, tzinfo=dtz(timedelta(hours=1))),
                      datetime(2020, 1, 1, 10)]:
                if d.tzinfo is not None and key_of(d.tzinfo) is None:
                    continue
                corr_vdt(ctx, prov, d)
                corr_rt(ctx, prov, 'DTSTART', d)
                corr_rt(ctx, prov, 'DTSTAMP', d)
                corr_rt(ctx, prov, 'RDATE', [d])
            # a zone from the proxy's cache (defined by a VTIMEZONE)
            for text in ['20200101T100000', '20200101T100000Z']:
                corr_read(ctx, prov, 'DTSTART', None, 'X/Custom', text)
                corr_read(ctx, prov, 'DTSTART', None, '/X/Custom/', text)


# ------------------------------------------------------------------ (b) provider laws on the implementation

def check_laws(prov, k, walls, out, counts):
    """ProviderLaws for id k of the active provider, at the given wall times"""
    from icalendar.timezone import tzp, tzid_from_dt
    P = the_provider()

    def bad(kind, detail, wall=None):
        out.append(('provider-law:' + kind, {'provider': prov, 'zone': k, 'wall': wall, 'route': 'law'}, detail, None))
    z = P.timezone(k)
    if z is None:
        bad('ids_zone', 'provider.timezone(%r) is None for a listed id' % k)
        return
    if key_of(z) != k:
        bad('ids_zone', 'tzid_from_tzinfo(provider.timezone(%r)) = %r' % (k, key_of(z)))
    if tzp.clean_timezone_id(k) != k or not k:
        bad('ids_clean', 'listed id %r is empty or changed by cleaning' % k)
    for t in (k, '/' + k, k + '/', '/' + k + '/'):
        z2 = tzp.timezone(t)
        if z2 is None or zid(z2) != zid(z):
            bad('tzp_timezone', 'tzp.timezone(%r) is %r' % (t, z2))
    for w, tag in walls:
        counts['law-walls'] = counts.get('law-walls', 0) + 1
        counts['wall:' + tag] = counts.get('wall:' + tag, 0) + 1
        naive = datetime(*w)
        try:
            d = tzp.localize(naive, z)
        except Exception as x:  # noqa: BLE001
            bad('localize', 'tzp.localize raised %r' % (x,), w)
            continue
        if fields(d) != w:
            bad('localize-keeps-wall', 'localize gave wall %r' % (fields(d),), w)
        if tzid_from_dt(d) != k:
            bad('localize-keeps-id', 'tzid_from_dt(localize(..)) = %r' % (tzid_from_dt(d),), w)
        off = d.utcoffset()
        if off is None:
            bad('offset', 'utcoffset() is None', w)
            continue
        if prov == 'zoneinfo' and (d.fold != 0 or off != naive.replace(tzinfo=z, fold=0).utcoffset()):
            bad('offset-fold0', 'localize does not answer for fold=0', w)
        if prov == 'pytz' and hasattr(z, 'localize') and off != z.localize(naive, is_dst=False).utcoffset():
            bad('offset-fold0', 'localize does not answer like is_dst=False', w)
        # localize_utc: UTC zone called UTC, offset 0, same instant, wall = wall - offset
        u = tzp.localize_utc(d)
        want = fields(naive - off)
        if tzid_from_dt(u) != 'UTC' or secs(u.utcoffset()) != 0 or instant(u) != instant(d) or fields(u) != want:
            bad('localize_utc', 'localize_utc gave %r (%s), expected wall %r' % (fields(u), tzid_from_dt(u), want), w)
    u0 = tzp.localize_utc(datetime(2000, 1, 1))
    if tzid_from_dt(u0) != 'UTC' or fields(u0) != (2000, 1, 1, 0, 0, 0) or secs(u0.utcoffset()) != 0:
        bad('utc_key', 'localize_utc(naive) is not the same wall time in a zone called UTC')


# ------------------------------------------------------------------ (c) oracle: the property on the implementation

def viol(out, kind, inp, detail, cls=None):
    out.append((kind, dict(inp), detail, cls))


def check_reread(out, inp, what, v, w, k, exp_off, cls=None, wall_only=False):
    """v must be wall time w in zone k with the provider's offset"""
    from icalendar.timezone import tzid_from_dt
    if not isinstance(v, datetime):
        viol(out, 'reread-kind', inp, '%s: read back %r' % (what, v), cls)
        return
    if fields(v) != tuple(w):
        viol(out, 'reread-wall', inp, '%s: wall time %r read back as %r' % (what, tuple(w), fields(v)), cls)
    if wall_only:
        return
    if v.tzinfo is None or tzid_from_dt(v) != k:
        viol(out, 'reread-zone', inp, '%s: zone %r read back as %r' % (what, k, None if v.tzinfo is None else tzid_from_dt(v)), cls)
    elif secs(v.utcoffset()) != exp_off:
        viol(out, 'reread-offset', inp, '%s: offset %d read back as %d' % (what, exp_off, secs(v.utcoffset())), cls)


def want_params(out, inp, what, params, k, value=None, cls=None):
    tz = params.get('TZID')
    if k == 'UTC':
        if tz is not None:
            viol(out, 'line-tzid', inp, '%s: UTC value written with TZID=%s' % (what, tz), cls)
    elif tz != k:
        viol(out, 'line-tzid', inp, '%s: TZID is %r, expected %r' % (what, tz, k), cls)
    if value is not None and params.get('VALUE') != value:
        viol(out, 'line-value', inp, '%s: VALUE is %r, expected %r' % (what, params.get('VALUE'), value), cls)


def text_of(w, k):
    return fmt(w) + ('Z' if k == 'UTC' else '')


def check_case(inp, out):
    """one oracle case under the active provider; inp is JSON-able and is the replay"""
    from icalendar import Alarm, Event
    from icalendar.timezone import tzp, tzid_from_dt
    route, k, w, fam, fold = inp['route'], inp['zone'], tuple(inp['wall']), inp.get('family', 'provider'), inp.get('fold', 0)
    d = make_dt(fam, k, w, fold)
    if inp.get('micro'):
        d = d.replace(microsecond=inp['micro'])     # datetime.now(tz) has microseconds; the text has whole seconds
    if d is None:
        return 0
    if tzp.timezone(k) is None:
        return 0                     # not a zone of the active provider
    wall_only = fam == 'du'
    kk = tzid_from_dt(d) if wall_only else k
    if fam in ('provider', 'zi', 'pytz') and tzid_from_dt(d) != k:
        viol(out, 'input-id', inp, 'tzid_from_dt of the input is %r' % (tzid_from_dt(d),))
        return 1
    exp_off = provider_offset(k, w)
    kind, _, arg = route.partition(':')
    if kind == 'single':
        e = Event()
        e.add(arg, d)
        ical = e.to_ical()
        params, text = line_of(ical, arg)
        if text != text_of(w, kk):
            viol(out, 'line-text', inp, 'value text %r, expected %r' % (text, text_of(w, kk)))
        if not wall_only:
            want_params(out, inp, arg, params, k)
        e2 = Event.from_ical(ical)
        if e2.errors or arg not in e2:
            viol(out, 'reparse-failed', inp, 'errors %r' % (e2.errors,))
            return 1
        check_reread(out, inp, arg, e2[arg].dt, w, k, exp_off, None, wall_only)
    elif kind == 'list':
        others = [(o['zone'], tuple(o['wall'])) for o in inp.get('others', [])]
        items = [(k, w, d)] + [(ok, ow, make_dt('provider', ok, ow)) for ok, ow in others]
        mixed = len({i[0] for i in items}) > 1
        cls = 'mixed-zone-list' if mixed else None
        e = Event()
        e.add(arg, [i[2] for i in items])
        ical = e.to_ical()
        params, text = line_of(ical, arg)
        if text != ','.join(text_of(iw, ik) for ik, iw, _ in items):
            viol(out, 'line-text', inp, 'list text %r' % (text,), cls)
        if not mixed:
            want_params(out, inp, arg, params, k)
        e2 = Event.from_ical(ical)
        if e2.errors or arg not in e2:
            viol(out, 'reparse-failed', inp, 'errors %r' % (e2.errors,), cls)
            return 1
        back = values_of(e2[arg])
        if len(back) != len(items):
            viol(out, 'reread-length', inp, '%d items read back as %d' % (len(items), len(back)), cls)
            return 1
        for n, ((ik, iw, _), v) in enumerate(zip(items, back)):
            check_reread(out, inp, '%s[%d]' % (arg, n), v, iw, ik, provider_offset(ik, iw), cls)
    elif kind == 'period':
        name, form = arg.split(':')
        w2 = tuple(inp['end']) if form == 'end' else None
        k2 = inp.get('endzone', k)           # an explicit end in another zone: finding mixed-zone-period
        cls = 'mixed-zone-period' if k2 != k else None
        if form == 'dur':
            second = timedelta(seconds=inp.get('dur', 5400))
        else:
            second = make_dt('provider', k2, w2, inp.get('endfold', 0))
        value = (d, second)
        e = Event()
        try:
            e.add(name, [value] if name != 'FREEBUSY' else value)
            ical = e.to_ical()
        except ValueError as x:
            # start after end: not a period.  Two values carrying the SAME zone object are ordered by their wall
            # clocks (Python's rule), so under zoneinfo a period whose wall clock runs forward is a period, even
            # when its start lies in a gap; objects of different zone instances (pytz) are ordered by instant
            if inp.get('provider') == 'zoneinfo' and fam in ('provider', 'zi') and form == 'end' and k2 == k \
                    and datetime(*w2) > datetime(*w):
                viol(out, 'period-rejected', inp, 'a period whose wall clock runs forward (%s to %s in %s) was rejected: %s' % (
                    text_of(w, k), text_of(w2, k2), k, x))
                return 1
            return 0
        params, text = line_of(ical, name)
        if form == 'end' and text != text_of(w, k) + '/' + text_of(w2, k2):
            viol(out, 'line-text', inp, 'period text %r, expected %r' % (text, text_of(w, k) + '/' + text_of(w2, k2)), cls)
        if form == 'dur' and not text.startswith(text_of(w, k) + '/P'):
            viol(out, 'line-text', inp, 'period text %r' % (text,))
        want_params(out, inp, name, params, k, 'PERIOD', cls)
        try:
            e2 = Event.from_ical(ical)
        except ValueError as x:
            viol(out, 'reparse-failed', inp, 'from_ical raised %s' % (x,), cls)
            return 1
        if e2.errors or name not in e2:
            viol(out, 'reparse-failed', inp, 'errors %r' % (e2.errors,), cls)
            return 1
        back = values_of(e2[name])
        if len(back) != 1 or not isinstance(back[0], tuple):
            viol(out, 'reread-kind', inp, 'period read back as %r' % (back,), cls)
            return 1
        check_reread(out, inp, name + '.start', back[0][0], w, k, exp_off, cls)
        if form == 'end':
            check_reread(out, inp, name + '.end', back[0][1], w2, k2, provider_offset(k2, w2), cls)
        elif back[0][1] != second:
            viol(out, 'reread-duration', inp, 'duration %r read back as %r' % (second, back[0][1]))
    elif kind == 'utc':
        how, name = arg.split(':')
        cls = None      # add('acknowledged', ...) was finding acknowledged-add-not-utc until /repo 7b14630
        c = Alarm() if name == 'ACKNOWLEDGED' else Event()
        if how == 'add':
            c.add(name, d)
        else:
            setattr(c, name.replace('-', '_'), d)
        ical = c.to_ical()
        params, text = line_of(ical, name)
        want = fmt(fields(datetime(*w) - d.utcoffset())) + 'Z'
        if text != want or 'TZID' in params:
            viol(out, 'utc-instant', inp, '%s written as %s%s, the same instant in UTC is %s' % (
                name, ';TZID=%s:' % params['TZID'] if 'TZID' in params else '', text, want), cls)
        c2 = type(c).from_ical(ical)
        v = c2[name].dt if name in c2 else None
        if not isinstance(v, datetime) or v.tzinfo is None or instant(v) != instant(d.replace(microsecond=0)) or tzid_from_dt(v) != 'UTC':
            viol(out, 'utc-reread', inp, '%s read back as %r, not the instant %r in UTC' % (name, v, d), cls)
    elif kind == 'trigger':
        cls = 'absolute-trigger-loses-zone' if k != 'UTC' else None
        a = Alarm()
        a.add('TRIGGER', d)
        ical = a.to_ical()
        params, text = line_of(ical, 'TRIGGER')
        if text != text_of(w, k):
            viol(out, 'line-text', inp, 'TRIGGER text %r, expected %r' % (text, text_of(w, k)), cls)
        want_params(out, inp, 'TRIGGER', params, k, None, cls)
        a2 = Alarm.from_ical(ical)
        check_reread(out, inp, 'TRIGGER', a2['TRIGGER'].dt, w, k, exp_off, cls)
    else:
        raise ValueError(route)
    return 1


def zone_job(args):
    """laws + oracle for one zone id under one provider (runs in a worker process)"""
    prov, k, seed, full, n_trans, n_round = args
    rng = random.Random('%s/%s/%d' % (prov, k, seed))
    out, counts = [], {}
    n_eval = 0
    with provider(prov):
        from icalendar.timezone import tzp
        z = tzp.timezone(k)
        walls = []
        if z is not None:
            ts = utc_transitions(k)
            if not full and len(ts) > n_trans:
                ts = sorted(rng.sample(ts, n_trans - 2) + [ts[0], ts[-1]])
            for t in ts:
                walls += walls_around(z, t)
            walls += grid_walls(rng, 200 if full else 40)
        walls = [x for x in walls if 1900 <= x[0][0] <= 2100]
        counts['transitions'] = len(utc_transitions(k))
        check_laws(prov, k, walls, out, counts)
        n_eval += len(walls) + 1
        # the property itself
        pick = walls if full else (rng.sample(walls, min(len(walls), n_round)) if walls else [])
        special = [x for x in walls if x[1] in ('gap', 'fold')]
        if not full and special:
            pick = pick + rng.sample(special, min(len(special), 3))
        for n, (w, tag) in enumerate(pick):
            base = {'provider': prov, 'zone': k, 'wall': list(w), 'tag': tag}
            cases = [dict(base, route='single:' + SINGLE_NAMES[n % 4], fold=0)]
            if tag == 'fold' or n % 7 == 0:
                cases.append(dict(base, route='single:DTSTART', fold=1))
            r = n % (4 if full else 2)
            if r == 0 or tag in ('gap', 'fold'):
                w2 = rng.choice(walls)[0]
                cases.append(dict(base, route='list:' + ('RDATE', 'EXDATE')[n % 2],
                                  others=[{'zone': k, 'wall': list(w2)}] + ([{'zone': k, 'wall': list(rng.choice(walls)[0])}] if n % 3 == 0 else [])))
                cases.append(dict(base, route='period:%s:dur' % ('FREEBUSY', 'RDATE')[n % 2], dur=rng.choice([0, 1, 1800, 3600, 86400, 90061])))
                wend = fields(datetime(*w) + timedelta(days=2, seconds=rng.randrange(86400)))
                if wend[0] <= 2100:
                    cases.append(dict(base, route='period:%s:end' % ('RDATE', 'FREEBUSY')[n % 2], end=list(wend)))
                if tag in ('gap', 'fold'):
                    # a short period that starts at this special wall time, and one that ends at it
                    for mins in (20, 40):
                        cases.append(dict(base, route='period:FREEBUSY:end', end=list(fields(datetime(*w) + timedelta(minutes=mins)))))
                    wb = fields(datetime(*w) - timedelta(hours=3))
                    cases.append(dict(base, wall=list(wb), route='period:RDATE:end', end=list(w), endfold=n % 2))
                cases.append(dict(base, route='utc:add:' + ('DTSTAMP', 'CREATED', 'LAST-MODIFIED', 'ACKNOWLEDGED')[n % 4], fold=n % 2,
                                  micro=(250000 if n % 3 == 0 else 0)))
                cases.append(dict(base, route='utc:set:' + ('DTSTAMP', 'LAST-MODIFIED', 'ACKNOWLEDGED')[n % 3], fold=(n + 1) % 2))
            if r == 1:
                for fam in ('zi', 'pytz', 'du'):
                    cases.append(dict(base, route='single:' + SINGLE_NAMES[n % 4], family=fam, fold=n % 2))
            for inp in cases:
                try:
                    n_eval += check_case(inp, out)
                except Exception as x:  # noqa: BLE001
                    viol(out, 'exception', inp, '%s: %s' % (type(x).__name__, x))
                counts['route:' + inp['route'].split(':')[0]] = counts.get('route:' + inp['route'].split(':')[0], 0) + 1
    return {'prov': prov, 'zone': k, 'violations': out[:20], 'n_viol': len(out), 'counts': counts, 'evals': n_eval}


def quick_ids(rng, prov):
    ids = provider_ids(prov)
    etc = [k for k in ids if k.startswith('Etc/')]
    links = [k for k in ids if k.startswith('US/') or '/' not in k][:40]
    return sorted(set(rng.sample(ids, 60) + etc + links + CORE_ZONES) & set(ids))


def oracle(ctx):
    import multiprocessing
    full = ctx.tier == 'thorough' or ctx.escalate
    jobs = []
    for prov in PROVIDERS:
        ids = provider_ids(prov) if full else quick_ids(ctx.rng, prov)
        for k in ids:
            jobs.append((prov, k, ctx.seed, ctx.tier == 'thorough', 10 ** 6, 60))
    n = min(16, os.cpu_count() or 1)
    with multiprocessing.get_context('fork').Pool(n) as pool:
        rs = pool.map(zone_job, jobs, chunksize=4)
    for r in rs:
        ctx.count('oracle_evaluations', r['evals'])
        ctx.count('zones:' + r['prov'])
        for c, v in r['counts'].items():
            ctx.count(c, v)
        ctx.evaluated((r['prov'], r['zone'], r['evals']), r['zone'] != 'UTC')
        for kind, inp, detail, cls in r['violations']:
            ctx.violation(kind, inp, detail, cls)
    # the recorded findings, and the corner cases of the property, in this process
    out = []
    B, NY = 'Europe/Berlin', 'America/New_York'
    for prov in PROVIDERS:
        with provider(prov):
            fixed = [
                # two zones in one list (finding mixed-zone-list), both orders; zone + UTC
                {'route': 'list:RDATE', 'zone': B, 'wall': [2020, 1, 1, 10, 0, 0], 'others': [{'zone': NY, 'wall': [2020, 1, 2, 10, 0, 0]}]},
                {'route': 'list:EXDATE', 'zone': NY, 'wall': [2020, 1, 1, 10, 0, 0], 'others': [{'zone': B, 'wall': [2020, 1, 2, 10, 0, 0]}]},
                {'route': 'list:RDATE', 'zone': B, 'wall': [2020, 1, 1, 10, 0, 0], 'others': [{'zone': 'UTC', 'wall': [2020, 1, 2, 10, 0, 0]}]},
                {'route': 'list:RDATE', 'zone': 'UTC', 'wall': [2020, 1, 1, 10, 0, 0], 'others': [{'zone': B, 'wall': [2020, 1, 2, 10, 0, 0]}]},
                # a period that ends in another zone than it starts (finding mixed-zone-period)
                {'route': 'period:FREEBUSY:end', 'zone': B, 'wall': [2020, 1, 1, 10, 0, 0], 'end': [2020, 1, 1, 10, 0, 0], 'endzone': NY},
                {'route': 'period:RDATE:end', 'zone': NY, 'wall': [2020, 1, 1, 10, 0, 0], 'end': [2020, 1, 3, 9, 0, 0], 'endzone': 'UTC'},
                # absolute TRIGGER
                {'route': 'trigger', 'zone': B, 'wall': [2020, 1, 1, 10, 0, 0]},
                {'route': 'trigger', 'zone': 'UTC', 'wall': [2020, 1, 1, 10, 0, 0]},
                # ACKNOWLEDGED through add instead of its setter (witness of the repaired acknowledged-add-not-utc)
                {'route': 'utc:add:ACKNOWLEDGED', 'zone': B, 'wall': [2020, 1, 1, 10, 0, 0]},
                {'route': 'utc:set:ACKNOWLEDGED', 'zone': B, 'wall': [2020, 1, 1, 10, 0, 0]},
                # gap and fold of Berlin 2020, both fold values
                {'route': 'single:DTSTART', 'zone': B, 'wall': [2020, 3, 29, 2, 30, 0], 'fold': 0},
                {'route': 'single:DTSTART', 'zone': B, 'wall': [2020, 3, 29, 2, 30, 0], 'fold': 1},
                {'route': 'single:DTSTART', 'zone': B, 'wall': [2020, 10, 25, 2, 30, 0], 'fold': 0},
                {'route': 'single:DTSTART', 'zone': B, 'wall': [2020, 10, 25, 2, 30, 0], 'fold': 1},
                {'route': 'utc:add:DTSTAMP', 'zone': B, 'wall': [2020, 10, 25, 2, 30, 0], 'fold': 1},
                {'route': 'utc:add:CREATED', 'zone': 'Pacific/Apia', 'wall': [2011, 12, 29, 23, 59, 59], 'fold': 0},
                {'route': 'utc:add:DTSTAMP', 'zone': B, 'wall': [2021, 10, 31, 2, 30, 0], 'fold': 1, 'micro': 250000},
                # periods at a gap: start inside it with the end just after (shorter than the gap); end inside it (both
                # readings); start before and end after; and the repeated hour
                {'route': 'period:FREEBUSY:end', 'zone': B, 'wall': [2021, 3, 28, 2, 30, 0], 'end': [2021, 3, 28, 3, 10, 0]},
                {'route': 'period:RDATE:end', 'zone': B, 'wall': [2021, 3, 28, 2, 45, 0], 'end': [2021, 3, 28, 3, 15, 0]},
                {'route': 'period:FREEBUSY:dur', 'zone': B, 'wall': [2021, 3, 28, 2, 45, 0], 'dur': 1800},
                {'route': 'period:FREEBUSY:end', 'zone': B, 'wall': [2021, 3, 28, 1, 30, 0], 'end': [2021, 3, 28, 2, 30, 0], 'endfold': 0},
                {'route': 'period:FREEBUSY:end', 'zone': B, 'wall': [2021, 3, 28, 1, 30, 0], 'end': [2021, 3, 28, 2, 30, 0], 'endfold': 1},
                {'route': 'period:RDATE:end', 'zone': B, 'wall': [2020, 11, 1, 12, 0, 0], 'end': [2021, 3, 28, 2, 30, 0], 'endfold': 0},
                {'route': 'period:RDATE:end', 'zone': NY, 'wall': [2021, 3, 14, 1, 0, 0], 'end': [2021, 3, 14, 2, 0, 0], 'endfold': 1},
                {'route': 'period:FREEBUSY:end', 'zone': 'Pacific/Apia', 'wall': [2011, 12, 30, 8, 0, 0], 'end': [2011, 12, 31, 1, 0, 0]},
                {'route': 'period:FREEBUSY:end', 'zone': B, 'wall': [2021, 10, 31, 2, 10, 0], 'end': [2021, 10, 31, 2, 50, 0], 'endfold': 1},
                {'route': 'utc:add:LAST-MODIFIED', 'zone': 'Australia/Lord_Howe', 'wall': [2021, 4, 4, 1, 45, 0], 'fold': 1, 'micro': 1},
                {'route': 'utc:set:DTSTAMP', 'zone': B, 'wall': [2021, 10, 31, 2, 30, 0], 'fold': 1, 'micro': 999999},
            ]
            for inp in fixed:
                inp = dict(inp, provider=prov)
                for fam in ('provider', 'zi', 'pytz'):
                    i2 = dict(inp, family=fam)
                    ctx.evaluated(sorted(i2.items(), key=str), True)
                    try:
                        check_case(i2, out)
                    except Exception as x:  # noqa: BLE001
                        viol(out, 'exception', i2, '%s: %s' % (type(x).__name__, x))
            for w in ([2020, 1, 1, 10, 0, 0], [2020, 7, 1, 10, 0, 0]):
                i2 = {'route': 'single:DTSTART', 'zone': 'UTC', 'wall': w, 'family': 'dt', 'provider': prov}
                ctx.evaluated(sorted(i2.items(), key=str), False)
                check_case(i2, out)
    for kind, inp, detail, cls in out:
        ctx.violation(kind, inp, detail, cls)
    check_defined_zone_does_not_shadow(ctx)


def check_defined_zone_does_not_shadow(ctx):
    """a calendar may define a zone of its own whose TZID differs from a tz database key only in letter case or by
    a leading slash; values in the database zone, written and read afterwards, are still in the database zone"""
    import icalendar
    from icalendar import Calendar, Event
    from harness.props.C09 import CUSTOM_TZ
    for prov in PROVIDERS:
        for tzid in ('europe/berlin', 'EUROPE/BERLIN', 'Europe/berlin', '/Europe/Berlin/', 'america/new_york'):
            key = 'America/New_York' if 'new' in tzid.lower() else 'Europe/Berlin'
            getattr(icalendar, 'use_' + prov)()          # a fresh zone cache
            try:
                inp = {'provider': prov, 'defined': tzid, 'zone': key}
                ctx.evaluated(('shadow', prov, tzid))
                try:
                    Calendar.from_ical(CUSTOM_TZ.replace(b'%s', tzid.encode()))
                except ValueError:
                    pass
                # (no provider switch from here on: switching resets the cache this probe is about)
                for w in ((1975, 7, 1, 12, 0, 0), (2024, 1, 15, 9, 0, 0), (2024, 7, 15, 9, 0, 0)):
                    d = make_dt('zi' if prov == 'zoneinfo' else 'pytz', key, w)     # the database's own zone object
                    e = Event()
                    e.add('dtstart', d)
                    e.add('rdate', [d])
                    back = Event.from_ical(e.to_ical())
                    for name, v in (('DTSTART', back['DTSTART'].dt), ('RDATE', back['RDATE'].dts[0].dt)):
                        if v.utcoffset() != d.utcoffset() or key_of(v.tzinfo) != key:
                            ctx.violation('defined-zone-shadows-database-zone', dict(inp, wall=list(w), property=name),
                                          f'after a calendar defined TZID {tzid}, {name} {d!r} was read back as {v!r} '
                                          f'(offset {v.utcoffset()}, zone {key_of(v.tzinfo)})')
                            break
            finally:
                icalendar.use_zoneinfo()


def replay(ctx, data):
    inp = data['input']
    out = []
    with provider(inp.get('provider', 'zoneinfo')):
        if inp.get('route') == 'law':
            ws = [(tuple(inp['wall']), 'replay')] if inp.get('wall') else []
            check_laws(inp['provider'], inp['zone'], ws, out, {})
        else:
            check_case(inp, out)
    for kind, _, detail, _ in out:
        print('REPRODUCED', kind, detail)
    if not out:
        print('not reproduced on the current tree')
    return 1 if out else 0
