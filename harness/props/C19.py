"""C19 - recurrence rules: RECUR grammar with FREQ first, decode gives the same typed parts in the same order and
re-encodes to the same text, same occurrence sequence from the text as from the caller's rule."""
import itertools
import re
import signal
from datetime import date, datetime, time, timedelta, timezone

from harness.proto import enc, encl

LEAN = ['ICal.Props.C19']
LEVEL = 'proof'
FINGERPRINTS = ['prop.vRecur', 'prop.vSkip', 'prop.vInt', 'prop.vMonth', 'prop.vWeekday', 'prop.vFrequency',
                'prop.vDDDTypes', 'prop.vDate', 'prop.vDatetime', 'prop.vText', 'caselessdict.canonsort',
                'caselessdict.CaselessDict.__init__', 'caselessdict.CaselessDict.__setitem__',
                'caselessdict.CaselessDict.sorted_items', 'caselessdict.CaselessDict.get', 'parser.escape_char',
                'parser.unescape_char']
RULE = ('rules = every FREQ (upper, lower, capitalised) x {no end, COUNT, UNTIL date, UNTIL floating, UNTIL UTC} x '
        '{no INTERVAL, 1, 2, 10} x one of 40 BY-part specs (each BYxxx with one positive, one negative, several mixed '
        'values, ordinal weekdays with + and -, WKST, leap-month BYMONTH, RSCALE+SKIP, BYWEEKDAY, an X- part), each built '
        'as vRecur(**parts), vRecur(dict) and Event.add("rrule", dict), keys in upper/lower/mixed case, scalars and '
        'lists; plus 1500 seeded random combinations of 0-6 BY parts. correspondence ops recur_new (state of the dict), '
        'recur_to, recur_from (on the encoded texts, their lower-case form, with a trailing ";", with "=" removed, '
        'with a repeated key, with an unknown key; all sequences of length <= 3 over 24 part texts; seeded mutations), '
        'recur_rfc (Lean recogniser of the RECUR grammar vs an independent Python regex). oracle on the implementation: '
        'regex grammar + FREQ first, decode = caller values through the part type\'s normalisation in the order of the '
        'text, re-encode = text, the same through a VEVENT, dateutil rrulestr(text) vs rrule(**kwargs) first 20 '
        'occurrences. non-trivial = more than FREQ alone')
ASSUMPTIONS = [
    'a scalar part value and the one-element list are identified (to_ical wraps scalars; __init__ wraps keyword scalars)',
    'typed values are compared through the part type\'s own normalisation: vFrequency and vWeekday upper-case their text',
    'part values have the Python type the part class wraps (int, vMonth/int/"nL", weekday and frequency strings, date or '
    'datetime, vSkip or its value, str); a value of another type is outside the model (driver answers unmodelled)',
    'UNTIL date-times are floating or UTC (a TZID cannot be written inside a RECUR value)',
    'keys and typed values are ASCII (str.upper, int, isdigit are Unicode-aware in Python; non-ASCII is skipped as unmodelled)',
    'text-typed parts (RSCALE, unknown keys): the value is an iana-token in the oracle; the model states the exact '
    'round-trip domain (no "," ";" "=", already normalised) and Props/C19.lean has witnesses for what falls outside',
    'dateutil.rrule.rrulestr expands an RRULE text as a function of its typed parts (DESIGN section 4); RSCALE, SKIP, leap '
    'months and X- parts are not supported by dateutil and are left out of the occurrence comparison; an expansion that '
    'takes more than 0.2 s is skipped and counted',
    'the three vSkip members are hand-copied into the model (an Enum body is not a table the translator reads); compared '
    'with the live class on every run (op recur_tbl_skip)',
]

UTC = timezone.utc
WEEKDAYS = ['SU', 'MO', 'TU', 'WE', 'TH', 'FR', 'SA']
FREQS = ['SECONDLY', 'MINUTELY', 'HOURLY', 'DAILY', 'WEEKLY', 'MONTHLY', 'YEARLY']

# ------------------------------------------------------------------ value specs (JSON-friendly) <-> Python values


def build_value(v):
    """spec -> the Python value handed to vRecur"""
    from icalendar.prop import vFrequency, vMonth, vSkip, vWeekday
    if isinstance(v, dict):
        if 'date' in v:
            return date(*v['date'])
        if 'dt' in v:
            return datetime(*v['dt'], tzinfo=UTC if v.get('utc') else None)
        if 'vmonth' in v:
            return vMonth(v['vmonth'])
        if 'vweekday' in v:
            return vWeekday(v['vweekday'])
        if 'vfrequency' in v:
            return vFrequency(v['vfrequency'])
        if 'vskip' in v:
            return vSkip(v['vskip'])
        raise TypeError(v)
    return v


def build_parts(parts):
    out = []
    for k, v in parts:
        if isinstance(v, list):
            out.append((k, [build_value(x) for x in v]))
        else:
            out.append((k, build_value(v)))
    return out


def plain(s):
    return str.__str__(s)


def date_s(d):
    return f'{d.year},{d.month},{d.day}'


def atom_s(x):
    if isinstance(x, datetime):
        return f'dt:{date_s(x)},{x.hour},{x.minute},{x.second},{1 if x.tzinfo is not None else 0}'
    if isinstance(x, date):
        return 'date:' + date_s(x)
    if isinstance(x, timedelta):
        assert x.microseconds == 0
        return 'dur:' + str(x.days * 86400 + x.seconds)
    if isinstance(x, time):
        return f'time:{x.hour},{x.minute},{x.second},{1 if x.tzinfo is not None else 0}'
    raise TypeError(type(x))


def ddd_s(x):
    if isinstance(x, tuple):
        return 'period:' + atom_s(x[0]) + '|' + atom_s(x[1])
    return atom_s(x)


class Unencodable(Exception):
    pass


RE_MONTH_STR = re.compile(r'([0-9]+)(L?)\Z')


def enc_val(cls_name, x):
    """a Python part value as the model's typed value, by the class `vRecur.types` gives the key"""
    from enum import Enum
    if cls_name == 'vInt':
        if isinstance(x, int) and not isinstance(x, bool):
            return f'i:{int(x)}'
    elif cls_name == 'vMonth':
        if hasattr(x, 'leap'):
            return f'm:{int(x)}:{1 if x.leap else 0}'
        if isinstance(x, int) and not isinstance(x, bool):
            return f'm:{int(x)}:0'
        if isinstance(x, str):
            m = RE_MONTH_STR.match(x)
            if m and x.isascii():
                return f'm:{int(m.group(1))}:{1 if m.group(2) else 0}'
    elif cls_name == 'vWeekday':
        if isinstance(x, str):
            return 'w:' + enc(plain(x))
    elif cls_name == 'vFrequency':
        if isinstance(x, str):
            return 'f:' + enc(plain(x))
    elif cls_name == 'vDDDTypes':
        if isinstance(x, datetime) and x.tzinfo is not None and x.utcoffset() != timedelta(0):
            raise Unencodable('zoned until')
        if isinstance(x, (datetime, date, time, timedelta)) or (isinstance(x, tuple) and len(x) == 2):
            try:
                return 'u:' + ddd_s(x)
            except (TypeError, AssertionError):
                pass
    elif cls_name == 'vSkip':
        if isinstance(x, Enum):
            return 's:' + enc(plain(x.value))
        if isinstance(x, str):
            return 's:' + enc(plain(x))
    else:
        if isinstance(x, str):
            return 't:' + enc(plain(x))
    raise Unencodable(f'{cls_name}: {x!r}')


def class_of(key):
    from icalendar.prop import vRecur, vText
    return vRecur.types.get(key, vText).__name__


def enc_rule(items):
    """[(key, scalar | list)] -> wire rule (a scalar is sent as the one-element list)"""
    out = [str(len(items))]
    for k, v in items:
        vals = list(v) if isinstance(v, (list, tuple)) else [v]
        cn = class_of(k)
        out.append(enc(k))
        out.append(str(len(vals)))
        for x in vals:
            out.append(enc_val(cn, x))
    return '~'.join(out)


def to_ical_res(f):
    try:
        return 'ok\t' + enc(f().decode('utf-8'))
    except ValueError:
        return 'err:ValueError'
    except Exception as e:  # noqa: BLE001
        return 'err:Other:' + type(e).__name__


def from_ical_res(text):
    from icalendar.prop import vRecur
    try:
        r = vRecur.from_ical(text)
    except ValueError:
        return 'err:ValueError'
    except Exception as e:  # noqa: BLE001
        return 'err:Other:' + type(e).__name__
    try:
        return 'ok\t' + enc_rule(list(r.items()))
    except Unencodable as e:
        return 'unencodable:' + str(e)


# ------------------------------------------------------------------ rule generators

def D(y, m, d):
    return {'date': [y, m, d]}


def DT(y, m, d, h, mi, s, utc=False):
    return {'dt': [y, m, d, h, mi, s], 'utc': utc}


ENDS = [
    [],
    [('COUNT', 7)],
    [('UNTIL', D(2027, 3, 1))],
    [('UNTIL', DT(2027, 3, 1, 12, 30, 15))],
    [('UNTIL', DT(2027, 3, 1, 12, 30, 15, utc=True))],
]
INTERVALS = [[], [('INTERVAL', 1)], [('INTERVAL', 2)], [('INTERVAL', 10)]]

# each spec: list of (key, value); values scalar or list; the first 34 use only RFC 5545 parts dateutil knows
BY_SPECS = [
    [],
    [('BYSECOND', 0)], [('BYSECOND', [15, 45, 60])],
    [('BYMINUTE', 59)], [('BYMINUTE', [0, 30])],
    [('BYHOUR', 23)], [('BYHOUR', [0, 6, 12])],
    [('BYDAY', 'MO')], [('BYDAY', ['MO', 'WE', 'FR'])], [('BYDAY', ['tu', 'Th'])],
    [('BYDAY', '1MO')], [('BYDAY', '+2TU')], [('BYDAY', '-1FR')], [('BYDAY', ['1SU', '-1SU', '+3WE', 'SA'])],
    [('BYDAY', '53MO')], [('BYDAY', ['-53SU', '5TH'])], [('BYDAY', {'vweekday': '-2sa'})],
    [('BYMONTHDAY', 1)], [('BYMONTHDAY', -1)], [('BYMONTHDAY', [1, 15, -1, 31, -31])],
    [('BYYEARDAY', 1)], [('BYYEARDAY', -1)], [('BYYEARDAY', [1, 100, 366, -366, -1])],
    [('BYWEEKNO', 1)], [('BYWEEKNO', -1)], [('BYWEEKNO', [1, 20, 53, -53])],
    [('BYMONTH', 1)], [('BYMONTH', [1, 6, 12])], [('BYMONTH', {'vmonth': '3'})],
    [('BYDAY', ['MO', 'TU', 'WE', 'TH', 'FR']), ('BYSETPOS', -1)], [('BYDAY', ['SA', 'SU']), ('BYSETPOS', [1, -1, 2])],
    [('WKST', 'SU')], [('WKST', 'mo'), ('BYDAY', ['TU', 'TH'])],
    [('BYWEEKDAY', ['MO', '-1FR'])],
    # RFC 7529 and non-dateutil parts
    [('BYMONTH', '5L')], [('BYMONTH', [{'vmonth': '5L'}, 3, '12L', {'vmonth': '1'}])],
    [('RSCALE', 'GREGORIAN')], [('RSCALE', 'CHINESE'), ('SKIP', 'OMIT'), ('BYMONTH', '5L')],
    [('RSCALE', 'hebrew'), ('SKIP', {'vskip': 'FORWARD'})], [('RSCALE', 'ETHIOPIC'), ('SKIP', ['BACKWARD'])],
    [('X-CUSTOM', 'abc')],
]
N_DATEUTIL_SPECS = 34


def recase(k, mode):
    if mode == 0:
        return k
    if mode == 1:
        return k.lower()
    return ''.join(c.lower() if i % 2 else c for i, c in enumerate(k))


def spell_freq(f, mode):
    return [f, f.lower(), f.capitalize()][mode % 3]


def systematic_rules():
    """(parts, tag) over the full cross of FREQ x END x INTERVAL, each with a rotating BY spec; then every BY spec with
    every FREQ"""
    n = 0
    for fi, f in enumerate(FREQS):
        for ei, end in enumerate(ENDS):
            for ii, itv in enumerate(INTERVALS):
                by = BY_SPECS[n % len(BY_SPECS)]
                n += 1
                yield [('FREQ', spell_freq(f, fi + ei + ii))] + end + itv + by
    for bi, by in enumerate(BY_SPECS):
        for fi, f in enumerate(FREQS):
            end = ENDS[(bi + fi) % len(ENDS)]
            itv = INTERVALS[(bi * 3 + fi) % len(INTERVALS)]
            # the caller's order is not the canonical one
            yield by + itv + [('FREQ', spell_freq(f, bi + fi))] + end


INT_RANGES = {'BYSECOND': (0, 60, False), 'BYMINUTE': (0, 59, False), 'BYHOUR': (0, 23, False),
              'BYMONTHDAY': (1, 31, True), 'BYYEARDAY': (1, 366, True), 'BYWEEKNO': (1, 53, True),
              'BYSETPOS': (1, 366, True)}


def rand_ints(rng, key):
    lo, hi, signed = INT_RANGES[key]
    out = []
    for _ in range(rng.choice([1, 1, 2, 3, 5])):
        x = rng.choice([lo, hi, rng.randint(lo, hi)])
        if signed and rng.random() < 0.4:
            x = -x
        out.append(x)
    return out


def rand_wd(rng, ordinal=True):
    d = rng.choice(WEEKDAYS)
    if rng.random() < 0.3:
        d = d.lower()
    if ordinal and rng.random() < 0.5:
        n = rng.choice([1, 2, 5, 10, 53, rng.randint(1, 53)])
        return rng.choice(['', '+', '-']) + str(n) + d
    return d


def scalar_or_list(rng, xs):
    if len(xs) == 1 and rng.random() < 0.5:
        return xs[0]
    return xs


def rand_rule(rng):
    parts = [('FREQ', spell_freq(rng.choice(FREQS), rng.randint(0, 2)))]
    r = rng.random()
    if r < 0.25:
        parts.append(('COUNT', rng.choice([1, 2, 10, 1000, rng.randint(1, 10 ** 6)])))
    elif r < 0.65:
        y, m, d = rng.randint(1, 9999), rng.randint(1, 12), rng.randint(1, 28)
        k = rng.random()
        if k < 0.33:
            parts.append(('UNTIL', D(y, m, d)))
        else:
            parts.append(('UNTIL', DT(y, m, d, rng.randint(0, 23), rng.randint(0, 59), rng.randint(0, 59), utc=k < 0.66)))
    if rng.random() < 0.5:
        parts.append(('INTERVAL', rng.choice([1, 2, 3, 12, rng.randint(1, 10 ** 4)])))
    keys = rng.sample(['BYSECOND', 'BYMINUTE', 'BYHOUR', 'BYDAY', 'BYMONTHDAY', 'BYYEARDAY', 'BYWEEKNO', 'BYMONTH',
                       'BYSETPOS', 'WKST', 'RSCALE'], rng.randint(0, 6))
    for k in keys:
        if k in INT_RANGES:
            parts.append((k, scalar_or_list(rng, rand_ints(rng, k))))
        elif k == 'BYDAY':
            parts.append((k, scalar_or_list(rng, [rand_wd(rng) for _ in range(rng.choice([1, 1, 2, 4]))])))
        elif k == 'WKST':
            parts.append((k, rand_wd(rng, ordinal=False)))
        elif k == 'BYMONTH':
            xs = []
            for _ in range(rng.choice([1, 1, 2, 4])):
                n = rng.randint(1, 12)
                xs.append(rng.choice([n, n, str(n) + 'L', {'vmonth': str(n) + 'L'}, {'vmonth': str(n)}]))
            parts.append((k, scalar_or_list(rng, xs)))
        elif k == 'RSCALE':
            parts.append((k, rng.choice(['GREGORIAN', 'CHINESE', 'HEBREW', 'islamic-civil', 'x-Cal9'])))
            if rng.random() < 0.6:
                parts.append(('SKIP', rng.choice(['OMIT', 'FORWARD', 'BACKWARD', {'vskip': 'OMIT'}])))
    rng.shuffle(parts)
    return parts


def all_rules(ctx):
    for p in systematic_rules():
        yield p
    for _ in range(ctx.vol(1500)):
        yield rand_rule(ctx.rng)


# rules outside the property's domain, for the correspondence only (error paths, quirks of the constructor)
ODD_RULES = [
    [],
    [('FREQ', 'daily'), ('freq', 'WEEKLY')],
    [('freq', 'WEEKLY'), ('COUNT', 1), ('FREQ', 'daily'), ('Count', [2, 3])],
    [('FREQ', 'FORTNIGHTLY')], [('FREQ', '')], [('FREQ', ['DAILY', 'weekly'])],
    [('BYDAY', [])], [('FREQ', 'DAILY'), ('BYMONTH', [])], [('RSCALE', [])],
    [('BYDAY', 'XX')], [('BYDAY', '123MO')], [('BYDAY', '0MO')], [('BYDAY', '+MO')], [('BYDAY', 'MO\n')], [('BYDAY', ' MO')],
    [('WKST', '2MO')], [('BYWEEKDAY', '-0su')],
    [('SKIP', 'omit')], [('SKIP', 'NEVER')], [('SKIP', '')],
    [('COUNT', 0)], [('COUNT', -5)], [('INTERVAL', 10 ** 30)], [('BYSECOND', [61, -1])], [('BYMONTH', 13)], [('BYMONTH', 0)],
    [('BYMONTH', '0L')], [('BYMONTH', '13L')], [('BYMONTH', '007')],
    [('RSCALE', '')], [('RSCALE', 'a,b')], [('RSCALE', 'a;b')], [('RSCALE', 'a=b')], [('RSCALE', 'a\\b')], [('RSCALE', 'a\nb')],
    [('RSCALE', 'a\r\nb')], [('RSCALE', 'a\\Nb')], [('RSCALE', ['x', 'y'])], [('X-A', 'z'), ('A', 'y'), ('x-B', ['p', 'q'])],
    [('', 'x')], [('A,B', 'x')], [('A=B', 'x')], [('A;B', 'x')], [('K', 'é')], [('X-Ü', 'x')], [('FREQ', 'dailý')],
    [('UNTIL', [D(2020, 1, 2), DT(2020, 1, 3, 0, 0, 0)])], [('UNTIL', D(1, 1, 1))], [('UNTIL', DT(9999, 12, 31, 23, 59, 59, True))],
    [('COUNT', 'x')], [('FREQ', 3)], [('UNTIL', 5)], [('BYMONTH', 'x')],
]

PART_TEXTS = ['FREQ=DAILY', 'freq=weekly', 'Freq=Yearly', 'FREQ=HOURLY', 'COUNT=2', 'count=+3', 'COUNT= 4 ', 'COUNT=1_0', 'COUNT=x',
              'FREQ', '', '=', '=a', 'A=B=C', 'X-A=a\\,b', 'x-a=q', 'BYDAY=', 'BYDAY=mo,-1su', 'BYMONTH=5L,3', 'BYMONTH=',
              'UNTIL=20200102', 'UNTIL=20200102T030405Z', 'SKIP=OMIT', 'RSCALE=GREGORIAN']

VALUE_TEXTS = {
    'COUNT': ['1', '+1', '-1', '01', ' 1', '1 ', '1_0', '_1', '1__0', '', 'x', '1.0', '1e3', '0x10', '\t7\n', '--1', '+-1', '１'],
    'BYMONTH': ['1', '12', '13', '0', '5L', '5l', 'L', '-5L', '-5', '+5', '+5L', ' 5L', '5 L', '5LL', '05L', '1_0L', '', 'xL', '5X', 'X'],
    'BYDAY': ['MO', 'mo', 'Mo', '1MO', '+1MO', '-1MO', '53SU', '99SU', '00SU', '0SU', '123SU', 'M', 'MON', 'XX', '1XX', '+MO', '-MO',
              '++1MO', 'MO ', ' MO', 'MO\n', '1_MO', '__', '1__', 'é0'],
    'WKST': ['MO', 'su', '1MO', ''],
    'FREQ': ['DAILY', 'daily', 'Daily', 'DAILY ', '', 'FORTNIGHTLY', 'dailý'],
    'UNTIL': ['20200102', '20200102T030405', '20200102T030405Z', '20200102T030405z', '2020010', '202001021', '20200230', '20200102T250000',
              '20200102X030405', '100000', '100000Z', 'P1D', '-PT5M', '+P1W', 'p1d', '20200102T030405Z/PT1H', '20200102/20200103',
              '20200102T030405/20200103T030405', '', '0000', '00000101', '99991231T235959Z', '2020-01-02', ' 20200102'],
    'SKIP': ['OMIT', 'FORWARD', 'BACKWARD', 'omit', 'Omit', 'OMIT ', '', 'OM\\IT', 'OMIT\\', 'BACK\\,WARD'],
    'RSCALE': ['GREGORIAN', 'gregorian', '', 'a\\,b', 'a\\;b', 'a\\\\b', 'a\\nb', 'a\\Nb', 'a\\b', 'a\\', '\\', 'a\r\nb', 'é'],
    'X-FOO': ['', 'a', 'a\\,b', 'a\\', '\\n'],
}


def from_texts(ctx, encoded):
    """texts for recur_from / recur_rfc"""
    seen = set()

    def emit(t):
        if t not in seen:
            seen.add(t)
            return True
        return False
    for t in encoded:
        variants = [t, t.lower(), t + ';', ';' + t, t.replace(';', ';;'), t.replace('=', '', 1), t.replace('=', '==', 1),
                    t + ';FREQ=YEARLY', t + ';X-UNKNOWN=1,2', 'X-A=b;' + t, t + ';COUNT', t.replace(',', ', '), t + ';' + t,
                    t.replace(';', ','), t + '\n', ' ' + t]
        for v in variants:
            if emit(v):
                yield v
    idx = 0
    for n in range(1, 4):
        for combo in itertools.product(PART_TEXTS, repeat=n):
            idx += 1
            if n == 3 and ctx.tier != 'thorough' and not ctx.escalate and (idx + ctx.seed) % 4:
                continue
            v = ';'.join(combo)
            if emit(v):
                yield v
    for k, vals in VALUE_TEXTS.items():
        for a in vals:
            for t in (f'{k}={a}', f'FREQ=DAILY;{k}={a}', f'{k.lower()}={a}'):
                if emit(t):
                    yield t
            for b in vals[:6]:
                t = f'{k}={a},{b}'
                if emit(t):
                    yield t
    rng = ctx.rng
    pool = list(encoded)
    alphabet = list(';=,') + list('\\LZTP+-_ \n') + list('019') + list('mMoO')
    for _ in range(ctx.vol(1500)):
        if not pool:
            break
        t = list(rng.choice(pool))
        for _ in range(rng.randint(1, 3)):
            op = rng.random()
            pos = rng.randint(0, len(t))
            if op < 0.4 and t:
                del t[min(pos, len(t) - 1)]
            elif op < 0.8:
                t.insert(pos, rng.choice(alphabet))
            elif t:
                t[min(pos, len(t) - 1)] = rng.choice(alphabet)
        v = ''.join(t)
        if emit(v):
            yield v


# ------------------------------------------------------------------ independent RECUR grammar (Python side, from the RFCs)

_D = '[0-9]'
_WD = '(?:SU|MO|TU|WE|TH|FR|SA)'


def _rng_re(lo, hi, digits):
    """regex of the decimal numbers lo..hi written with 1..digits digits (leading zeros allowed, as the ABNF does)"""
    alts = []
    for n in range(lo, hi + 1):
        for w in range(len(str(n)), digits + 1):
            alts.append(str(n).zfill(w))
    return '(?:' + '|'.join(sorted(set(alts), key=lambda s: (-len(s), s))) + ')'


def _lst(x):
    return f'{x}(?:,{x})*'


_DATE = rf'{_D}{{4}}(?:0[1-9]|1[0-2])(?:0[1-9]|[12][0-9]|3[01])'
_TIME = r'(?:[01][0-9]|2[0-3])[0-5][0-9][0-5][0-9]Z?'
RE_PART = {
    'FREQ': '(?:SECONDLY|MINUTELY|HOURLY|DAILY|WEEKLY|MONTHLY|YEARLY)',
    'UNTIL': rf'{_DATE}(?:T{_TIME})?',
    'COUNT': rf'{_D}+',
    'INTERVAL': rf'{_D}+',
    'BYSECOND': _lst(_rng_re(0, 60, 2)),
    'BYMINUTE': _lst(_rng_re(0, 59, 2)),
    'BYHOUR': _lst(_rng_re(0, 23, 2)),
    'BYDAY': _lst(rf'(?:[+-]?{_rng_re(1, 53, 2)})?{_WD}'),
    'BYMONTHDAY': _lst(rf'[+-]?{_rng_re(1, 31, 2)}'),
    'BYYEARDAY': _lst(rf'[+-]?{_rng_re(1, 366, 3)}'),
    'BYWEEKNO': _lst(rf'[+-]?{_rng_re(1, 53, 2)}'),
    'BYMONTH': _lst(rf'{_rng_re(1, 12, 2)}L?'),
    'BYSETPOS': _lst(rf'[+-]?{_rng_re(1, 366, 3)}'),
    'WKST': _WD,
    'RSCALE': r'[A-Za-z0-9-]+',
    'SKIP': r'(?:OMIT|BACKWARD|FORWARD)',
}
RE_PART = {k: re.compile(v + r'\Z') for k, v in RE_PART.items()}


def valid_date_in(text):
    m = re.match(r'(\d{4})(\d{2})(\d{2})', text)
    try:
        date(int(m.group(1)), int(m.group(2)), int(m.group(3)))
        return True
    except ValueError:
        return False


def py_grammar(text):
    """(in the RECUR grammar, and FREQ first after an optional RSCALE) - independent of the Lean recogniser"""
    names = []
    for part in text.split(';'):
        kv = part.split('=')
        if len(kv) != 2:
            return False, False
        k, v = kv
        if k not in RE_PART or not RE_PART[k].match(v):
            return False, False
        if k == 'UNTIL' and not valid_date_in(v):
            return False, False
        names.append(k)
    ok = (len(set(names)) == len(names) and 'FREQ' in names and not ('UNTIL' in names and 'COUNT' in names)
          and ('SKIP' not in names or 'RSCALE' in names))
    first = names[:1] == ['FREQ'] or names[:2] == ['RSCALE', 'FREQ']
    return ok, ok and first


# ------------------------------------------------------------------ correspondence

def construct(mode, parts):
    """the three ways a caller builds a rule; returns the vRecur object"""
    from icalendar import Event
    from icalendar.prop import vRecur
    pv = build_parts(parts)
    if mode == 'kwargs':
        return vRecur(**dict(pv))
    if mode == 'dict':
        return vRecur(dict(pv))
    e = Event()
    e.add('rrule', dict(pv))
    return e['RRULE']


def caller_items(mode, parts):
    """the items the constructor receives, in order (keyword scalars are wrapped by __init__; both spellings of a
    repeated key collapse in the Python dict first)"""
    return list(dict(build_parts(parts)).items())


def corr_rule(ctx, parts, encoded, mode_filter=None):
    keys = [k for k, _ in parts]
    if len(set(keys)) != len(keys):
        return
    for mode in ('kwargs', 'dict', 'event'):
        if mode_filter and mode not in mode_filter:
            continue
        try:
            items = caller_items(mode, parts)
            wire = enc_rule(items)
        except Unencodable:
            ctx.count('corr:unencodable-rule')
            continue
        try:
            r = construct(mode, parts)
        except Exception as e:  # noqa: BLE001
            ctx.count('corr:constructor-raised:' + type(e).__name__)
            continue
        try:
            ctx.corr('recur_new', [wire], enc_rule(list(r.items())), nontrivial=len(items) > 1)
        except Unencodable:
            pass
        res = to_ical_res(r.to_ical)
        ctx.corr('recur_to', [wire], res, nontrivial=len(items) > 1)
        if res.startswith('ok\t'):
            encoded.add(r.to_ical().decode('utf-8'))


def correspondence(ctx):
    from icalendar.prop import vSkip
    ctx.corr('recur_tbl_skip', [], encl([plain(m.value) for m in vSkip]))
    encoded = set()
    case_mode = 0
    for parts in all_rules(ctx):
        case_mode += 1
        ps = [(recase(k, case_mode % 3), v) for k, v in parts]
        corr_rule(ctx, ps, encoded)
    for parts in ODD_RULES:
        # a repeated key (caselessly) can only be given through a dict / keywords with distinct spellings
        corr_rule_odd(ctx, parts, encoded)
    for t in from_texts(ctx, sorted(encoded)):
        if any(0xD800 <= ord(c) <= 0xDFFF for c in t):
            continue
        ctx.corr('recur_from', [enc(t)], from_ical_res(t), nontrivial=(';' in t))
        g, f = py_grammar(t)
        ctx.corr('recur_rfc', [enc(t)], f'{1 if g else 0},{1 if f else 0}', nontrivial=g)


def corr_rule_odd(ctx, parts, encoded):
    from icalendar.prop import vRecur
    pv = build_parts(parts)
    for mode in ('kwargs', 'dict'):
        d = dict(pv)
        items = list(d.items())
        try:
            wire = enc_rule(items)
        except Unencodable:
            # a value of the wrong Python type: the model answers unmodelled; send it in the text kind
            ctx.count('corr:odd-unencodable')
            continue
        try:
            r = vRecur(**d) if mode == 'kwargs' else vRecur(d)
        except Exception as e:  # noqa: BLE001
            ctx.count('corr:constructor-raised:' + type(e).__name__)
            continue
        try:
            ctx.corr('recur_new', [wire], enc_rule(list(r.items())))
        except Unencodable:
            pass
        res = to_ical_res(r.to_ical)
        ctx.corr('recur_to', [wire], res)
        if res.startswith('ok\t'):
            encoded.add(r.to_ical().decode('utf-8'))


# ------------------------------------------------------------------ oracle (implementation only)

_EXPANDED = set()


class Timeout(Exception):
    pass


def _alarm(signum, frame):
    raise Timeout()


def first_n(it, n=20, budget=0.2):
    old = signal.signal(signal.SIGALRM, _alarm)
    signal.setitimer(signal.ITIMER_REAL, budget)
    try:
        return list(itertools.islice(it, n))
    finally:
        signal.setitimer(signal.ITIMER_REAL, 0)
        signal.signal(signal.SIGALRM, old)


RE_WD_CALLER = re.compile(r'([+-]?)([0-9]{0,2})([A-Za-z]{2})\Z')

# the value type RFC 5545 section 3.3.10 / RFC 7529 give each rule part, written down here and not read from
# the implementation's own table, so that a lost or wrong entry there is a wrong decoded type here
RFC_PART_TYPES = {
    'COUNT': 'vInt', 'INTERVAL': 'vInt', 'BYSECOND': 'vInt', 'BYMINUTE': 'vInt', 'BYHOUR': 'vInt',
    'BYWEEKNO': 'vInt', 'BYMONTHDAY': 'vInt', 'BYYEARDAY': 'vInt', 'BYSETPOS': 'vInt', 'BYMONTH': 'vMonth',
    'UNTIL': 'vDDDTypes', 'WKST': 'vWeekday', 'BYDAY': 'vWeekday', 'BYWEEKDAY': 'vWeekday',
    'FREQ': 'vFrequency', 'SKIP': 'vSkip',
}


def rfc_class(key):
    return RFC_PART_TYPES.get(plain(key).upper(), 'vText')


def norm_value(cn, x):
    try:
        return norm_value_(cn, x)
    except Exception as e:  # noqa: BLE001  a value the part type cannot hold: never equal to a good one
        return ('unrepresentable', cn, type(x).__name__, repr(x), type(e).__name__)


def norm_value_(cn, x):
    """the part type's own normalisation of a value (caller's or decoded), written independently of the classes"""
    from enum import Enum
    if cn == 'vInt':
        if isinstance(x, str):
            raise TypeError('text where an integer is expected')
    if cn == 'vInt':
        return ('int', int(x))
    if cn == 'vMonth':
        if hasattr(x, 'leap'):
            return ('month', int(x), bool(x.leap))
        if isinstance(x, str):
            m = RE_MONTH_STR.match(x)
            return ('month', int(m.group(1)), bool(m.group(2)))
        return ('month', int(x), False)
    if cn == 'vWeekday':
        return ('weekday', plain(x).upper())
    if cn == 'vFrequency':
        return ('freq', plain(x).upper())
    if cn == 'vDDDTypes':
        if isinstance(x, datetime):
            return ('dt', x.replace(tzinfo=None), None if x.tzinfo is None else x.utcoffset())
        return ('date', x)
    if cn == 'vSkip':
        return ('skip', plain(x.value) if isinstance(x, Enum) else plain(x))
    return ('text', plain(x))


DATEUTIL_KEYS = {'FREQ', 'UNTIL', 'COUNT', 'INTERVAL', 'BYSECOND', 'BYMINUTE', 'BYHOUR', 'BYDAY', 'BYWEEKDAY', 'BYMONTHDAY',
                 'BYYEARDAY', 'BYWEEKNO', 'BYMONTH', 'BYSETPOS', 'WKST'}


def dateutil_kwargs(parts):
    """the caller's rule as dateutil.rrule keyword arguments (None: not expressible)"""
    from dateutil import rrule as R
    wd = {'MO': R.MO, 'TU': R.TU, 'WE': R.WE, 'TH': R.TH, 'FR': R.FR, 'SA': R.SA, 'SU': R.SU}
    kw = {}
    for k, v in parts:
        K = k.upper()
        if K not in DATEUTIL_KEYS:
            return None
        vals = v if isinstance(v, list) else [v]
        vals = [build_value(x) for x in vals]
        if K == 'FREQ':
            kw['freq'] = getattr(R, plain(vals[0]).upper())
        elif K in ('COUNT', 'INTERVAL'):
            kw[K.lower()] = int(vals[0])
        elif K == 'UNTIL':
            kw['until'] = vals[0]
        elif K in ('BYDAY', 'BYWEEKDAY'):
            out = []
            for x in vals:
                m = RE_WD_CALLER.match(plain(x))
                n = int(m.group(2)) if m.group(2) else 0
                if m.group(1) == '-':
                    n = -n
                out.append(wd[m.group(3).upper()](n) if n else wd[m.group(3).upper()])
            kw['byweekday'] = kw.get('byweekday', []) + out
        elif K == 'WKST':
            kw['wkst'] = wd[plain(vals[0]).upper()]
        elif K == 'BYMONTH':
            ms = []
            for x in vals:
                t = norm_value('vMonth', x)
                if t[2]:
                    return None
                ms.append(t[1])
            kw['bymonth'] = ms
        else:
            kw[K.lower()] = [int(x) for x in vals]
    return kw


def expander_cheap(parts):
    """sub-daily frequencies with a day-level filter make dateutil step second by second: keep those out"""
    d = {k.upper(): v for k, v in parts}
    f = plain(build_value(d['FREQ'])).upper()
    if f in ('SECONDLY', 'MINUTELY', 'HOURLY'):
        return not (set(d) & {'BYDAY', 'BYWEEKDAY', 'BYMONTHDAY', 'BYYEARDAY', 'BYWEEKNO', 'BYMONTH', 'BYSETPOS'})
    # several day-level filters at once rarely intersect: dateutil then walks to year 9999
    return len(set(d) & {'BYDAY', 'BYWEEKDAY', 'BYMONTHDAY', 'BYYEARDAY', 'BYWEEKNO', 'BYMONTH'}) <= 2


def in_domain(parts):
    """the rule is made of RFC 5545/7529 parts, each once (caselessly), FREQ present"""
    keys = [k.upper() for k, _ in parts]
    return len(set(keys)) == len(keys) and 'FREQ' in keys and all(k in RE_PART or k == 'BYWEEKDAY' for k in keys)


def check_rule(ctx, parts, mode):
    from icalendar import Event
    from icalendar.prop import vRecur, vText
    inp = {'parts': parts, 'mode': mode}
    try:
        r = construct(mode, parts)
        text = r.to_ical().decode('utf-8')
    except Exception as e:  # noqa: BLE001
        ctx.violation('encode-raises', inp, f'{type(e).__name__}: {e}')
        return
    keys_u = [k.upper() for k, _ in parts]
    rfc_only = all(k in RE_PART for k in keys_u)            # BYWEEKDAY is the code's alias, not an RFC name
    g, f = py_grammar(text)
    if rfc_only and not ('UNTIL' in keys_u and 'COUNT' in keys_u) and ('SKIP' not in keys_u or 'RSCALE' in keys_u):
        if not g:
            ctx.violation('grammar', inp, f'encoded text is not in the RECUR grammar: {text!r}')
        elif not f:
            ctx.violation('freq-first', inp, f'FREQ is not the first part (after an optional RSCALE): {text!r}')
    else:
        names = [p.split('=')[0] for p in text.split(';')]
        if not (names[:1] == ['FREQ'] or names[:2] == ['RSCALE', 'FREQ']):
            ctx.violation('freq-first', inp, f'FREQ is not the first part (after an optional RSCALE): {text!r}')
    # decode: same keys in the order of the text, same typed values, right classes
    try:
        r2 = vRecur.from_ical(text)
    except Exception as e:  # noqa: BLE001
        ctx.violation('decode-raises', inp, f'{text!r}: {type(e).__name__}: {e}')
        return
    text_keys = [p.split('=')[0] for p in text.split(';')]
    if list(r2.keys()) != text_keys:
        ctx.violation('decode-order', inp, f'{text!r} decoded with keys {list(r2.keys())}, text order {text_keys}')
    if sorted(r2.keys()) != sorted(keys_u):
        ctx.violation('decode-keys', inp, f'{text!r} decoded with keys {list(r2.keys())}, caller gave {keys_u}')
    for k, v in parts:
        cn = rfc_class(k)
        want = [norm_value(cn, build_value(x)) for x in (v if isinstance(v, list) else [v])]
        got_raw = r2.get(k)
        if not isinstance(got_raw, list):
            ctx.violation('decode-shape', inp, f'{k}: decoded value is not a list: {got_raw!r}')
            continue
        got = [norm_value(cn, x) for x in got_raw]
        if got != want:
            ctx.violation('decode-values', inp, f'{k}: caller {want!r}, decoded {got!r} from {text!r}')
        import icalendar.prop as _prop
        exp_cls = getattr(_prop, cn)
        for x in got_raw:
            if cn == 'vDDDTypes':
                ok = isinstance(x, (date, datetime))
            else:
                ok = isinstance(x, exp_cls)
            if not ok:
                ctx.violation('decode-type', inp, f'{k}: decoded {x!r} has type {type(x).__name__}, expected {cn}')
        if cn == 'vWeekday':
            for x in got_raw:
                m = RE_WD_CALLER.match(plain(x))
                n = int(m.group(2)) if m.group(2) else 0
                rel = (-n if m.group(1) == '-' else n) or None
                if x.relative != rel or x.weekday != m.group(3):
                    ctx.violation('decode-weekday', inp, f'{plain(x)!r}: relative={x.relative} weekday={x.weekday}')
    text2 = r2.to_ical().decode('utf-8')
    if text2 != text:
        ctx.violation('reencode', inp, f'{text!r} re-encodes to {text2!r}')
    # inside a component
    e = Event()
    e.add('rrule', r)
    try:
        e2 = Event.from_ical(e.to_ical())
        text3 = e2['RRULE'].to_ical().decode('utf-8')
    except Exception as ex:  # noqa: BLE001
        text3 = f'<{type(ex).__name__}: {ex}>'
    if text3 != text:
        ctx.violation('component', inp, f'{text!r} read back from a VEVENT as {text3!r}')
    # occurrences (the text does not depend on the way the rule was built: expand each distinct case once)
    okey = (text, repr(parts))
    if okey in _EXPANDED:
        return
    _EXPANDED.add(okey)
    kw = dateutil_kwargs(parts)
    if kw is None or not expander_cheap(parts) or ('until' in kw and 'count' in kw):
        ctx.count('oracle:expander-not-applicable')
        return
    from dateutil import rrule as R
    until = kw.get('until')
    aware = isinstance(until, datetime) and until.tzinfo is not None
    dtstart = datetime(2024, 1, 1, 0, 0, 0, tzinfo=UTC if aware else None)
    try:
        b = first_n(iter(R.rrule(dtstart=dtstart, **kw)))
    except Timeout:
        ctx.count('oracle:expander-timeout')
        return
    except Exception as ex:  # noqa: BLE001
        # the reference expander refuses the caller's rule itself (e.g. BYSETPOS without another BYxxx)
        ctx.count('oracle:expander-refused:' + type(ex).__name__)
        return
    try:
        a = first_n(iter(R.rrulestr(text, dtstart=dtstart)))
    except Timeout:
        ctx.count('oracle:expander-timeout')
        return
    except Exception as ex:  # noqa: BLE001
        ctx.violation('occurrences', inp, f'{text!r}: rrulestr raises {type(ex).__name__}: {ex}; the caller\'s rule expands to {b[:3]}...')
        return
    ctx.count('oracle:expanded')
    if a != b:
        ctx.violation('occurrences', inp, f'{text!r}: rrulestr gives {a[:5]}..., the caller\'s rule gives {b[:5]}...')


def check_decode_is_fresh(ctx):
    """decoding returns a rule of its own: editing the value lists of one decoded rule must not change what
    decoding the same (or another) text returns, nor how an already decoded rule is encoded"""
    from icalendar.prop import vRecur
    texts = ['FREQ=WEEKLY;COUNT=10;BYDAY=MO,WE', 'FREQ=MONTHLY;BYMONTHDAY=1,15;INTERVAL=2', 'FREQ=YEARLY;BYMONTH=5;BYDAY=-1SU',
             'FREQ=DAILY;UNTIL=20301231T000000Z']
    for t in texts:
        ctx.evaluated(('fresh-decode', t))
        try:
            canonical = vRecur.from_ical(t).to_ical().decode()     # the canonical part order of this text
            r1 = vRecur.from_ical(t)
            other = vRecur.from_ical(t)
            snap = {k: list(v) if isinstance(v, list) else v for k, v in other.items()}
            for k, v in list(r1.items()):
                if isinstance(v, list):
                    v.append(v[0])
                    v[0] = v[-1]
                    if k in ('COUNT', 'INTERVAL'):
                        v[0] = 99
            r2 = vRecur.from_ical(t)
            got = {k: list(v) if isinstance(v, list) else v for k, v in r2.items()}
            if got != snap:
                ctx.violation('shared-state', {'text': t}, f'decoding {t!r} again gives {got!r} after another decoded copy was edited; expected {snap!r}')
            if other.to_ical().decode() != canonical:
                ctx.violation('shared-state', {'text': t}, f'a decoded rule encodes as {other.to_ical()!r} after another decoded copy was edited; expected {canonical!r}')
        except Exception as e:  # noqa: BLE001
            ctx.violation('shared-state', {'text': t}, f'{type(e).__name__}: {e}')
    # encoding one rule does not change how another one is encoded (leap month vs plain month and the like)
    from icalendar.prop import vMonth
    ctx.evaluated(('encode-independent',))
    seq = [({'FREQ': ['YEARLY'], 'BYMONTH': [5]}, 'FREQ=YEARLY;BYMONTH=5'), ({'FREQ': ['YEARLY'], 'BYMONTH': [vMonth('5L')]}, 'FREQ=YEARLY;BYMONTH=5L'),
           ({'FREQ': ['YEARLY'], 'BYMONTH': [vMonth('7L')]}, 'FREQ=YEARLY;BYMONTH=7L'), ({'FREQ': ['YEARLY'], 'BYMONTH': [7]}, 'FREQ=YEARLY;BYMONTH=7'),
           ({'FREQ': ['DAILY'], 'BYHOUR': [0]}, 'FREQ=DAILY;BYHOUR=0'), ({'FREQ': ['DAILY'], 'BYHOUR': [False]}, None)]
    for parts, want in seq:
        try:
            got = vRecur(parts).to_ical().decode()
        except Exception as e:  # noqa: BLE001
            got = f'<{type(e).__name__}>'
        if want is not None and got != want:
            ctx.violation('encode-depends-on-history', {'parts': repr(parts)}, f'encoded as {got!r} after earlier encodings in this process, expected {want!r}')


ORDER_PROBE = r'''
import sys, json
from datetime import datetime, timedelta, timezone, tzinfo
from zoneinfo import ZoneInfo
import pytz, dateutil.tz
from icalendar import Event
from icalendar.prop import vRecur, vDatetime

class Fixed(tzinfo):
    # the fixed-offset recipe of the Python documentation, with a constant repr
    def __init__(self, minutes, name):
        self._o, self._n = timedelta(minutes=minutes), name
    def utcoffset(self, dt): return self._o
    def tzname(self, dt): return self._n
    def dst(self, dt): return timedelta(0)
    def __repr__(self): return 'Fixed()'

class Plain(tzinfo):
    def __init__(self, minutes, name):
        self._o, self._n = timedelta(minutes=minutes), name
    def utcoffset(self, dt): return self._o
    def tzname(self, dt): return self._n
    def dst(self, dt): return timedelta(0)

zones = [('utc', timezone.utc), ('zi-utc', ZoneInfo('UTC')), ('pytz-utc', pytz.utc), ('du-utc', dateutil.tz.tzutc()),
         ('fixed-utc', Fixed(0, 'UTC')), ('fixed-cet', Fixed(60, 'CET')), ('plain-est', Plain(-300, 'EST')), ('plain-utc', Plain(0, 'UTC')),
         ('tzrange-est', dateutil.tz.tzrange('EST', -18000, 'EDT')), ('tzrange-utc', dateutil.tz.tzrange('UTC', 0)),
         ('tzoffset-0', dateutil.tz.tzoffset(None, 0)), ('tzoffset-1', dateutil.tz.tzoffset('X', 3600)),
         ('berlin', ZoneInfo('Europe/Berlin')), ('fixed-utc-2', Fixed(0, 'UTC'))]
if sys.argv[1] == 'reverse':
    zones = zones[::-1]
out = {}
for label, z in zones:
    d = datetime(2030, 1, 10, 9, 0, 0, tzinfo=z)
    try:
        rule = vRecur(freq='daily', until=d).to_ical().decode()
    except Exception as e:
        rule = 'raised ' + type(e).__name__
    try:
        ev = Event(); ev.add('dtstart', d); start = [ln for ln in ev.to_ical().decode().split('\r\n') if ln.startswith('DTSTART')][0]
    except Exception as e:
        start = 'raised ' + type(e).__name__
    out[label] = [rule, start]
print(json.dumps(out))
'''


def check_order_independence(ctx):
    """what a rule (its UNTIL) and a DTSTART are written as depends on the value, not on which values were written
    earlier in the process: the same tzinfo objects in forward and in reverse order give the same texts"""
    import json
    import subprocess
    res = {}
    for order in ('forward', 'reverse'):
        p = subprocess.run(['/venv/bin/python', '-c', ORDER_PROBE, order], stdout=subprocess.PIPE, stderr=subprocess.PIPE,
                           text=True, timeout=300)
        ctx.evaluated(('order-probe', order))
        if p.returncode != 0:
            ctx.violation('order-probe-failed', {'order': order}, p.stderr[-400:])
            return
        res[order] = json.loads(p.stdout.strip().splitlines()[-1])
    for label, texts in res['forward'].items():
        if texts != res['reverse'][label]:
            ctx.violation('encoding-depends-on-history', {'tzinfo': label, 'forward': texts, 'reverse': res['reverse'][label]},
                          f'the value with tzinfo {label} is written {texts} when encoded after the others in one order and '
                          f'{res["reverse"][label]} in the other order')


def check_rule_history(ctx):
    from harness.history import check_mapping_history
    from icalendar.prop import vRecur
    rules = [dict(freq='DAILY', count=3, byhour=[9, 17], interval=2), dict(freq='WEEKLY', byday=['MO', 'WE'], wkst='SU', until=None),
             dict(freq='YEARLY', bymonth=[3, 4], bymonthday=[-1], count=5)]
    for r in rules:
        r = {k: v for k, v in r.items() if v is not None}
        check_mapping_history(ctx, 'vRecur', lambda r=r: vRecur(**{k: (list(v) if isinstance(v, list) else v) for k, v in r.items()}),
                              lambda m: m.to_ical(), {'rule': {k: str(v) for k, v in r.items()}})


def oracle(ctx):
    check_decode_is_fresh(ctx)
    check_rule_history(ctx)
    check_order_independence(ctx)
    n = 0
    for parts in all_rules(ctx):
        n += 1
        ps = [(recase(k, n % 3), v) for k, v in parts]
        if not in_domain(ps):
            continue
        for mode in ('kwargs', 'dict', 'event'):
            ctx.evaluated((mode, repr(ps)), nontrivial=len(ps) > 1)
            check_rule(ctx, ps, mode)
    # the quirk named in the brief, checked explicitly: positional mapping with a lower-case scalar
    for ps in ([('freq', 'weekly')], [('freq', 'weekly'), ('count', 2), ('byday', 'mo')]):
        ctx.evaluated(('quirk', repr(ps)))
        check_rule(ctx, ps, 'dict')


def replay(ctx, data):
    inp = data['input']
    parts = [(k, v) for k, v in inp['parts']]
    check_rule(ctx, parts, inp.get('mode', 'dict'))
    for v in ctx.violations:
        print('REPRODUCED', v['kind'], v['detail'], 'class=', v['cls'])
    if not ctx.violations:
        print('not reproduced on the current tree')
    return 1 if ctx.violations else 0
