"""C08 - Parameters round-trip with correct quoting, list arity, caseless names."""
import re

from harness import gen
from harness.proto import enc, encl, has_surrogate

LEAN = ['ICal.Props.C08']
LEVEL = 'proof'
FINGERPRINTS = ['parser.dquote', 'parser.q_split', 'parser.q_join', 'parser.param_value', 'parser.Parameters',
                'parser.validate_token', 'parser.validate_param_value', 'parser.Contentline.parts',
                'parser.Contentline.from_parts', 'parser.escape_string', 'parser.unescape_string']
RULE = ('exhaustive parameter values up to length 3 over {, ; : = \' ^ SP \\ % a 2 C U+2019 n} as scalar, 1-list and '
        '2-list; all strings up to length 4 over {" , ; = a} for q_split; seeded random maps with 1-5 keys in mixed '
        'case and values over printable Unicode; non-trivial = the value needs quoting, is a list, or contains an '
        'escape-relevant character')
ASSUMPTIONS = ['parameter names are ASCII tokens (Python \\w is Unicode-aware; non-ASCII names are skipped as unmodelled)',
               'a one-element list and the scalar share the text K=x and are identified (canonical form: scalar)',
               'values contain no double quote and no control characters (the property\'s stated domain)']

VAL_ALPHABET = [',', ';', ':', '=', "'", '^', ' ', '\\', '%', 'a', '2', 'C', '’', 'n']
HAZARD = re.compile(r'\\[,:;\\]|\\$|%2C|%3A|%3B|%5C')


def enc_params(items):
    out = [str(len(items))]
    for k, v in items:
        out.append(enc(k))
        if isinstance(v, list):
            out.append('n~' + str(len(v)) + ''.join('~' + enc(x) for x in v))
        else:
            out.append('1~' + enc(v))
    return '~'.join(out) if items else '0'


def params_items(p):
    return [(k, list(v) if isinstance(v, (list, tuple)) else str(v)) for k, v in p.items()]


def canon(d):
    """expected parse result: upper-cased keys, one-element list = scalar"""
    out = {}
    for k, v in d.items():
        if isinstance(v, list) and len(v) == 1:
            v = v[0]
        out[k.upper()] = v
    return out


def rand_value(rng):
    n = rng.randint(0, 8)
    chars = []
    for _ in range(n):
        r = rng.random()
        if r < 0.55:
            chars.append(rng.choice(VAL_ALPHABET))
        elif r < 0.8:
            chars.append(rng.choice('abcXYZ019-_./@+'))
        else:
            chars.append(rng.choice(['é', '€', '中', '😀', ' ', '\xa0', 'ß']))
    return ''.join(chars)


def rand_key(rng):
    return ''.join(rng.choice('abXY-9_') for _ in range(rng.randint(1, 6)))


def rand_map(rng):
    d = {}
    for _ in range(rng.randint(1, 5)):
        k = rand_key(rng)
        if any(k.upper() == x.upper() for x in d):
            continue
        if rng.random() < 0.4:
            d[k] = [rand_value(rng) for _ in range(rng.randint(1, 4))]
        else:
            d[k] = rand_value(rng)
    return d


def maps(ctx):
    depth = 3
    for s in gen.all_strings(VAL_ALPHABET, depth):
        yield {'K': s}
        if len(s) <= 2:
            yield {'K': [s]}
            yield {'K': [s, 'x']}
            yield {'K': ['x', s]}
            yield {'k': s, 'L': 'b'}
    for _ in range(ctx.vol(3000)):
        yield rand_map(ctx.rng)


def correspondence(ctx):
    from icalendar.parser import Contentline, Parameters, dquote, q_join, q_split
    from icalendar.prop import vText
    for s in gen.all_strings(VAL_ALPHABET + ['"'], 2):
        ctx.corr('dquote', [enc(s)], enc(dquote(s)))
    for s in gen.all_strings(['"', ',', ';', '=', 'a'], 5):
        ctx.corr('qsplit', [enc(s), enc(','), '-1'], encl(q_split(s, ',')))
        if len(s) <= 4:
            ctx.corr('qsplit', [enc(s), enc(';'), '-1'], encl(q_split(s, ';')))
            ctx.corr('qsplit', [enc(s), enc('='), '1'], encl(q_split(s, '=', maxsplit=1)))
    for d in maps(ctx):
        if any(has_surrogate(x) for v in d.values() for x in (v if isinstance(v, list) else [v])):
            continue
        p = Parameters(d)
        items = params_items(p)
        for srt in (True, False):
            ctx.corr('params_to', [enc_params(items), '1' if srt else '0'], enc(p.to_ical(sorted=srt).decode('utf-8')))
        text = p.to_ical().decode('utf-8')
        for t in {text, text.lower(), text.replace('"', '')}:
            for strict in (False, True):
                try:
                    r = 'ok\t' + enc_params(params_items(Parameters.from_ical(t, strict=strict)))
                except ValueError:
                    r = 'err:ValueError'
                ctx.corr('params_from', [enc(t), '1' if strict else '0'], r)
        try:
            line = Contentline.from_parts('X-Prop', p, vText('v:a;b'))
        except AssertionError:
            continue
        ctx.corr('from_parts', [enc('X-Prop'), enc_params(items), enc('v:a\\;b'), '1'], 'ok\t' + enc(str(line)))
        try:
            n, ps, v = line.parts()
            r = 'ok\t' + enc(n) + '\t' + enc_params(params_items(ps)) + '\t' + enc(v)
        except ValueError:
            r = 'err:ValueError'
        ctx.corr('parts', [enc(str(line)), '0'], r)
    # malformed parameter text
    for s in gen.all_strings(['"', ',', ';', '=', 'a', ':', '\x01'], 4):
        try:
            r = 'ok\t' + enc_params(params_items(Parameters.from_ical(s)))
        except ValueError:
            r = 'err:ValueError'
        ctx.corr('params_from', [enc(s), '0'], r)


def in_domain(d):
    for k, v in d.items():
        if not re.fullmatch(r'[A-Za-z0-9_.-]+', k):
            return False
        vs = v if isinstance(v, list) else [v]
        if not (1 <= len(vs) <= 4):
            return False
        for x in vs:
            if '"' in x or has_surrogate(x) or any(ord(c) < 32 or ord(c) == 127 for c in x):
                return False
    return True


def hazard(d):
    for v in d.values():
        for x in (v if isinstance(v, list) else [v]):
            if HAZARD.search(x):
                return True
    return False


def got_of(p):
    return {k: (list(v) if isinstance(v, (list, tuple)) else str(v)) for k, v in p.items()}


def check_map(ctx, d):
    from icalendar import Event
    from icalendar.parser import Contentline, Parameters
    from icalendar.prop import vText
    want = canon(d)
    p = Parameters(d)
    text = p.to_ical().decode('utf-8')
    # quoting: every value containing , ; : is inside double quotes
    for k, v in d.items():
        for x in (v if isinstance(v, list) else [v]):
            if re.search('[,;:]', x) and ('"' + x + '"') not in text:
                ctx.violation('quoting', {'params': d}, f'value {x!r} is not emitted inside double quotes: {text!r}')
    # alone
    try:
        got = got_of(Parameters.from_ical(text))
    except ValueError as e:
        got = f'<ValueError {e}>'
    if got != want:
        ctx.violation('alone', {'params': d}, f'text {text!r} parsed to {got!r}, expected {want!r}')
    # order of keys: sorted upper-cased
    keys = [kv.split('=')[0] for kv in re.split(r';(?=(?:[^"]*"[^"]*")*[^"]*$)', text)] if text else []
    if keys != sorted(keys):
        ctx.violation('order', {'params': d}, f'keys not sorted: {keys}')
    cls = 'param-escape-hazard' if hazard(d) else None
    # in a content line
    try:
        line = Contentline.from_parts('X-PROP', p, vText('v'))
        got = got_of(line.parts()[1])
    except ValueError as e:
        got = f'<ValueError {e}>'
    if got != want:
        ctx.violation('inline', {'params': d}, f'line {str(line)!r} parsed to {got!r}, expected {want!r}', cls)
    # on a property of a component
    e = Event()
    e.add('x-prop', 'v', parameters=d)
    try:
        e2 = Event.from_ical(e.to_ical())
        got = got_of(e2['X-PROP'].params) if 'X-PROP' in e2 else '<property dropped>'
    except ValueError as ex:
        got = f'<ValueError {ex}>'
    if got != want:
        ctx.violation('component', {'params': d}, f'parsed to {got!r}, expected {want!r}', cls)


CORPUS = [{'K': 'a\\'}, {'K': 'a\\', 'L': 'b'}, {'K': '50%2C'}, {'K': 'a\\,b'}, {'K': ['a', 'b']}, {'k': ''},
          {'K': ['', '']}, {'K': 'a,b'}, {'K': "it's"}, {'K': ['x']}, {'K': '\\'}, {'K': ';'}, {'K': ':'}, {'K': '\\:'}]


def check_fresh_results(ctx):
    """every parse returns a parameter map of its own: editing one result must not show up in a later one"""
    from icalendar.parser import Contentline, Parameters
    texts = ['', 'K=v', 'K=a,b;L="x;y"', 'ROLE=CHAIR']
    for t in texts:
        ctx.evaluated(('fresh', t))
        p1 = Parameters.from_ical(t)
        snap = got_of(p1)
        p1['X-EDITED'] = 'yes'
        for v in list(p1.values()):
            if isinstance(v, list):
                v.append('extra')
        p2 = Parameters.from_ical(t)
        if got_of(p2) != snap:
            ctx.violation('shared-state', {'params': {'text': t}}, f'Parameters.from_ical({t!r}) returned {got_of(p2)!r} after an earlier result was edited; expected {snap!r}')
    for a, b in (('X-PLAIN:value', 'UID:1'), ('SUMMARY;LANGUAGE=en:x', 'COMMENT;LANGUAGE=en:y'), ('A:1', 'A:1')):
        ctx.evaluated(('fresh-line', a, b))
        pa = Contentline(a).parts()[1]
        snap_b = got_of(Contentline(b).parts()[1])
        pa['X-EDITED'] = 'yes'
        pb = Contentline(b).parts()[1]
        if got_of(pb) != snap_b:
            ctx.violation('shared-state', {'params': {'line': b}}, f'parts() of {b!r} returned {got_of(pb)!r} after the parameters of {a!r} were edited; expected {snap_b!r}')


def oracle(ctx):
    check_fresh_results(ctx)
    for d in CORPUS:
        ctx.evaluated(('c', repr(d)))
        check_map(ctx, d)
    for d in maps(ctx):
        if not in_domain(d):
            continue
        ctx.evaluated(('m', repr(d)))
        check_map(ctx, d)


def replay(ctx, data):
    check_map(ctx, data['input']['params'])
    for v in ctx.violations:
        print('REPRODUCED', v['kind'], v['detail'], 'class=', v['cls'])
    if not ctx.violations:
        print('not reproduced on the current tree')
    return 1 if ctx.violations else 0
