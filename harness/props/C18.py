"""C18 - Used-timezone discovery is complete; missing = used minus present, never fails;
add_missing_timezones closes the known part and is idempotent."""
import copy
from datetime import date, datetime, timedelta

from harness.proto import enc, encl
from harness.trees import tree_of, enc_tree
from harness.props import C20 as T

LEAN = ['ICal.Props.C18']
LEVEL = 'proof'
FINGERPRINTS = ['cal.Calendar.get_used_tzids', 'cal.Calendar.get_missing_tzids', 'cal.Calendar.timezones',
                'cal.Calendar.add_missing_timezones', 'cal.Timezone.tz_name', 'cal.Timezone.from_tzid',
                'cal.Component.property_items', 'cal.Component._walk', 'cal.Component.walk']
RULE = ('seeded calendars of depth <= 4 (quick) / 6 (thorough) whose components carry zoned DTSTART / DTEND / DUE / '
        'RECURRENCE-ID / RDATE / EXDATE (single and repeated, i.e. list-valued) plus TZID parameters on arbitrary '
        'properties (single string, multi-valued, unknown ids, ids with a leading slash), combined with any subset of '
        'VTIMEZONEs: for used ids, unused ids, unknown ids, repeated, without TZID, nested below other components, '
        'with a list-valued TZID; get_used_tzids / get_missing_tzids / timezone names compared with the model, and '
        'add_missing_timezones applied 1..3 times with the provider knowledge measured by Timezone.from_tzid; both '
        'providers. A case is non-trivial when at least one TZID parameter is present')
ASSUMPTIONS = ['the provider is a parameter: knows(k) iff Timezone.from_tzid(k, first_date, last_date) returns a '
               'component, measured on the running library for every id that occurs',
               'the generated VTIMEZONE is modelled only as "a VTIMEZONE whose TZID is k without TZID parameters '
               'inside" (its content is C13); correspondence compares names / used / missing after the call',
               'model domain: the TZID of a VTIMEZONE is a single vText free of characters that TEXT escapes; a '
               'list-valued TZID (two TZID lines) has a Python repr as tz_name and is answered `unmodelled` '
               '(the oracle still demands that nothing fails)',
               'small date windows (2019-2022) are passed to add_missing_timezones to keep generation fast']

FIRST, LAST = date(2019, 1, 1), date(2022, 1, 1)
KNOWN_IDS = T.ZONES + ['UTC', '/Europe/Berlin', 'Europe/London']
UNKNOWN_IDS = ['Custom/Zone', 'X/Unknown', 'Europe', 'Not A Zone', '', '0']        # an empty or odd value is still the value of the parameter
ALL_IDS = KNOWN_IDS + UNKNOWN_IDS

_KNOWS = {}


def knows(pname, k):
    """Timezone.from_tzid succeeds (the criterion add_missing_timezones uses), per provider"""
    from icalendar import Timezone
    key = (pname, k)
    if key not in _KNOWS:
        try:
            Timezone.from_tzid(k, first_date=FIRST, last_date=LAST)
            _KNOWS[key] = True
        except ValueError:
            _KNOWS[key] = False
    return _KNOWS[key]


# ------------------------------------------------------------------ generation

def tz_component(rng, pname, kind, used_ids):
    """one VTIMEZONE of the requested kind"""
    from icalendar import Timezone
    from icalendar.prop import vText
    if kind == 'real':
        ids = [k for k in used_ids if knows(pname, k)] or ['Europe/Berlin']
        k = rng.choice(ids)
        tz = T.real_timezone(pname, k) if k in T.ZONES else Timezone.from_tzid(k, first_date=FIRST, last_date=LAST)
        return tz
    tz = Timezone()
    if kind == 'used':
        tz.add('tzid', rng.choice(sorted(used_ids) or ['Europe/Berlin']))
    elif kind == 'unused':
        tz.add('tzid', rng.choice(['Unused/Zone', 'Africa/Cairo', 'Pacific/Fiji']))
    elif kind == 'unknown':
        tz.add('tzid', rng.choice(UNKNOWN_IDS))
    elif kind == 'no-tzid':
        tz.add('comment', 'no id')
    elif kind == 'list-tzid':
        tz['TZID'] = [vText('Europe/Berlin'), vText('America/New_York')]
    elif kind == 'escaped-tzid':
        tz.add('tzid', 'Odd,Zone;x')
    if rng.random() < 0.3:
        std = T.new_comp('STANDARD')
        T._p_tzoffset(rng, std)
        tz.add_component(std)
    return tz


def decorate(rng, cal, pname):
    """add TZID parameters on arbitrary properties and VTIMEZONEs of every kind"""
    from icalendar.timezone import tzp
    nodes = T.ref_preorder(cal)
    for _ in range(rng.choice([0, 1, 2, 3])):
        node = rng.choice(nodes)
        r = rng.random()
        if r < 0.35:
            node.add(T.key(rng, rng.choice(['x-one', 'x-two', 'comment'])), 'text',
                     parameters={'TZID': rng.choice(ALL_IDS)})
        elif r < 0.5:
            node.add(T.key(rng, 'x-multi'), 'text', parameters={'tzid': rng.sample(ALL_IDS, rng.randint(1, 3))})
        elif r < 0.75:
            z = rng.choice(KNOWN_IDS[:3] + ['Europe/London'])
            node.add(T.key(rng, rng.choice(['dtstart', 'dtend', 'due', 'recurrence-id', 'exdate', 'rdate'])),
                     tzp.localize(datetime(2020, rng.randint(1, 12), rng.randint(1, 28), 10, 0, 0), z))
        else:
            node.add(T.key(rng, rng.choice(['rdate', 'exdate'])), T.rand_dt_list(rng))
    used = ref_used(cal)
    kinds = ['real', 'used', 'used', 'unused', 'unknown', 'no-tzid', 'used']
    for _ in range(rng.choice([0, 0, 1, 2, 3, 4])):
        k = rng.choice(kinds)
        if rng.random() < 0.03:
            k = rng.choice(['list-tzid', 'escaped-tzid'])
        tz = tz_component(rng, pname, k, used)
        parent = cal if rng.random() < 0.75 else rng.choice(nodes)
        parent.subcomponents.insert(rng.randint(0, len(parent.subcomponents)), tz)
        if rng.random() < 0.25:
            parent.subcomponents.append(copy.deepcopy(tz))       # repeated VTIMEZONE
    return cal


def rand_calendar(rng, pname, max_depth):
    cal = T.rand_tree(rng, rng.randint(2, max_depth), [rng.choice([4, 8, 15, 25])], api_only=(rng.random() < 0.6),
                      root='VCALENDAR')
    return decorate(rng, cal, pname)


# ------------------------------------------------------------------ independent reference scans

def ref_used(cal):
    out = set()
    for c in T.ref_preorder(cal):
        for v in c.values():
            for x in (v if isinstance(v, list) else [v]):
                p = getattr(x, 'params', None)
                if p is None:
                    continue
                z = p.get('TZID')
                if isinstance(z, (list, tuple)):
                    out.update(z)
                elif z is not None:
                    out.add(z)
    return out


def ref_tz_names(cal):
    """TZID of every VTIMEZONE (any depth) that has one; a list-valued TZID counts with each element's text"""
    out = []
    for c in T.ref_preorder(cal):
        if c.name == 'VTIMEZONE' and 'TZID' in c:
            v = c['TZID']
            if isinstance(v, list):
                out.append(None)          # no single id
            else:
                out.append(str(v))
    return out


# ------------------------------------------------------------------ correspondence

def canon(s):
    return encl(sorted(s))


def safe(f):
    """canonical answer of the implementation, exceptions mapped to a small enum"""
    try:
        return f()
    except Exception as ex:
        return 'err:' + type(ex).__name__


def body(r):
    """answer of a regenerated body (`Py`): ok:<value> | err:<E>"""
    return r if r.startswith('err:') else 'ok:' + r


def corr_calendar(ctx, cal, pname, rng):
    et = enc_tree(tree_of(cal))
    used = ref_used(cal)
    nt = bool(used)
    r_used = safe(lambda: canon(cal.get_used_tzids()))
    r_missing = safe(lambda: canon(cal.get_missing_tzids()))
    r_names = safe(lambda: encl([tz.tz_name for tz in cal.timezones if 'TZID' in tz]))
    ctx.corr('tz_used', [et], r_used, nt)
    ctx.corr('tz_missing', [et], r_missing, nt)
    ctx.corr('tz_names', [et], r_names, nt)
    # the same calls against the bodies regenerated from the source by tools/py2lean.py (Gen/BodiesTzUse.lean)
    ctx.corr('body_tz_used', [et], body(r_used), nt)
    ctx.corr('body_tz_missing', [et], body(r_missing), nt)
    ctx.corr('body_tz_names', [et], body(r_names), nt)
    if any(not isinstance(k, str) for k in used):
        return
    known = sorted(k for k in used if knows(pname, k))
    ctx.count('known_ids', len(known))
    ctx.count('unknown_ids', len(used) - len(known))
    c2 = copy.deepcopy(cal)
    for times in (1, 2, 3):
        def run():
            c2.add_missing_timezones(first_date=FIRST, last_date=LAST)
            return '\t'.join([encl([tz.tz_name for tz in c2.timezones if 'TZID' in tz]), canon(c2.get_missing_tzids()),
                              encl([s.name for s in c2.subcomponents]), canon(c2.get_used_tzids())])
        r_add = safe(run)
        ctx.corr('tz_add', [et, encl(known), str(times)], r_add, nt)
        ctx.corr('body_tz_add', [et, encl(known), str(times)], body(r_add), nt)


def fixed_calendars(rng, pname):
    from icalendar import Calendar, Event
    out = []
    out.append(Calendar())
    c = Calendar()
    e = Event()
    e.add('dtstart', T.zoned(rng))
    c.add_component(e)
    out.append(c)
    c = Calendar.from_ical(b"BEGIN:VCALENDAR\r\nBEGIN:VEVENT\r\nX-A;TZID=A,B:foo\r\nEND:VEVENT\r\nEND:VCALENDAR\r\n")
    out.append(c)
    c = Calendar()
    for k in ('unused', 'no-tzid', 'used', 'used'):
        c.add_component(tz_component(rng, pname, k, {'Europe/London'}))
    e = Event()
    e.add('x-thing', 'v', parameters={'TZID': 'Europe/London'})
    e.add('x-other', 'v', parameters={'TZID': 'X/Unknown'})
    c.add_component(e)
    out.append(c)
    return out


def correspondence(ctx):
    import icalendar
    rng = ctx.rng
    deep = ctx.tier == 'thorough' or ctx.escalate
    max_depth = 6 if deep else 4
    try:
        for pname, use in T.providers():
            use()
            ctx.count('provider:' + pname)
            cals = fixed_calendars(rng, pname)
            for _ in range(ctx.vol(250, 8)):
                cals.append(rand_calendar(rng, pname, max_depth))
            for cal in cals:
                corr_calendar(ctx, cal, pname, rng)
    finally:
        icalendar.use_zoneinfo()


# ------------------------------------------------------------------ oracle (implementation only)

def check_calendar(ctx, cal, pname, cls=None):
    inp = T.describe(cal, provider=pname)
    want_used = ref_used(cal)
    try:
        used = cal.get_used_tzids()
    except Exception as ex:
        ctx.violation('used-raises', inp, f'get_used_tzids raised {type(ex).__name__}: {ex}', cls)
        return
    if used != want_used:
        ctx.violation('used-set', inp, f'get_used_tzids() = {sorted(used)}, TZID parameters present: {sorted(want_used)}', cls)
    names = ref_tz_names(cal)
    want_missing = want_used - {n for n in names if n is not None}
    try:
        missing = cal.get_missing_tzids()
    except Exception as ex:
        ctx.violation('missing-raises', inp, f'get_missing_tzids raised {type(ex).__name__}: {ex}', cls)
        return
    if missing != want_missing:
        ctx.violation('missing-set', inp, f'get_missing_tzids() = {sorted(missing)}, expected {sorted(want_missing)}', cls)
    # add_missing_timezones on a copy
    c2 = copy.deepcopy(cal)
    try:
        c2.add_missing_timezones(first_date=FIRST, last_date=LAST)
    except Exception as ex:
        ctx.violation('add-raises', inp, f'add_missing_timezones raised {type(ex).__name__}: {ex}', cls)
        return
    names2 = ref_tz_names(c2)
    if ref_used(c2) != want_used:
        ctx.violation('add-changes-used', inp, f'used ids changed to {sorted(ref_used(c2))}', cls)
    for k in sorted(want_used):
        before, after = names.count(k), names2.count(k)
        if knows(pname, k):
            want = before if before >= 1 else 1
            if after != want:
                ctx.violation('add-count', dict(inp, tzid=k),
                              f'{k!r}: {before} VTIMEZONE(s) before, {after} after the call, expected {want}', cls)
        else:
            if after != before:
                ctx.violation('add-count', dict(inp, tzid=k), f'unknown id {k!r} got a VTIMEZONE', cls)
            if before == 0 and k not in c2.get_missing_tzids():
                ctx.violation('add-unknown-not-missing', dict(inp, tzid=k), f'unknown id {k!r} no longer reported missing', cls)
    added = len(names2) - len(names)
    want_added = sum(1 for k in want_missing if knows(pname, k))
    if added != want_added or len(c2.subcomponents) - len(cal.subcomponents) != want_added:
        ctx.violation('add-extra', inp, f'{added} VTIMEZONEs added, expected {want_added}', cls)
    try:
        left = c2.get_missing_tzids()
    except Exception as ex:
        ctx.violation('missing-raises', inp, f'after add: {type(ex).__name__}: {ex}', cls)
        return
    if any(knows(pname, k) for k in left):
        ctx.violation('add-not-closed', inp, f'still missing although known: {sorted(k for k in left if knows(pname, k))}', cls)
    # idempotent
    b1 = T.safe_ical(c2)
    n1 = len(T.ref_preorder(c2))
    c2.add_missing_timezones(first_date=FIRST, last_date=LAST)
    if len(T.ref_preorder(c2)) != n1 or T.safe_ical(c2) != b1:
        ctx.violation('add-not-idempotent', inp, 'a second add_missing_timezones() call changed the calendar', cls)


def check_learned_zone(ctx):
    """history: an id the provider does not know stays missing; once a VTIMEZONE for it has been parsed (the
    provider now knows it), another calendar that uses the id must get its VTIMEZONE from add_missing_timezones"""
    import icalendar
    from icalendar import Calendar
    for pname in ('zoneinfo', 'pytz'):
        getattr(icalendar, 'use_' + pname)()
        tzid = 'Verif/Learned-' + pname + '-' + str(ctx.seed)
        use = ('BEGIN:VCALENDAR\r\nBEGIN:VEVENT\r\nUID:1\r\nDTSTART;TZID=%s:20240101T100000\r\nEND:VEVENT\r\nEND:VCALENDAR\r\n' % tzid).encode()
        define = ('BEGIN:VCALENDAR\r\nBEGIN:VTIMEZONE\r\nTZID:%s\r\nBEGIN:STANDARD\r\nDTSTART:19700101T000000\r\n'
                  'TZOFFSETFROM:+0300\r\nTZOFFSETTO:+0300\r\nTZNAME:X3\r\nEND:STANDARD\r\nEND:VTIMEZONE\r\nEND:VCALENDAR\r\n' % tzid).encode()
        ctx.evaluated(('learned-zone', pname))
        try:
            c1 = Calendar.from_ical(use)
            c1.add_missing_timezones()
            if c1.get_missing_tzids() != {tzid} or c1.timezones:
                ctx.violation('history', {'provider': pname, 'tzid': tzid}, f'an unknown id did not stay missing: {c1.get_missing_tzids()}')
            Calendar.from_ical(define)          # the provider learns the id from this calendar
            c2 = Calendar.from_ical(use)
            knows = icalendar.timezone.tzp.timezone(tzid) is not None
            c2.add_missing_timezones()
            names = [t.tz_name for t in c2.timezones]
            if knows and (names != [tzid] or c2.get_missing_tzids()):
                ctx.violation('history', {'provider': pname, 'tzid': tzid},
                              f'the provider knows {tzid} now, but add_missing_timezones left VTIMEZONEs {names}, missing {c2.get_missing_tzids()}')
            # ... and when the provider is selected again it has forgotten the id: unknown again, stays missing,
            # gets no VTIMEZONE (whatever was generated for it while it was known)
            getattr(icalendar, 'use_' + pname)()
            c3 = Calendar.from_ical(use)
            if icalendar.timezone.tzp.timezone(tzid) is None:
                c3.add_missing_timezones()
                if c3.get_missing_tzids() != {tzid} or c3.timezones:
                    ctx.violation('history', {'provider': pname, 'tzid': tzid, 'step': 'forgotten'},
                                  f'after the provider was selected again it does not know {tzid}, yet add_missing_timezones '
                                  f'left VTIMEZONEs {[t.tz_name for t in c3.timezones]}, missing {c3.get_missing_tzids()}')
        except Exception as e:  # noqa: BLE001
            ctx.violation('history', {'provider': pname, 'tzid': tzid}, f'{type(e).__name__}: {e}')
        finally:
            icalendar.use_zoneinfo()


def oracle(ctx):
    import icalendar
    check_learned_zone(ctx)
    rng = ctx.rng
    deep = ctx.tier == 'thorough' or ctx.escalate
    max_depth = 6 if deep else 4
    try:
        for pname, use in T.providers():
            use()
            for i, cal in enumerate(fixed_calendars(rng, pname)):
                ctx.evaluated(('fixed', i, pname))
                check_calendar(ctx, cal, pname)
            # every VTIMEZONE kind on its own and all together
            for kinds in (['unused'], ['no-tzid'], ['used', 'used'], ['list-tzid'], ['escaped-tzid'], ['unknown'],
                          ['real', 'real'], ['unused', 'no-tzid', 'used', 'used', 'list-tzid', 'unknown', 'real']):
                from icalendar import Calendar, Event
                c = Calendar()
                e = Event()
                e.add('dtstart', T.zoned(rng))
                e.add('x-p', 'v', parameters={'TZID': rng.choice(UNKNOWN_IDS)})
                c.add_component(e)
                for k in kinds:
                    c.add_component(tz_component(rng, pname, k, ref_used(c)))
                ctx.evaluated(('kinds', tuple(kinds), pname))
                check_calendar(ctx, c, pname)
            for _ in range(ctx.vol(250, 8)):
                cal = rand_calendar(rng, pname, max_depth)
                ctx.evaluated(('cal', T.tree_sig(cal), pname), bool(ref_used(cal)))
                ctx.count('oracle_used_ids', len(ref_used(cal)))
                check_calendar(ctx, cal, pname)
    finally:
        icalendar.use_zoneinfo()


def replay(ctx, data):
    import icalendar
    inp = data['input']
    if inp.get('provider') == 'pytz':
        icalendar.use_pytz()
    try:
        cal = T.restore(inp)
        if cal is not None:
            check_calendar(ctx, cal, inp.get('provider', 'zoneinfo'))
        else:
            oracle(ctx)
    finally:
        icalendar.use_zoneinfo()
    for v in ctx.violations:
        print('REPRODUCED', v['kind'], v['detail'])
    if not ctx.violations:
        print('not reproduced on the current tree')
    return 1 if ctx.violations else 0
