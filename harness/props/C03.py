"""C03 - value codecs are inverse and emit RFC 5545 grammar; grammar-valid text decodes to the RFC value;
vDDDTypes.from_ical classifies each text as the right type."""
import math
import re
from datetime import date, datetime, time, timedelta, timezone

from harness import proto
from harness.proto import enc, encl

LEAN = ['ICal.Props.C03']
LEVEL = 'proof'
FINGERPRINTS = ['prop.vDate', 'prop.vDatetime', 'prop.vTime', 'prop.vDuration', 'prop.vPeriod', 'prop.vUTCOffset',
                'prop.vInt', 'prop.vBoolean', 'prop.vWeekday', 'prop.vFrequency', 'prop.vMonth', 'prop.vDDDTypes',
                'prop.vGeo', 'prop.vFloat', 'prop.vBinary', 'prop.vUri', 'prop.vCalAddress']
RULE = ('correspondence: all 86 400 times, all offsets -86399..86399 (+ larger magnitudes), every year boundary / leap day / '
        'month end of years 0001-9999 (thorough: all 3 652 059 dates), durations -200000..200000 step-sampled + random to '
        '1e9 s, integers to 2^70, texts generated from each RFC grammar, a malformed stream (mutations: wrong lengths, '
        'letters in digit fields, signs, whitespace, underscores, trailing newline) through every decoder and every spec '
        'recogniser, all strings of length <= 4 over a 9-character alphabet through int(); the regex sources and tables '
        'the hand matchers implement are compared with the live objects. oracle: round trip + independent regex per RFC '
        'grammar on the real encoder output, grammar-valid text decodes to the RFC value, vDDDTypes classification. '
        'a case is non-trivial when it is not a plain success on a canonical text (error, sign, padding, boundary, Z, LF)')
ASSUMPTIONS = [
    'decoders are modelled for ASCII text; int(), \\d, \\w, str.upper(), str.isdigit() on non-ASCII input are outside the model (driver answers unmodelled)',
    'timedelta is whole seconds within the range of datetime.timedelta; longer digit strings (OverflowError, 4300-digit int limit) are outside the model',
    'timezone=None: the text of a value carries only the Z suffix; TZID parameters are C11',
    'value domain of datetime: years 0001-9999 and seconds 00-59; the ABNF also admits year 0000 and the leap second 60, which datetime cannot represent (those texts are refused with ValueError; counted in the evidence, not treated as a violation)',
    'FLOAT/BINARY/URI/CAL-ADDRESS/GEO wrap float()/float.__repr__, base64/binascii and str: assumed library laws float(repr(x)) == x and b64decode(b2a_base64(b)[:-1]) == b, exercised by the oracle only',
]

UTC = timezone.utc

# ------------------------------------------------------------------ canonical forms


def date_s(d):
    return f'{d.year},{d.month},{d.day}'


def time_s(t):
    return f'{t.hour},{t.minute},{t.second},{1 if t.tzinfo is not None else 0}'


def dt_s(d):
    return f'{d.year},{d.month},{d.day},{d.hour},{d.minute},{d.second},{1 if d.tzinfo is not None else 0}'


def td_s(td):
    assert td.microseconds == 0
    return str(td.days * 86400 + td.seconds)


def atom_s(x):
    if isinstance(x, datetime):
        return 'dt:' + dt_s(x)
    if isinstance(x, date):
        return 'date:' + date_s(x)
    if isinstance(x, timedelta):
        return 'dur:' + td_s(x)
    if isinstance(x, time):
        return 'time:' + time_s(x)
    raise TypeError(type(x))


def ddd_s(x):
    if isinstance(x, tuple):
        return 'period:' + atom_s(x[0]) + '|' + atom_s(x[1])
    return atom_s(x)


class Skip(Exception):
    pass


def call(f, conv):
    try:
        return 'ok:' + conv(f())
    except OverflowError:
        raise Skip()
    except ValueError:
        return 'err:ValueError'
    except IndexError:
        return 'err:IndexError'
    except Exception as e:  # noqa: BLE001
        return 'err:Other:' + type(e).__name__


# ------------------------------------------------------------------ independent RFC 5545 recognisers (Python side)

D = '[0-9]'
RE_DATE = re.compile(rf'({D}{{4}})({D}{{2}})({D}{{2}})\Z')
RE_TIME = re.compile(rf'({D}{{2}})({D}{{2}})({D}{{2}})(Z?)\Z')
RE_DT = re.compile(rf'({D}{{8}})T({D}{{6}}Z?)\Z')
def _time_re(i):
    def s(j):
        return rf'(?:(?P<s{i}{j}>{D}+)S)'

    def m(j):
        return rf'(?:(?P<m{i}{j}>{D}+)M{s(j)}?)'

    def h(j):
        return rf'(?:(?P<h{i}{j}>{D}+)H{m(j)}?)'
    return 'T(?:' + h('a') + '|' + m('b') + '|' + s('c') + ')'


RE_DUR = re.compile(rf'(?P<sign>[+-]?)P(?:(?P<w>{D}+)W|(?P<d>{D}+)D(?:{_time_re(1)})?|{_time_re(2)})\Z')
RE_OFF = re.compile(rf'([+-])({D}{{2}})({D}{{2}})({D}{{2}})?\Z')
RE_INT = re.compile(rf'[+-]?{D}+\Z')
RE_FLOAT = re.compile(rf'[+-]?{D}+(?:\.{D}+)?\Z')
RE_B64 = re.compile(r'(?:[A-Za-z0-9+/]{4})*(?:[A-Za-z0-9+/]{2}==|[A-Za-z0-9+/]{3}=)?\Z')
RE_WD = re.compile(rf'(?:([+-]?)({D}{{1,2}}))?(SU|MO|TU|WE|TH|FR|SA)\Z')
RE_MONTH = re.compile(rf'({D}{{1,2}})(L?)\Z')
WEEKDAYS = ['SU', 'MO', 'TU', 'WE', 'TH', 'FR', 'SA']
FREQS = ['SECONDLY', 'MINUTELY', 'HOURLY', 'DAILY', 'WEEKLY', 'MONTHLY', 'YEARLY']
MDAYS = [31, 28, 31, 30, 31, 30, 31, 31, 30, 31, 30, 31]


def leap(y):
    return y % 4 == 0 and (y % 100 != 0 or y % 400 == 0)


def mdays(y, m):
    return 29 if (m == 2 and leap(y)) else MDAYS[m - 1]


def rfc_date(t):
    """(y, m, d) or None"""
    m = RE_DATE.match(t)
    if not m:
        return None
    y, mo, d = (int(g) for g in m.groups())
    if not (1 <= y <= 9999 and 1 <= mo <= 12 and 1 <= d <= mdays(y, mo)):
        return None
    return (y, mo, d)


def rfc_time(t):
    m = RE_TIME.match(t)
    if not m:
        return None
    h, mi, s = (int(g) for g in m.groups()[:3])
    if not (h < 24 and mi < 60 and s < 60):
        return None
    return (h, mi, s, 1 if m.group(4) else 0)


def rfc_dt(t):
    m = RE_DT.match(t)
    if not m:
        return None
    d, tm = rfc_date(m.group(1)), rfc_time(m.group(2))
    if d is None or tm is None:
        return None
    return d + tm


def rfc_dur(t):
    m = RE_DUR.match(t)
    if not m:
        return None
    g = m.groupdict()
    tot = 0
    for k, v in g.items():
        if k == 'sign' or v is None:
            continue
        unit = {'w': 604800, 'd': 86400, 'h': 3600, 'm': 60, 's': 1}[k[0]]
        tot += int(v) * unit
    return -tot if g['sign'] == '-' else tot


def rfc_off(t):
    m = RE_OFF.match(t)
    if not m:
        return None
    h, mi = int(m.group(2)), int(m.group(3))
    s = int(m.group(4)) if m.group(4) is not None else 0
    if not (h < 24 and mi < 60 and s < 60):
        return None
    v = h * 3600 + mi * 60 + s
    if m.group(1) == '-':
        if v == 0:
            return None
        return -v
    return v


def rfc_int(t):
    return int(t) if RE_INT.match(t) else None


def rfc_bool(t):
    u = t.upper()
    return 1 if u == 'TRUE' else 0 if u == 'FALSE' else None


def rfc_period(t):
    parts = t.split('/')
    if len(parts) != 2:
        return None
    s = rfc_dt(parts[0])
    if s is None:
        return None
    e = rfc_dt(parts[1])
    if e is not None:
        return 'period:dt:' + ','.join(map(str, s)) + '|dt:' + ','.join(map(str, e))
    d = rfc_dur(parts[1])
    if d is None:
        return None
    return 'period:dt:' + ','.join(map(str, s)) + '|dur:' + str(d)


def rfc_wd(t):
    m = RE_WD.match(t)
    if not m:
        return None
    sign, n, wd = m.groups()
    if n is None:
        return (WEEKDAYS.index(wd), None)
    n = int(n)
    if not 1 <= n <= 53:
        return None
    return (WEEKDAYS.index(wd), -n if sign == '-' else n)


def rfc_freq(t):
    return t if t in FREQS else None


def rfc_month(t):
    m = RE_MONTH.match(t)
    if not m or not 1 <= int(m.group(1)) <= 12:
        return None
    return (int(m.group(1)), 1 if m.group(2) else 0)


def o(v, f=str):
    return 'none' if v is None else 'ok:' + f(v)


def tup(v):
    return ','.join(str(x) for x in v)


# ------------------------------------------------------------------ generators


def digits(rng, lo=1, hi=8):
    return ''.join(rng.choice('0123456789') for _ in range(rng.randint(lo, hi)))


def gen_date_text(rng):
    y = rng.choice([1, 4, 100, 400, 1582, 1900, 1970, 2000, 2024, 2100, 9999, rng.randint(1, 9999)])
    m = rng.randint(1, 12)
    d = rng.choice([1, mdays(y, m), rng.randint(1, mdays(y, m))])
    return f'{y:04}{m:02}{d:02}'


def gen_time_text(rng, z=None):
    h, m, s = rng.choice([0, 23, rng.randint(0, 23)]), rng.choice([0, 59, rng.randint(0, 59)]), rng.choice([0, 59, rng.randint(0, 59)])
    zz = rng.random() < 0.5 if z is None else z
    return f'{h:02}{m:02}{s:02}' + ('Z' if zz else '')


def gen_dt_text(rng):
    return gen_date_text(rng) + 'T' + gen_time_text(rng)


def gen_dur_time(rng):
    k = rng.randint(0, 2)
    if k == 0:
        t = digits(rng) + 'H'
        if rng.random() < 0.6:
            t += digits(rng) + 'M'
            if rng.random() < 0.6:
                t += digits(rng) + 'S'
        return 'T' + t
    if k == 1:
        t = digits(rng) + 'M'
        if rng.random() < 0.6:
            t += digits(rng) + 'S'
        return 'T' + t
    return 'T' + digits(rng) + 'S'


def gen_dur_text(rng):
    sign = rng.choice(['', '', '+', '-'])
    k = rng.randint(0, 2)
    if k == 0:
        return sign + 'P' + digits(rng) + 'W'
    if k == 1:
        return sign + 'P' + digits(rng) + 'D' + (gen_dur_time(rng) if rng.random() < 0.6 else '')
    return sign + 'P' + gen_dur_time(rng)


def gen_off_text(rng):
    while True:
        t = rng.choice('+-') + f'{rng.choice([0, 23, rng.randint(0, 23)]):02}{rng.choice([0, 59, rng.randint(0, 59)]):02}'
        if rng.random() < 0.4:
            t += f'{rng.choice([0, 59, rng.randint(0, 59)]):02}'
        if t not in ('-0000', '-000000'):
            return t


def gen_int_text(rng):
    return rng.choice(['', '+', '-']) + digits(rng, 1, 22)


def gen_period_text(rng):
    return gen_dt_text(rng) + '/' + (gen_dt_text(rng) if rng.random() < 0.5 else gen_dur_text(rng))


def all_weekday_texts():
    for wd in WEEKDAYS:
        yield wd
        for sign in ('', '+', '-'):
            for n in range(1, 54):
                yield f'{sign}{n}{wd}'
                if n < 10:
                    yield f'{sign}0{n}{wd}'


def all_month_texts():
    for n in range(1, 13):
        for suf in ('', 'L'):
            yield f'{n}{suf}'
            if n < 10:
                yield f'0{n}{suf}'


LONG_DIGITS = re.compile(r'[0-9]{9}')
MUT_ALPHA = '0123456789 +-_TZPWDHMSL/\n\t:.;aztrueFALSE\x1c'


def mutate(rng, t):
    k = rng.randint(0, 9)
    if k == 0 and t:
        i = rng.randrange(len(t))
        return t[:i] + t[i + 1:]
    if k == 1:
        i = rng.randint(0, len(t))
        return t[:i] + rng.choice(MUT_ALPHA) + t[i:]
    if k == 2 and t:
        i = rng.randrange(len(t))
        return t[:i] + rng.choice(MUT_ALPHA) + t[i + 1:]
    if k == 3:
        return t[:rng.randint(0, len(t))]
    if k == 4:
        return t + rng.choice(['\n', '\n\n', ' ', 'Z', 'z', '\r\n', '0', 'junk'])
    if k == 5:
        return rng.choice([' ', '+', '-', '\n', '_', '0']) + t
    if k == 6 and t:
        i = rng.randrange(len(t))
        return t[:i] + t[i] + t[i:]
    if k == 7:
        return t.lower() if rng.random() < 0.5 else t.swapcase()
    if k == 8 and len(t) > 2:
        i = rng.randrange(1, len(t))
        return t[:i] + '_' + t[i:]
    if k == 9 and t and rng.random() < 0.3:
        i = rng.randrange(len(t))
        return t[:i] + rng.choice(['١', '²', 'é', 'İ', '１', ' ']) + t[i + 1:]
    return t + t


def year_boundary_dates():
    """every year boundary, leap day and month end of years 1..9999 (+ the day after each month end)"""
    for y in range(1, 10000):
        yield (y, 1, 1)
        for m in range(1, 13):
            yield (y, m, mdays(y, m))
        yield (y, 2, 28)
        yield (y, 3, 1)


def all_dates():
    for y in range(1, 10000):
        for m in range(1, 13):
            for d in range(1, mdays(y, m) + 1):
                yield (y, m, d)


# ------------------------------------------------------------------ correspondence

def decoders():
    from icalendar.prop import (vBoolean, vDate, vDatetime, vDDDTypes, vDuration, vFrequency, vInt, vMonth, vPeriod,
                                vTime, vUTCOffset, vWeekday)

    def wd_s(v):
        return enc(str(v)) + ';' + enc(v.weekday) + ';' + str(v.relative)

    def month_s(v):
        return f'{int(v)},{1 if v.leap else 0}'

    return {
        'c_date_from': (vDate.from_ical, date_s),
        'c_dt_from': (vDatetime.from_ical, dt_s),
        'c_time_from': (vTime.from_ical, time_s),
        'c_dur_from': (vDuration.from_ical, td_s),
        'c_off_from': (vUTCOffset.from_ical, td_s),
        'c_int_from': (vInt.from_ical, lambda v: str(int(v))),
        'c_bool_from': (vBoolean.from_ical, lambda v: '1' if v else '0'),
        'c_wd_from': (vWeekday.from_ical, wd_s),
        'c_wd_new': (vWeekday, wd_s),
        'c_freq_from': (vFrequency.from_ical, lambda v: enc(str(v))),
        'c_month_from': (vMonth.from_ical, month_s),
        'c_period_from': (vPeriod.from_ical, ddd_s),
        'c_ddd_from': (vDDDTypes.from_ical, ddd_s),
        'c_pyint': (int, str),
    }


SPEC = {
    'c_rfc_date': lambda t: o(rfc_date(t), tup),
    'c_rfc_time': lambda t: o(rfc_time(t), tup),
    'c_rfc_dt': lambda t: o(rfc_dt(t), tup),
    'c_rfc_dur': lambda t: o(rfc_dur(t)),
    'c_rfc_off': lambda t: o(rfc_off(t)),
    'c_rfc_int': lambda t: o(rfc_int(t)),
    'c_rfc_bool': lambda t: o(rfc_bool(t)),
    'c_rfc_period': lambda t: o(rfc_period(t)),
    'c_rfc_wd': lambda t: o(rfc_wd(t), lambda v: f'{v[0]},{v[1]}'),
    'c_rfc_freq': lambda t: o(rfc_freq(t), enc),
    'c_rfc_month': lambda t: o(rfc_month(t), tup),
}


def bulk(ctx, op, items):
    """stream a large exhaustive family through the model without keeping it in memory (thorough tier)"""
    lines, exp = [], []

    def flush():
        outs = proto.run_model(lines)
        for ln, e, out in zip(lines, exp, outs):
            if out == 'unmodelled':
                ctx.unmodelled += 1
                continue
            ctx.traces += 1
            if out != e:
                ctx.disagreements.append({'line': ln, 'impl': e, 'model': out})
        ctx.count('corr:' + op + ':bulk', len(lines))
        lines.clear()
        exp.clear()

    for args, impl in items:
        lines.append('\t'.join([op] + args))
        exp.append(impl)
        if len(lines) >= 400000:
            flush()
    if lines:
        flush()


def correspondence(ctx):
    from icalendar import prop
    from icalendar.prop import (vBoolean, vDate, vDatetime, vDDDTypes, vDuration, vFrequency, vGeo, vInt, vMonth,
                                vPeriod, vTime, vUTCOffset, vWeekday)
    rng = ctx.rng
    dec = decoders()
    thorough = ctx.tier == 'thorough'

    def through(op, t, nontrivial=True):
        f, conv = dec[op]
        if 'P' in t and LONG_DIGITS.search(t):
            # timedelta overflow (OverflowError, re-raised as ValueError inside vPeriod): outside the model
            ctx.count('skipped:overflow')
            return
        try:
            impl = call(lambda: f(t), conv)
        except Skip:
            ctx.count('skipped:overflow')
            return
        ctx.corr(op, [enc(t)], impl, nontrivial)
        ctx.count('result:' + op + ':' + ('ok' if impl.startswith('ok:') else impl[4:]))

    # -- the declarative pieces the hand matchers implement
    ctx.corr('c_regex_dur', [], enc(prop.DURATION_REGEX.pattern))
    ctx.corr('c_regex_wd', [], enc(prop.WEEKDAY_RULE.pattern))
    ctx.corr('c_tbl_weekdays', [], encl(sorted(vWeekday.week_days, key=vWeekday.week_days.get)))
    ctx.corr('c_tbl_freq', [], encl(list(vFrequency.frequencies)))
    if vUTCOffset.ignore_exceptions is not False or sorted(vBoolean.BOOL_MAP.items()) != [('FALSE', False), ('TRUE', True)]:
        ctx.corr('c_tbl_changed', [], 'vUTCOffset.ignore_exceptions / vBoolean.BOOL_MAP differ from the modelled constants')

    # -- TIME: all 86 400 seconds of the day, both directions
    for h in range(24):
        for m in range(60):
            for s in range(60):
                t = vTime(time(h, m, s)).to_ical()
                nt = s == 0 or s == 59 or m == 0 or m == 59
                ctx.corr('c_time_to', [str(h), str(m), str(s), '0'], enc(t), nt)
                through('c_time_from', t, nt)
    for _ in range(300):
        h, m, s = rng.randint(0, 23), rng.randint(0, 59), rng.randint(0, 59)
        ctx.corr('c_time_to', [str(h), str(m), str(s), '1'], enc(vTime(time(h, m, s, tzinfo=UTC)).to_ical()))
        through('c_time_from', f'{h:02}{m:02}{s:02}Z')

    # -- UTC-OFFSET: all whole-second offsets below 24 h, both directions; larger magnitudes for the encoder
    for s in range(-86399, 86400):
        t = vUTCOffset(timedelta(seconds=s)).to_ical()
        nt = s % 60 != 0 or s <= 0 or abs(s) >= 86340
        ctx.corr('c_off_to', [str(s)], enc(t), nt)
        through('c_off_from', t, nt)
    for _ in range(2000):
        s = rng.choice([-1, 1]) * rng.choice([86400, 86401, 90000, 359999, 360000, rng.randint(86400, 10 ** 7)])
        t = vUTCOffset(timedelta(seconds=s)).to_ical()
        ctx.corr('c_off_to', [str(s)], enc(t))
        through('c_off_from', t)

    # -- DATE: boundaries of every year (quick) or every date (thorough)
    if thorough:
        bulk(ctx, 'c_date_to', (([str(y), str(m), str(d)], enc(vDate(date(y, m, d)).to_ical())) for y, m, d in all_dates()))
        bulk(ctx, 'c_date_from', (([enc(f'{y:04}{m:02}{d:02}')], call(lambda: vDate.from_ical(f'{y:04}{m:02}{d:02}'), date_s))
                                  for y, m, d in all_dates()))
    for y, m, d in year_boundary_dates():
        t = vDate(date(y, m, d)).to_ical().decode()
        ctx.corr('c_date_to', [str(y), str(m), str(d)], enc(t))
        through('c_date_from', t)
        if d >= 28:
            # the day after a month end does not exist
            through('c_date_from', f'{y:04}{m:02}{d + 1:02}')

    # -- DATE-TIME
    for _ in range(ctx.vol(20000)):
        y, m = rng.choice([1, 9999, 2000, 1900, rng.randint(1, 9999)]), rng.randint(1, 12)
        d = rng.choice([1, mdays(y, m), rng.randint(1, mdays(y, m))])
        h, mi, s = rng.choice([0, 23, rng.randint(0, 23)]), rng.choice([0, 59, rng.randint(0, 59)]), rng.choice([0, 59, rng.randint(0, 59)])
        z = rng.random() < 0.5
        dt = datetime(y, m, d, h, mi, s, tzinfo=UTC if z else None)
        t = vDatetime(dt).to_ical().decode()
        ctx.corr('c_dt_to', [str(x) for x in (y, m, d, h, mi, s, int(z))], enc(t))
        through('c_dt_from', t)
        through('c_ddd_from', t)

    # -- DURATION
    durs = list(range(-200000, 200001, 1 if thorough else 7))
    durs += [k * u + e for u in (60, 3600, 86400, 604800) for k in range(-30, 31) for e in (-1, 0, 1)]
    durs += [rng.choice([-1, 1]) * rng.randint(0, 10 ** 9) for _ in range(ctx.vol(20000))]
    durs += [rng.choice([-1, 1]) * rng.randint(0, 86399999913600) for _ in range(2000)]
    for s in durs:
        t = vDuration(timedelta(seconds=s)).to_ical().decode()
        nt = s < 0 or s % 86400 == 0 or s % 60 == 0 or abs(s) < 86400
        ctx.corr('c_dur_to', [str(s)], enc(t), nt)
        through('c_dur_from', t, nt)
    for s in durs[::5]:
        through('c_ddd_from', vDuration(timedelta(seconds=s)).to_ical().decode())

    # -- INTEGER to +-2^70
    ints = list(range(-1100, 1101)) + [sg * (2 ** k + e) for k in range(0, 71) for e in (-1, 0, 1) for sg in (1, -1)]
    ints += [rng.randint(-2 ** 70, 2 ** 70) for _ in range(ctx.vol(10000))]
    ints += [sg * 10 ** k + e for k in range(0, 22) for e in (-1, 0, 1) for sg in (1, -1)]
    for z in ints:
        t = vInt(z).to_ical().decode()
        ctx.corr('c_int_to', [str(z)], enc(t), z < 0 or z > 9)
        through('c_int_from', t, z < 0 or z > 9)

    # -- BOOLEAN, weekday, frequency, month
    for b in (True, False):
        ctx.corr('c_bool_to', ['1' if b else '0'], enc(vBoolean(b).to_ical()))
    for t in ['TRUE', 'FALSE', 'true', 'False', 'tRuE', 'yes', '', 'TRUE ', '1', 'FALS', 'TRUEE']:
        through('c_bool_from', t)
    for t in all_weekday_texts():
        through('c_wd_from', t)
        through('c_wd_from', t.lower())
        through('c_wd_new', t)
        ctx.corr('c_wd_to', [enc(t.lower())], enc(vWeekday(t.lower()).to_ical()))
    for t in FREQS:
        for u in (t, t.lower(), t.capitalize(), t + 'X', t[:-1]):
            through('c_freq_from', u)
        ctx.corr('c_freq_to', [enc(t.lower())], enc(vFrequency(t.lower()).to_ical()))
    for n in list(range(0, 40)) + [99, 100, 2 ** 40]:
        for lp in (False, True):
            v = vMonth(f'{n}L' if lp else n)
            ctx.corr('c_month_to', [str(n), '1' if lp else '0'], enc(v.to_ical()))
            through('c_month_from', v.to_ical().decode())
    for t in all_month_texts():
        through('c_month_from', t)

    # -- PERIOD
    for _ in range(ctx.vol(6000)):
        t = gen_period_text(rng)
        v = call(lambda: vPeriod.from_ical(t), ddd_s)
        through('c_period_from', t)
        through('c_ddd_from', t)
        if v.startswith('ok:period:'):
            a, b = v[len('ok:period:'):].split('|')
            try:
                x, y = vPeriod.from_ical(t)
                if isinstance(y, timedelta) or (x.tzinfo is None) == (y.tzinfo is None):
                    ctx.corr('c_period_to', [a, b], enc(vPeriod((x, y)).to_ical()))
            except (ValueError, OverflowError):
                pass   # start after end / end beyond year 9999: the constructor refuses, the encoder is not reached

    # -- int() itself: all short strings over the critical alphabet
    alpha = [' ', '+', '-', '_', '0', '7', 'a', '\n', '\x1c']
    import itertools
    for n in range(0, 5 if not thorough else 6):
        for tp in itertools.product(alpha, repeat=n):
            through('c_pyint', ''.join(tp))
    for t in ['1_000', '1__0', '_1', '1_', ' 12 ', '\t12\n', '+ 1', '-0', '+0', '00012', '١٢', '1\x0b', '\x1f5\x1c', '1\x002', '0x10', '1e3', '1.0', '²']:
        through('c_pyint', t)

    # -- grammar-valid texts (generated from the grammar) through decoder, classifier and recogniser
    gens = {
        'date': (gen_date_text, ['c_date_from', 'c_ddd_from'], 'c_rfc_date'),
        'time': (gen_time_text, ['c_time_from', 'c_ddd_from'], 'c_rfc_time'),
        'dt': (gen_dt_text, ['c_dt_from', 'c_ddd_from'], 'c_rfc_dt'),
        'dur': (gen_dur_text, ['c_dur_from', 'c_ddd_from'], 'c_rfc_dur'),
        'off': (gen_off_text, ['c_off_from'], 'c_rfc_off'),
        'int': (gen_int_text, ['c_int_from'], 'c_rfc_int'),
        'period': (gen_period_text, ['c_period_from', 'c_ddd_from'], 'c_rfc_period'),
    }
    valid = []
    for kind, (g, ops, spec) in gens.items():
        for _ in range(ctx.vol(2500)):
            t = g(rng)
            valid.append(t)
            for op in ops:
                through(op, t)
            ctx.corr(spec, [enc(t)], SPEC[spec](t))
            ctx.count('grammar-text:' + kind)
    for t in all_weekday_texts():
        valid.append(t)
        ctx.corr('c_rfc_wd', [enc(t)], SPEC['c_rfc_wd'](t))
    for t in all_month_texts():
        valid.append(t)
        ctx.corr('c_rfc_month', [enc(t)], SPEC['c_rfc_month'](t))
    valid += FREQS + ['TRUE', 'FALSE']

    # -- malformed stream: every decoder and every recogniser sees every text
    fixed = ['', ' ', '\n', 'P', 'PT', '+P', '-P', 'P\n', 'PT\n', 'P1D\n', 'P1D\n\n', 'P1W2D', 'PT1H30S', 'P1DT', 'p1d', 'P1d', '+PT5M',
             'P1W\n', '1P', 'P-1D', 'P1.5D', 'P 1D', 'PT1M1H', 'P1DT1H1M1S', 'P0D', 'PT0S', '-P0D', 'P01D', 'P1_0D',
             '-0000', '-000000', '+0000', '+2400', '+2359', '-2359', '+235959', '+0060', '+006000', '+000060', 'X0100', '0100', '+01', '+010',
             '+ 100', '+-100', '+0100Z', '+01000', '+010000junk', '+1_00', '+9999', '-9999', '+01-5',
             '20200230', '20200229', '19000229', '20000229', '00000101', '99991231', '2020 1 1', '2020-1-1', '+2020101', '-0010101', '2_020101',
             '20200101T000000', '20200101X000000', '20200101T000000Z', '20200101T000000z', '20200101T000000ZZ', '20200101T240000',
             '20200101T235960', '20200101T235960Z', '20200101T2359', '20200101T', '20200101T000000 ', '20200101T0000001',
             '235960', '235960Z', '240000', '120000Z', '120000z', '1200', '12:00:00', '120000X', ' 20000', '1 0 0 ',
             '20200101/20200102', '20200101T000000/20200102T000000', '20200101T000000Z/PT1H', '20200101T000000/P1D/', '/', 'a/b', '//',
             '20200101T000000/', '/P1D', 'P1D/P2D', '20200101T000000/p1d', '20200101T000000Z/20200102', '20200101T000000/120000',
             'MO', 'mo', '1MO', '+1MO', '-1MO', '53SU', '54SU', '0MO', '00MO', '-0MO', '100MO', '1M', 'MOO', 'M_', '12', '123', '1234', '+MO',
             'MO\n', 'MO\n\n', '-1su\n', '__', '1_A', 'XX', '+-MO', ' MO', 'TU ', 'LL', '5L', '05L', '5X', 'XL', 'L', '-5L', ' 5L', '5 L', '13', '0', '-1', '1_0', '1_0L',
             'SECONDLY', 'secondly', 'Yearly', 'YEARLY\n', 'true', 'TRUE\n', 'FALSE', '٢٠٢٠٠١٠١', '²L', 'ᛗᛟ']
    stream = list(fixed)
    for t in valid[:: 3 if not thorough else 1]:
        stream.append(mutate(rng, t))
        if rng.random() < 0.3:
            stream.append(mutate(rng, mutate(rng, t)))
    ops = [k for k in dec if k != 'c_pyint']
    for t in stream:
        if proto.has_surrogate(t):
            continue
        for op in ops:
            through(op, t)
        for spec, f in SPEC.items():
            ctx.corr(spec, [enc(t)], f(t))
        ctx.count('malformed-stream')

    # -- GEO split
    for t in ['1;2', '1.5;-2.5', '1;2;3', '12', ';', '', '1e5;2', ' 1 ; 2 ', 'a;b', '37.386013;-122.082932']:
        parts = t.split(';')
        impl = call(lambda: vGeo.from_ical(t), lambda v: 'x')
        ok_floats = True
        try:
            [float(p) for p in parts]
        except ValueError:
            ok_floats = False
        if len(parts) != 2:
            ctx.corr('c_geo_parts', [enc(t)], impl)
        elif ok_floats:
            ctx.corr('c_geo_parts', [enc(t)], 'ok:' + enc(parts[0]) + ';' + enc(parts[1]) if impl == 'ok:x' else impl)


# ------------------------------------------------------------------ oracle (the property on the implementation)

def aware_utc(x):
    return x.tzinfo is not None and x.utcoffset() == timedelta(0)


def enc_arg(x):
    if isinstance(x, datetime):
        return {'dt': [x.year, x.month, x.day, x.hour, x.minute, x.second, 1 if x.tzinfo is not None else 0]}
    if isinstance(x, timedelta):
        return {'td': x.days * 86400 + x.seconds}
    if isinstance(x, float):
        return {'f': repr(x)}
    return x


def dec_arg(x):
    if isinstance(x, dict):
        if 'dt' in x:
            v = x['dt']
            return datetime(*v[:6], tzinfo=UTC if v[6] else None)
        if 'td' in x:
            return timedelta(seconds=x['td'])
        if 'f' in x:
            return float(x['f'])
    return x


def guarded(kind):
    """an exception escaping from the code under test is a failed case of the property, not a crash of the check"""
    def deco(f):
        def g(self, *a):
            try:
                return f(self, *a)
            except Exception as e:  # noqa: BLE001
                self.bad(kind + '-exception', {'method': f.__name__, 'args': [enc_arg(x) for x in a]},
                         f'{type(e).__name__}: {e}'[:300])
        g.__name__ = f.__name__
        return g
    return deco


class Oracle:
    def __init__(self, ctx):
        self.ctx = ctx
        self.refused_out_of_domain = 0

    def bad(self, kind, inp, detail, cls=None):
        self.ctx.violation(kind, inp, detail, cls)

    # ---- value -> text -> value, and the grammar of the text
    @guarded('date')
    def date(self, y, m, d):
        from icalendar.prop import vDate, vDDDTypes
        v = date(y, m, d)
        t = vDate(v).to_ical().decode()
        if rfc_date(t) != (y, m, d):
            self.bad('date-grammar', {'type': 'date', 'value': [y, m, d]}, f'encoded {t!r} is not the RFC DATE text of the value')
        back = vDate.from_ical(t)
        if type(back) is not date or back != v:
            self.bad('date-roundtrip', {'type': 'date', 'value': [y, m, d]}, f'{t!r} decoded to {back!r}')
        if vDDDTypes(v).to_ical().decode() != t:
            self.bad('date-ddd-encode', {'type': 'date', 'value': [y, m, d]}, 'vDDDTypes encodes a date differently from vDate')

    @guarded('datetime')
    def datetime_(self, y, m, d, h, mi, s, z):
        from icalendar.prop import vDatetime, vDDDTypes
        inp = {'type': 'datetime', 'value': [y, m, d, h, mi, s, int(z)]}
        v = datetime(y, m, d, h, mi, s, tzinfo=UTC if z else None)
        t = vDatetime(v).to_ical().decode()
        if rfc_dt(t) != (y, m, d, h, mi, s, int(z)):
            self.bad('datetime-grammar', inp, f'encoded {t!r} is not the RFC DATE-TIME text of the value')
        back = vDatetime.from_ical(t)
        if not isinstance(back, datetime) or back.replace(tzinfo=None) != v.replace(tzinfo=None) or (aware_utc(back) if z else back.tzinfo is None) is not True:
            self.bad('datetime-roundtrip', inp, f'{t!r} decoded to {back!r}')
        if vDDDTypes.from_ical(t) != back:
            self.bad('datetime-ddd', inp, 'vDDDTypes.from_ical differs from vDatetime.from_ical')

    @guarded('time')
    def time_(self, h, mi, s):
        from icalendar.prop import vTime
        v = time(h, mi, s)
        t = vTime(v).to_ical()
        t = t.decode() if isinstance(t, bytes) else t
        if rfc_time(t) != (h, mi, s, 0):
            self.bad('time-grammar', {'type': 'time', 'value': [h, mi, s, 0]}, f'encoded {t!r} is not the RFC TIME text of the value')
        back = vTime.from_ical(t)
        if type(back) is not time or back != v or back.tzinfo is not None:
            self.bad('time-roundtrip', {'type': 'time', 'value': [h, mi, s, 0]}, f'{t!r} decoded to {back!r}')

    @guarded('time_utc')
    def time_utc(self, h, mi, s):
        """the UTC form of TIME: `HHMMSSZ` is the time in UTC (RFC 5545 3.3.12 form 2)"""
        from icalendar.prop import vTime
        inp = {'type': 'time', 'value': [h, mi, s, 1]}
        v = time(h, mi, s, tzinfo=UTC)
        t = vTime(v).to_ical()
        t = t.decode() if isinstance(t, bytes) else t
        if rfc_time(t) != (h, mi, s, 1):
            self.bad('time-utc-grammar', inp, f'a UTC time is encoded as {t!r}, without the UTC designator', 'time-utc-flag-lost')
        text = f'{h:02}{mi:02}{s:02}Z'
        back = vTime.from_ical(text)
        if (back.hour, back.minute, back.second) != (h, mi, s):
            self.bad('time-utc-value', inp, f'{text!r} decoded to {back!r}')
        elif back.tzinfo is None or back.utcoffset() != timedelta(0):
            self.bad('time-utc-decode', inp, f'{text!r} decoded to the naive time {back!r}', 'time-utc-flag-lost')

    @guarded('duration')
    def duration(self, s):
        from icalendar.prop import vDuration, vDDDTypes
        inp = {'type': 'duration', 'value': s}
        v = timedelta(seconds=s)
        t = vDuration(v).to_ical().decode()
        if rfc_dur(t) != s:
            self.bad('duration-grammar', inp, f'encoded {t!r} is not an RFC DURATION text of value {s}')
        back = vDuration.from_ical(t)
        if back != v:
            self.bad('duration-roundtrip', inp, f'{t!r} decoded to {back!r}')
        if vDDDTypes.from_ical(t) != v:
            self.bad('duration-ddd', inp, f'vDDDTypes.from_ical({t!r}) is not the duration')

    @guarded('offset')
    def offset(self, s):
        from icalendar.prop import vUTCOffset
        inp = {'type': 'utcoffset', 'value': s}
        v = timedelta(seconds=s)
        t = vUTCOffset(v).to_ical()
        if t in ('-0000', '-000000') or rfc_off(t) != s:
            self.bad('utcoffset-grammar', inp, f'encoded {t!r} is not the RFC UTC-OFFSET text of {s} s')
        back = vUTCOffset.from_ical(t)
        if back != v:
            self.bad('utcoffset-roundtrip', inp, f'{t!r} decoded to {back!r}')

    @guarded('integer')
    def integer(self, z):
        from icalendar.prop import vInt
        t = vInt(z).to_ical().decode()
        if not RE_INT.match(t):
            self.bad('int-grammar', {'type': 'int', 'value': z}, f'encoded {t!r} is not an RFC INTEGER')
        back = vInt.from_ical(t)
        if back != z or isinstance(back, bool):
            self.bad('int-roundtrip', {'type': 'int', 'value': z}, f'{t!r} decoded to {back!r}')

    @guarded('float')
    def float_(self, x):
        from icalendar.prop import vFloat
        inp = {'type': 'float', 'value': repr(x)}
        t = vFloat(x).to_ical().decode()
        back = vFloat.from_ical(t)
        if not (back == x or (x != x and back != back)):
            self.bad('float-roundtrip', inp, f'{t!r} decoded to {back!r}')
        if not RE_FLOAT.match(t):
            cls = 'float-exponent-or-nonfinite' if (not math.isfinite(x) or 'e' in t.lower()) else None
            self.bad('float-grammar', inp, f'encoded {t!r} is outside the RFC FLOAT grammar', cls)

    @guarded('geo')
    def geo(self, lat, lon):
        from icalendar.prop import vGeo
        inp = {'type': 'geo', 'value': [repr(lat), repr(lon)]}
        t = vGeo((lat, lon)).to_ical()
        back = vGeo.from_ical(t)
        if back != (lat, lon):
            self.bad('geo-roundtrip', inp, f'{t!r} decoded to {back!r}')
        parts = t.split(';')
        if len(parts) != 2 or not all(RE_FLOAT.match(p) for p in parts):
            cls = 'float-exponent-or-nonfinite' if 'e' in t.lower() else None
            self.bad('geo-grammar', inp, f'encoded {t!r} is outside the RFC GEO grammar float;float', cls)

    @guarded('boolean')
    def boolean(self, b):
        from icalendar.prop import vBoolean
        t = vBoolean(b).to_ical().decode()
        if t != ('TRUE' if b else 'FALSE') or vBoolean.from_ical(t) is not b:
            self.bad('boolean', {'type': 'bool', 'value': b}, f'encoded {t!r}, decoded {vBoolean.from_ical(t)!r}')

    @guarded('binary')
    def binary(self, s):
        import base64
        from icalendar.prop import vBinary
        t = vBinary(s).to_ical().decode()
        if not RE_B64.match(t):
            self.bad('binary-grammar', {'type': 'binary', 'value': s}, f'encoded {t!r} is not base64')
        back = vBinary.from_ical(t)
        if back != s.encode('utf-8') or base64.b64decode(t) != back:
            self.bad('binary-roundtrip', {'type': 'binary', 'value': s}, f'{t!r} decoded to {back!r}')

    @guarded('uri')
    def uri(self, s):
        from icalendar.prop import vCalAddress, vUri
        for cls_ in (vUri, vCalAddress):
            t = cls_(s).to_ical().decode()
            back = cls_.from_ical(t)
            if t != s or str(back) != s:
                self.bad('uri-roundtrip', {'type': cls_.__name__, 'value': s}, f'encoded {t!r}, decoded {back!r}')

    @guarded('period')
    def period(self, start, second):
        from icalendar.prop import vPeriod, vDDDTypes
        inp = {'type': 'period', 'value': [ddd_s((start, second))]}
        t = vPeriod((start, second)).to_ical().decode()
        if rfc_period(t) != ddd_s((start, second)):
            self.bad('period-grammar', inp, f'encoded {t!r} is not the RFC PERIOD text of the value')
        for back in (vPeriod.from_ical(t), vDDDTypes.from_ical(t)):
            if not (isinstance(back, tuple) and len(back) == 2 and ddd_s(back) == ddd_s((start, second))):
                self.bad('period-roundtrip', inp, f'{t!r} decoded to {back!r}')

    @guarded('weekday')
    def weekday(self, text):
        from icalendar.prop import vWeekday
        day, rel = rfc_wd(text)
        v = vWeekday(text)
        t = v.to_ical().decode()
        back = vWeekday.from_ical(t)
        if t != text or str(back) != text or back.weekday != WEEKDAYS[day] or back.relative != rel:
            self.bad('weekday', {'type': 'weekday', 'text': text}, f'encoded {t!r}, decoded {back!r} weekday={back.weekday} relative={back.relative}')

    @guarded('freq')
    def freq(self, text):
        from icalendar.prop import vFrequency
        t = vFrequency(text).to_ical().decode()
        if t != text or str(vFrequency.from_ical(t)) != text:
            self.bad('frequency', {'type': 'frequency', 'text': text}, f'encoded {t!r}')

    @guarded('month')
    def month(self, n, lp):
        from icalendar.prop import vMonth
        v = vMonth(f'{n}L' if lp else n)
        t = v.to_ical().decode()
        back = vMonth.from_ical(t)
        if rfc_month(t) != (n, int(lp)) or int(back) != n or back.leap != lp:
            self.bad('month', {'type': 'month', 'value': [n, lp]}, f'encoded {t!r}, decoded {back!r}')

    # ---- grammar-valid text -> RFC value, and classification by vDDDTypes.from_ical
    @guarded('text')
    def text(self, kind, t):
        from icalendar.prop import (vDate, vDatetime, vDDDTypes, vDuration, vInt, vPeriod, vTime, vUTCOffset)
        inp = {'type': kind, 'text': t}

        def dec(f, conv):
            try:
                return conv(f(t))
            except Exception as e:  # noqa: BLE001
                return f'<{type(e).__name__}: {e}>'
        if kind == 'date':
            want = tup(rfc_date(t))
            got = dec(vDate.from_ical, date_s)
            cl = dec(vDDDTypes.from_ical, ddd_s)
            if got != want:
                self.bad('decode-date', inp, f'decoded {got}, RFC value {want}')
            if cl != 'date:' + want:
                self.bad('classify-date', inp, f'vDDDTypes.from_ical gave {cl}')
        elif kind == 'dt':
            want = tup(rfc_dt(t))
            got = dec(vDatetime.from_ical, dt_s)
            cl = dec(vDDDTypes.from_ical, ddd_s)
            if got != want:
                self.bad('decode-datetime', inp, f'decoded {got}, RFC value {want}')
            if cl != 'dt:' + want:
                self.bad('classify-datetime', inp, f'vDDDTypes.from_ical gave {cl}')
        elif kind == 'time':
            want = tup(rfc_time(t))
            got = dec(vTime.from_ical, time_s)
            cl = dec(vDDDTypes.from_ical, ddd_s)
            cls = 'time-utc-flag-lost' if t.endswith('Z') and got == want[:-1] + '0' else None
            if got != want:
                self.bad('decode-time', inp, f'decoded {got}, RFC value {want}', cls)
            if cl != 'time:' + want:
                self.bad('classify-time', inp, f'vDDDTypes.from_ical gave {cl}', cls if cl == 'time:' + got else None)
        elif kind == 'dur':
            want = str(rfc_dur(t))
            got = dec(vDuration.from_ical, td_s)
            cl = dec(vDDDTypes.from_ical, ddd_s)
            if got != want:
                self.bad('decode-duration', inp, f'decoded {got}, RFC value {want}')
            if cl != 'dur:' + want:
                self.bad('classify-duration', inp, f'vDDDTypes.from_ical gave {cl}')
        elif kind == 'off':
            want = str(rfc_off(t))
            got = dec(vUTCOffset.from_ical, td_s)
            if got != want:
                self.bad('decode-utcoffset', inp, f'decoded {got}, RFC value {want}')
        elif kind == 'int':
            want = str(rfc_int(t))
            got = dec(vInt.from_ical, lambda v: str(int(v)))
            if got != want:
                self.bad('decode-int', inp, f'decoded {got}, RFC value {want}')
        elif kind == 'period':
            want = rfc_period(t)
            got = dec(vPeriod.from_ical, ddd_s)
            cl = dec(vDDDTypes.from_ical, ddd_s)
            if got != want:
                self.bad('decode-period', inp, f'decoded {got}, RFC value {want}')
            if cl != want:
                self.bad('classify-period', inp, f'vDDDTypes.from_ical gave {cl}')

    def out_of_domain(self, kind, t):
        """ABNF-valid texts whose value datetime cannot represent (year 0000, second 60): must be refused, not mis-read"""
        from icalendar.prop import vDDDTypes
        try:
            v = vDDDTypes.from_ical(t)
            self.bad('out-of-domain-accepted', {'type': kind, 'text': t}, f'decoded to {v!r}')
        except ValueError:
            self.refused_out_of_domain += 1


def run_value_case(orc, inp):
    if 'method' in inp:
        getattr(orc, inp['method'])(*[dec_arg(x) for x in inp['args']])
        return
    k = inp.get('type')
    if 'text' in inp and k in ('date', 'dt', 'time', 'dur', 'off', 'int', 'period'):
        orc.text(k, inp['text'])
        return
    v = inp.get('value')
    if k == 'date':
        orc.date(*v)
    elif k == 'datetime':
        orc.datetime_(*v[:6], bool(v[6]))
    elif k == 'time':
        (orc.time_utc if v[3] else orc.time_)(*v[:3])
    elif k == 'duration':
        orc.duration(v)
    elif k == 'utcoffset':
        orc.offset(v)
    elif k == 'int':
        orc.integer(v)
    elif k == 'float':
        orc.float_(float(v))
    elif k == 'geo':
        orc.geo(float(v[0]), float(v[1]))
    elif k == 'bool':
        orc.boolean(v)
    elif k == 'binary':
        orc.binary(v)
    elif k in ('vUri', 'vCalAddress'):
        orc.uri(v)
    elif k == 'weekday':
        orc.weekday(inp['text'])
    elif k == 'frequency':
        orc.freq(inp['text'])
    elif k == 'month':
        orc.month(*v)


def check_encoder_uses_current_value(ctx):
    """the encoded text is a function of the value the object holds NOW: after the public value attribute is
    reassigned (the `event['DTSTART'].dt = ...` idiom), to_ical() equals that of a fresh object for the new value,
    also when the object has been encoded before; and encoding one value does not change how another is encoded"""
    from datetime import date, datetime, time, timedelta, timezone
    from icalendar.prop import vDDDTypes, vDate, vDatetime, vDuration, vUTCOffset
    vals = [date(2020, 1, 2), datetime(2020, 1, 2, 3, 4, 5), datetime(2020, 1, 2, 3, 4, 5, tzinfo=timezone.utc),
            timedelta(days=1, hours=2), timedelta(seconds=-30), time(1, 2, 3),
            (datetime(2020, 1, 1, 10), timedelta(hours=1))]
    for a in vals:
        for b in vals:
            if a is b:
                continue
            ctx.evaluated(('reassign', repr(a), repr(b)))
            try:
                o = vDDDTypes(a)
                o.to_ical()
                o.dt = b
                got, want = o.to_ical(), vDDDTypes(b).to_ical()
            except Exception as e:  # noqa: BLE001
                ctx.violation('stale-encoding', {'value': repr(a), 'then': repr(b)}, f'{type(e).__name__}: {e}')
                continue
            if got != want:
                ctx.violation('stale-encoding', {'value': repr(a), 'then': repr(b)},
                              f'vDDDTypes({a!r}) encoded, then .dt = {b!r}: to_ical() gives {got!r}, a fresh object gives {want!r}')
    for cls, attr, a, b in ((vDate, 'dt', date(2020, 1, 2), date(1999, 12, 31)),
                            (vDatetime, 'dt', datetime(2020, 1, 2, 3, 4, 5), datetime(1999, 12, 31, 23, 59, 59)),
                            (vDuration, 'td', timedelta(hours=1), timedelta(days=-2)),
                            (vUTCOffset, 'td', timedelta(hours=1), timedelta(hours=-5, minutes=-30))):
        ctx.evaluated(('reassign', cls.__name__))
        o = cls(a)
        o.to_ical()
        setattr(o, attr, b)
        if o.to_ical() != cls(b).to_ical():
            ctx.violation('stale-encoding', {'value': repr(a), 'then': repr(b)},
                          f'{cls.__name__}: after reassigning .{attr} to_ical() gives {o.to_ical()!r}, expected {cls(b).to_ical()!r}')


def oracle(ctx):
    import struct
    from harness import gen
    check_encoder_uses_current_value(ctx)
    rng = ctx.rng
    orc = Oracle(ctx)
    ev = ctx.evaluated
    deep = ctx.tier == 'thorough'

    # known-finding witnesses first
    ev(('time-utc', 12, 0, 0))
    orc.time_utc(12, 0, 0)
    orc.text('time', '120000Z')
    for x in (1e16, float('inf'), float('nan'), 1e-5, -1e22):
        ev(('float', repr(x)))
        orc.float_(x)

    # TIME and UTC-OFFSET: the whole domain
    for h in range(24):
        for m in range(60):
            for s in range(60):
                ev(('time', h, m, s), s in (0, 59) or m in (0, 59))
                orc.time_(h, m, s)
    for _ in range(200):
        h, m, s = rng.randint(0, 23), rng.randint(0, 59), rng.randint(0, 59)
        ev(('time-utc', h, m, s))
        orc.time_utc(h, m, s)
    for s in range(-86399, 86400):
        ev(('off', s), s % 60 != 0 or s <= 0)
        orc.offset(s)

    # DATE: all boundaries of a sample of years + random (all dates in the thorough tier)
    if deep:
        for y, m, d in all_dates():
            ev(('date', y, m, d), d == 1 or d >= 28)
            orc.date(y, m, d)
    else:
        years = set(range(1, 10000, 13)) | {1, 4, 100, 400, 1582, 1600, 1900, 2000, 2024, 2100, 9996, 9999}
        for y, m, d in year_boundary_dates():
            if y in years:
                ev(('date', y, m, d))
                orc.date(y, m, d)
    for _ in range(ctx.vol(5000)):
        y, m = rng.randint(1, 9999), rng.randint(1, 12)
        d = rng.randint(1, mdays(y, m))
        ev(('date', y, m, d), False)
        orc.date(y, m, d)
        h, mi, s, z = rng.randint(0, 23), rng.randint(0, 59), rng.randint(0, 59), rng.random() < 0.5
        ev(('dt', y, m, d, h, mi, s, z))
        orc.datetime_(y, m, d, h, mi, s, z)

    # DURATION, PERIOD
    durs = list(range(-200000, 200001, 1 if deep else 37))
    durs += [rng.choice([-1, 1]) * rng.randint(0, 10 ** 9) for _ in range(ctx.vol(5000))]
    durs += [86399999913600 + 86399, -86399999913600, 0]
    for s in durs:
        ev(('dur', s), s < 0 or s % 60 == 0)
        orc.duration(s)
    for _ in range(ctx.vol(3000)):
        y, m = rng.randint(1, 9998), rng.randint(1, 12)
        z = rng.random() < 0.5
        start = datetime(y, m, rng.randint(1, mdays(y, m)), rng.randint(0, 23), rng.randint(0, 59), rng.randint(0, 59), tzinfo=UTC if z else None)
        d = timedelta(seconds=rng.choice([0, 1, 59, 3600, 86400, rng.randint(0, 10 ** 7)]))
        ev(('period', str(start), str(d)))
        orc.period(start, d)
        orc.period(start, start + d)

    # INTEGER, FLOAT, GEO, BOOLEAN, BINARY, URI
    ints = list(range(-300, 301)) + [sg * (2 ** k + e) for k in range(0, 71) for e in (-1, 0, 1) for sg in (1, -1)]
    ints += [rng.randint(-2 ** 70, 2 ** 70) for _ in range(ctx.vol(3000))]
    for z in ints:
        ev(('int', z), z < 0 or z > 9)
        orc.integer(z)
    floats = [0.0, -0.0, 1.0, -1.5, 0.1, 1e15, 9999999999999998.0, 1e-4, 123456.789, 5e-324, 1.7976931348623157e308]
    for _ in range(ctx.vol(3000)):
        r = rng.random()
        if r < 0.4:
            floats.append(rng.uniform(-1e6, 1e6))
        elif r < 0.7:
            floats.append(round(rng.uniform(-1000, 1000), rng.randint(0, 6)))
        else:
            x = struct.unpack('<d', struct.pack('<Q', rng.getrandbits(64)))[0]
            floats.append(x)
    for x in floats:
        ev(('float', repr(x)), not (1e-4 <= abs(x) < 1e16))
        orc.float_(x)
    for _ in range(ctx.vol(1500)):
        lat, lon = rng.uniform(-90, 90), rng.uniform(-180, 180)
        if rng.random() < 0.3:
            lat, lon = round(lat, 6), round(lon, 6)
        ev(('geo', repr(lat), repr(lon)))
        orc.geo(lat, lon)
    for lat, lon in [(0.0, 0.0), (90.0, -180.0), (1e-5, 2.0), (37.386013, -122.082932)]:
        ev(('geo', repr(lat), repr(lon)))
        orc.geo(lat, lon)
    for b in (True, False):
        ev(('bool', b))
        orc.boolean(b)
    for _ in range(ctx.vol(2000)):
        s = gen.rand_text(rng, 60)
        if proto.has_surrogate(s):
            continue
        ev(('bin', s), bool(s))
        orc.binary(s)
        orc.uri(s)
    for s in ['', 'a', 'ab', 'abc', 'mailto:jane_doe@example.com', 'http://example.com/a?b=c#d', 'MAILTO:x@y', 'urn:uuid:0']:
        ev(('uri', s))
        orc.binary(s)
        orc.uri(s)

    # weekday, frequency, month: every RFC value
    for t in all_weekday_texts():
        ev(('wd', t))
        orc.weekday(t)
    for t in FREQS:
        ev(('freq', t))
        orc.freq(t)
    for n in range(1, 13):
        for lp in (False, True):
            ev(('month', n, lp))
            orc.month(n, lp)

    # grammar-valid texts decode to the RFC value and are classified as their type
    gens = {'date': gen_date_text, 'time': gen_time_text, 'dt': gen_dt_text, 'dur': gen_dur_text, 'off': gen_off_text,
            'int': gen_int_text, 'period': gen_period_text}
    for kind, g in gens.items():
        for _ in range(ctx.vol(2500)):
            t = g(rng)
            ev(('text', kind, t))
            orc.text(kind, t)
    for t in ['P0D', 'PT0S', '-P0D', '+P1W', 'P1DT1H1M1S', 'PT1H1M', 'PT1M1S', 'P01D', '+0000', '+2359', '-235959', '-000001', '+000000',
              '00010101', '99991231', '20000229', '000000', '235959', '235959Z', '00010101T000000', '99991231T235959Z']:
        for kind in gens:
            f = {'date': rfc_date, 'time': rfc_time, 'dt': rfc_dt, 'dur': rfc_dur, 'off': rfc_off, 'int': rfc_int, 'period': rfc_period}[kind]
            if f(t) is not None and kind != 'int':
                ev(('text', kind, t))
                orc.text(kind, t)

    # ABNF-valid but outside the datetime value domain: counted, must be refused
    for kind, t in [('date', '00000101'), ('dt', '00000101T000000'), ('time', '235960'), ('time', '235960Z'),
                    ('dt', '20161231T235960Z'), ('dt', '20161231T235960')]:
        ev(('ood', t))
        orc.out_of_domain(kind, t)
    ctx.notes.append(f'ABNF-valid texts outside the datetime value domain (year 0000, leap second 60) refused with ValueError: {orc.refused_out_of_domain}/6')


def replay(ctx, data):
    orc = Oracle(ctx)
    run_value_case(orc, data['input'])
    for v in ctx.violations:
        print('REPRODUCED', v['kind'], v['detail'], f"class={v.get('cls')}")
    if not ctx.violations:
        print('not reproduced on the current tree')
    return 1 if ctx.violations else 0
