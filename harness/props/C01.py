"""C01 - Parse, serialise, parse of any accepted calendar is stable and lossless."""
import re
from datetime import date, datetime, timedelta, timezone

from harness import calgen, gen, parsecorr
from harness.proto import has_surrogate
from harness.trees import canon_tree, tree_of

LEAN = ['ICal.Props.C01']
LEVEL = 'proof'
FINGERPRINTS = ['cal.Component.from_ical', 'cal.Component.add', 'cal.Component.property_items',
                'cal.Component.content_line', 'parser.Contentline', 'parser.Contentlines', 'prop.TypesFactory']
RULE = ('every fixture .ics of the repository, API-built random calendars (all component kinds, nesting <= 3, every '
        'value kind, parameters), line/byte mutations of both, calendars with hostile values, and RFC 5545 texts written '
        'by an independent writer from a denotation (names, parameters, typed values; random fold placement, LF or CRLF); '
        'non-trivial = accepted by from_ical and containing at least one property line')
ASSUMPTIONS = ['typed decoders enter the stack-machine model as a table computed by the real decoders (their inverse '
               'laws are C03; float/base64 are library calls)',
               'property/parameter/component names are ASCII (Python \\w and str.upper are Unicode-aware)',
               'VTIMEZONE interpretation at END:VTIMEZONE is outside the stack-machine model (C12)']

VALUE_HAZARD = re.compile(r'\\[,:;\\]|%2C|%3A|%3B|%5C')


def classify_input(data):
    """finding class of an input by its features: escape hazards in non-TEXT values / in parameter values"""
    from icalendar.cal import types_factory
    from icalendar.parser import Contentlines
    from icalendar.prop import vCategory, vText
    try:
        lines = Contentlines.from_ical(data)
    except ValueError:
        return None
    cls = None
    for ln in lines:
        if not ln:
            continue
        head, _, _ = ln.partition(':')
        raw = ln.raw_value()
        name = re.split('[;:]', ln, 1)[0]
        factory = types_factory.for_property(name)
        param_area = ln[len(name):len(ln) - len(raw) - 1] if raw or ln.endswith(':') else ln[len(name):]
        if VALUE_HAZARD.search(param_area) or param_area.endswith('\\'):
            return 'param-escape-hazard'
        if factory not in (vText, vCategory) and VALUE_HAZARD.search(raw):
            cls = 'value-unescape-nontext'
    return cls


def correspondence(ctx):
    import icalendar
    for name, data in calgen.fixtures():
        parsecorr.parse_case(ctx, data, multiple=True)
        for k in range(ctx.vol(2, 5)):
            parsecorr.parse_case(ctx, calgen.mutate(ctx.rng, data), multiple=bool(k % 2))
    for _ in range(ctx.vol(250)):
        cal = calgen.rand_calendar(ctx.rng)
        r = parsecorr.ser_case(ctx, cal)
        if r and r.startswith('ok'):
            b = cal.to_ical()
            parsecorr.parse_case(ctx, b)
            parsecorr.parse_case(ctx, calgen.mutate(ctx.rng, b), multiple=True)


def check_stable(ctx, data, label):
    """clause 1: parse, serialise, parse is stable; second serialisation is byte-identical"""
    import icalendar
    for multiple in (False, True):
        try:
            res = icalendar.Component.from_ical(data, multiple=multiple)
        except ValueError:
            continue
        comps = res if multiple else [res]
        if not comps:
            continue
        ctx.evaluated((label, multiple, hash(data)))
        for c in comps:
            try:
                b1 = c.to_ical()
            except ValueError:
                continue   # a value the parser accepted but cannot render (C04 allows ValueError)
            cls = classify_input(data)
            if cls is None and re.search(rb'\r\r|\r(?!\n)', data):
                # a bare CR inside a content line (not RFC 5545 text): CR directly before an escaped or raw
                # line break is merged with it by the encoder's CRLF -> LF normalisation, one CR per round trip
                cls = 'bare-cr-in-line'
            try:
                c2 = icalendar.Component.from_ical(b1)
            except ValueError as e:
                if parsecorr.raised_in(e, 'cache_timezone_component'):
                    # the first parse never validated this VTIMEZONE (it was closed by a different END
                    # line, or its id was cached); the serialisation closes it with END:VTIMEZONE
                    cls = 'vtimezone-validated-only-at-matching-end'
                ctx.violation('reparse-rejected', {'data': data.decode('utf-8', 'replace')},
                              f'the serialisation of an accepted calendar is rejected: {e}', cls)
                continue
            if canon_tree(tree_of(c2)) != canon_tree(tree_of(c)):
                ctx.violation('reparse-differs', {'data': data.decode('utf-8', 'replace')},
                              'tree after serialise+parse differs from the first parse', cls)
                continue
            pv1, pv2 = python_values(c), python_values(c2)
            if pv1 != pv2:
                diff = next((f'{a!r} vs {b!r}' for a, b in zip(pv1, pv2) if a != b), f'{len(pv1)} vs {len(pv2)} values')
                ctx.violation('reparse-values-differ', {'data': data.decode('utf-8', 'replace')},
                              'the typed values after serialise+parse are not the ones of the first parse: ' + diff[:300], cls)
                continue
            if c2.to_ical() != b1:
                ctx.violation('second-bytes-differ', {'data': data.decode('utf-8', 'replace')},
                              'second serialisation is not byte-identical', cls)
                continue
            # the same with the other serialisation order (sorted=False keeps insertion order at every depth)
            try:
                u1 = c.to_ical(sorted=False)
                cu = icalendar.Component.from_ical(u1)
            except ValueError:
                continue
            if canon_tree(tree_of(cu)) != canon_tree(tree_of(c)) or python_values(cu) != pv1:
                ctx.violation('reparse-differs-unsorted', {'data': data.decode('utf-8', 'replace')},
                              'tree after to_ical(sorted=False)+parse differs from the first parse', cls)
            elif cu.to_ical(sorted=False) != u1:
                ctx.violation('second-bytes-differ-unsorted', {'data': data.decode('utf-8', 'replace')},
                              'second serialisation with sorted=False is not byte-identical', cls)


def python_values(comp):
    """the Python values a tree stands for (not their text): per component the sorted (name, index, value) list,
    subcomponents in order.  Floats are compared by repr (nan), time zones by name and offset."""
    from harness.props.C02 import typed_python_value

    def norm(x):
        if isinstance(x, float):
            return ('float', repr(x))
        if isinstance(x, datetime):
            return ('dt', x.replace(tzinfo=None), None if x.tzinfo is None else (str(x.utcoffset()), x.tzname()))
        if isinstance(x, (list, tuple)):
            return tuple(norm(y) for y in x)
        if isinstance(x, dict):
            return tuple(sorted((str(k), norm(v)) for k, v in x.items()))
        if isinstance(x, (str, int, bytes, date, timedelta, type(None))):
            return (type(x).__name__ if not isinstance(x, str) else 'str', x)
        return ('obj', type(x).__name__, repr(x))
    out = []

    def visit(c, path):
        rows = []
        for k, v in c.items():
            for i, one in enumerate(v if isinstance(v, list) else [v]):
                try:
                    rows.append((str(k), i, norm(typed_python_value(one))))
                except Exception as e:  # noqa: BLE001
                    rows.append((str(k), i, ('unreadable', type(e).__name__)))
        out.append((path, c.name, sorted(rows, key=repr)))
        for j, sub in enumerate(c.subcomponents):
            visit(sub, path + (j,))
    visit(comp, ())
    return out


# ---- an independent RFC 5545 writer (does not use the library) --------------------------------------

def rfc_text(s):
    return s.replace('\\', '\\\\').replace(';', '\\;').replace(',', '\\,').replace('\n', '\\n')


def rfc_param(v):
    return '"' + v + '"' if re.search('[:;,]', v) else v


def rfc_dt(d):
    if isinstance(d, datetime):
        s = d.strftime('%Y%m%dT%H%M%S')
        return s + 'Z' if d.tzinfo is not None else s
    return d.strftime('%Y%m%d')


def rfc_dur(td):
    secs = int(td.total_seconds())
    sign = '-' if secs < 0 else ''
    secs = abs(secs)
    d, r = divmod(secs, 86400)
    h, r = divmod(r, 3600)
    m, s = divmod(r, 60)
    out = sign + 'P'
    if d:
        out += f'{d}D'
    if h or m or s or not d:
        out += 'T' + (f'{h}H' if h else '') + (f'{m}M' if m or (h and s) else '') + (f'{s}S' if s or not (h or m) else '')
    return out


def rand_denotation(rng):
    """a VCALENDAR with one VEVENT as (name, params, kind, python value) tuples"""
    props = []
    used = set()

    def params():
        d = {}
        if rng.random() < 0.4:
            d['LANGUAGE'] = rng.choice(['en', 'de-CH'])
        if rng.random() < 0.3:
            d['X-P'] = rng.choice(['a b', 'x:y', 'p,q', 'semi;colon', 'plain', "it's"])
        if rng.random() < 0.15:
            d['X-L'] = ['one', 'two,2']
        return d
    for _ in range(rng.randint(1, 7)):
        r = rng.choice(['SUMMARY', 'DESCRIPTION', 'LOCATION', 'COMMENT', 'X-NOTE', 'PRIORITY', 'SEQUENCE', 'DTSTART',
                        'DTEND', 'DURATION', 'URL', 'CATEGORIES', 'DTSTAMP', 'RDATE', 'UID', 'GEO'])
        if r in used and r not in ('COMMENT', 'X-NOTE'):
            continue
        used.add(r)
        if r in ('SUMMARY', 'DESCRIPTION', 'LOCATION', 'COMMENT', 'X-NOTE', 'UID'):
            s = gen.rand_text(rng, 60, wide=0.1).replace('\r', '').replace('\\N', 'N')
            s = ''.join(c for c in s if (ord(c) >= 32 or c == '\n') and ord(c) != 127 and not (0xD800 <= ord(c) <= 0xDFFF))
            props.append((r, params(), 'text', s))
        elif r in ('PRIORITY', 'SEQUENCE'):
            props.append((r, {}, 'int', rng.randint(-10**6, 10**9)))
        elif r in ('DTSTART', 'DTEND'):
            k = rng.choice(['date', 'naive', 'utc'])
            if 'DTEND' in used and 'DURATION' in used:
                continue
            if k == 'date':
                props.append((r, {'VALUE': 'DATE'}, 'date', date(rng.randint(1900, 2100), rng.randint(1, 12), rng.randint(1, 28))))
            else:
                d = datetime(rng.randint(1900, 2100), rng.randint(1, 12), rng.randint(1, 28), rng.randint(0, 23), rng.randint(0, 59), rng.randint(0, 59))
                props.append((r, {}, 'datetime', d.replace(tzinfo=timezone.utc) if k == 'utc' else d))
        elif r == 'DTSTAMP':
            d = datetime(rng.randint(1971, 2036), 5, 5, 12, 0, 0, tzinfo=timezone.utc)
            props.append((r, {}, 'datetime', d))
        elif r == 'DURATION':
            props.append((r, {}, 'duration', timedelta(seconds=rng.choice([0, 59, 3600, 86400, 90061, -7200, rng.randint(-10**6, 10**6)]))))
        elif r == 'URL':
            props.append((r, {}, 'uri', 'https://example.com/' + ''.join(rng.choice('abc/?=&~.:;,') for _ in range(rng.randint(0, 20)))))
        elif r == 'CATEGORIES':
            items = []
            for _ in range(rng.randint(1, 3)):
                s = gen.rand_text(rng, 10, wide=0.1).replace('\r', '').replace('\\N', 'N')
                items.append(''.join(c for c in s if (ord(c) >= 32 or c == '\n') and ord(c) != 127 and not (0xD800 <= ord(c) <= 0xDFFF)))
            props.append((r, {}, 'categories', items))
        elif r == 'GEO':
            # RFC 5545 3.8.1.6: two FLOATs; any number of decimals may be given (receivers MAY truncate, the parse
            # result still is the number the text denotes)
            def fl(lim):
                txt = '%s%d.%s' % (rng.choice(['', '-', '+']), rng.randint(0, lim), ''.join(rng.choice('0123456789') for _ in range(rng.randint(1, 12))))
                return txt
            a, b = fl(89), fl(179)
            props.append((r, {}, 'geo', (a, b)))
        elif r == 'RDATE':
            ds = [date(2020, rng.randint(1, 12), rng.randint(1, 28)) for _ in range(rng.randint(1, 3))]
            props.append((r, {'VALUE': 'DATE'}, 'datelist', ds))
    if rng.random() < 0.2:
        # a repeated property whose first value is empty (an empty TEXT is a value like any other)
        nm = rng.choice(['COMMENT', 'X-NOTE'])
        props = [p for p in props if p[0] != nm]
        props.insert(rng.randint(0, len(props)), (nm, {}, 'text', ''))
        props.append((nm, {}, 'text', rng.choice(['second', '', '0'])))
    return props


def write_rfc(rng, props):
    def value_text(kind, v):
        if kind == 'text':
            return rfc_text(v)
        if kind == 'int':
            return str(v)
        if kind in ('date', 'datetime'):
            return rfc_dt(v)
        if kind == 'duration':
            return rfc_dur(v)
        if kind == 'uri':
            return v
        if kind == 'categories':
            return ','.join(rfc_text(x) for x in v)
        if kind == 'datelist':
            return ','.join(rfc_dt(x) for x in v)
        if kind == 'geo':
            return v[0] + ';' + v[1]
    lines = ['BEGIN:VCALENDAR', 'VERSION:2.0', 'PRODID:-//writer//EN', 'BEGIN:VEVENT']
    for name, params, kind, v in props:
        ptxt = ''.join(';' + k + '=' + (','.join(rfc_param(x) for x in pv) if isinstance(pv, list) else rfc_param(pv))
                       for k, pv in params.items())
        lines.append(name + ptxt + ':' + value_text(kind, v))
    lines += ['END:VEVENT', 'END:VCALENDAR']
    nl = rng.choice(['\r\n', '\n'])
    out = []
    for ln in lines:
        # fold at random character positions (never inside the line break, never before the first character)
        pieces = []
        while len(ln.encode('utf-8')) > 60 or (len(ln) > 3 and rng.random() < 0.1):
            cut = rng.randint(1, min(len(ln) - 1, 40)) if len(ln) > 1 else 1
            pieces.append(ln[:cut])
            ln = ln[cut:]
            if len(ln) <= 1:
                break
        pieces.append(ln)
        out.append((nl + rng.choice([' ', '\t'])).join(pieces))
    return (nl.join(out) + nl).encode('utf-8')


def check_first_parse(ctx, rng):
    """clause 2: for well-formed RFC 5545 text the first parse recovers exactly what the text denotes"""
    import icalendar
    props = rand_denotation(rng)
    data = write_rfc(rng, props)
    ctx.evaluated(('rfc', data))
    try:
        cal = icalendar.Calendar.from_ical(data)
    except ValueError as e:
        ctx.violation('wellformed-rejected', {'data': data.decode('utf-8')}, f'well-formed text rejected: {e}')
        return
    ev = cal.subcomponents[0] if cal.subcomponents else None
    if ev is None or ev.name != 'VEVENT' or ev.errors:
        ctx.violation('wellformed-structure', {'data': data.decode('utf-8')}, f'event missing or errors recorded: {getattr(ev, "errors", None)}')
        return
    want_names = [p[0] for p in props]
    got_names = []
    for k, v in ev.items():
        got_names += [k] * (len(v) if isinstance(v, list) else 1)
    if sorted(got_names) != sorted(want_names):
        ctx.violation('wellformed-names', {'data': data.decode('utf-8')}, f'names {got_names} vs {want_names}')
        return
    seen = {}
    for name, params, kind, v in props:
        vals = ev[name] if isinstance(ev[name], list) else [ev[name]]
        i = seen.get(name, 0)
        seen[name] = i + 1
        val = vals[i]
        gp = {k: (list(x) if isinstance(x, (list, tuple)) else str(x)) for k, x in val.params.items()}
        if gp != params:
            ctx.violation('wellformed-params', {'data': data.decode('utf-8')}, f'{name}: params {gp} vs {params}')
        if kind == 'text':
            got = str(val)
        elif kind == 'int':
            got = int(val)
        elif kind in ('date', 'datetime', 'duration'):
            got = val.dt
            if kind == 'datetime' and v.tzinfo is not None:
                ok = got.tzinfo is not None and got.utcoffset() == timedelta(0) and got.replace(tzinfo=None) == v.replace(tzinfo=None)
                if not ok:
                    ctx.violation('wellformed-value', {'data': data.decode('utf-8')}, f'{name}: {got!r} vs {v!r}')
                continue
        elif kind == 'uri':
            got = str(val)
        elif kind == 'categories':
            got = [str(c) for c in val.cats]
        elif kind == 'datelist':
            got = [d.dt for d in val.dts]
        elif kind == 'geo':
            got = (val.latitude, val.longitude)
            v = (float(v[0]), float(v[1]))
        if got != v:
            cls = 'value-unescape-nontext' if kind == 'uri' and VALUE_HAZARD.search(v) else None
            ctx.violation('wellformed-value', {'data': data.decode('utf-8')}, f'{name}: {got!r} vs {v!r}', cls)


HOSTILE = [b'BEGIN:VCALENDAR\r\nBEGIN:VEVENT\r\nRRULE:freq=daily;count=10;byday=mo;Until=20241224T000000Z\r\nEND:VEVENT\r\nEND:VCALENDAR\r\n',
           b'BEGIN:VCALENDAR\r\nBEGIN:VEVENT\r\nrrule:Freq=Weekly;ByMonth=3,4;wkst=su;count=4;interval=2\r\nEND:VEVENT\r\nBEGIN:VTODO\r\nRRULE:freq=monthly;bymonthday=-1,15;bysetpos=1\r\nEND:VTODO\r\nEND:VCALENDAR\r\n',
           b'BEGIN:VCALENDAR\r\nBEGIN:VEVENT\r\nCOMMENT:\r\nCOMMENT:second\r\nCOMMENT:\r\nPERCENT-COMPLETE:0\r\nSEQUENCE:0\r\nSEQUENCE:5\r\nX-N:\r\nX-N:0\r\nBEGIN:VALARM\r\nTRIGGER:PT0S\r\nREPEAT:0\r\nREPEAT:2\r\nBEGIN:X-DEEP\r\nX-A:1\r\nBEGIN:X-DEEPER\r\nX-B:2\r\nEND:X-DEEPER\r\nEND:X-DEEP\r\nEND:VALARM\r\nEND:VEVENT\r\nEND:VCALENDAR\r\n',
           b'BEGIN:VCALENDAR\r\nBEGIN:VEVENT\r\nGEO:48.85837009999;-122.08293249\r\nEND:VEVENT\r\nBEGIN:VTODO\r\nGEO:-0.00000049;179.9999996\r\nEND:VTODO\r\nEND:VCALENDAR\r\n',
           b'BEGIN:VCALENDAR\r\nBEGIN:VEVENT\r\nDTSTART:08000102T030405Z\r\nDTEND:00010101T000000\r\nRDATE;VALUE=DATE:09991231,00010101\r\nDUE;VALUE=DATE:00990101\r\nEND:VEVENT\r\nBEGIN:X-OLD\r\nDTSTART:00010101T000000\r\nEND:X-OLD\r\nEND:VCALENDAR\r\n',
           b'BEGIN:VCALENDAR\r\nBEGIN:VEVENT\r\nURL:a\\\\,b\r\nEND:VEVENT\r\nEND:VCALENDAR\r\n',
           b'BEGIN:VCALENDAR\r\nBEGIN:VEVENT\r\nSUMMARY:a\\\\,b\\\\n\\n%2C\r\nCATEGORIES:a\\,b,c\\\\,d\r\nEND:VEVENT\r\nEND:VCALENDAR\r\n',
           b'BEGIN:VCALENDAR\r\nBEGIN:VEVENT\r\nATTENDEE;CN="a\\,b":mailto:x\r\nEND:VEVENT\r\nEND:VCALENDAR\r\n',
           b'BEGIN:VCALENDAR\r\nBEGIN:VEVENT\r\nX-A:50%2C\r\nURL:50%2C\r\nEND:VEVENT\r\nEND:VCALENDAR\r\n',
           b'BEGIN:VCALENDAR\r\nBEGIN:X-UNKNOWN\r\nFOO;BAR=1:baz\r\nBEGIN:X-INNER\r\nEND:X-INNER\r\nEND:X-UNKNOWN\r\nEND:VCALENDAR\r\n']


def check_parse_is_fresh(ctx, data, label):
    """parsing returns a tree of its own: editing the parsed tree must not change what a later parse of the
    same text returns (the property compares trees of separate parses)"""
    import icalendar
    try:
        c1 = icalendar.Component.from_ical(data, multiple=True)
    except ValueError:
        return
    ctx.evaluated(('fresh', label))
    snap = [canon_tree(tree_of(c)) for c in c1]
    for c in c1:
        for w in c.walk():
            for k, v in list(w.items()):
                for x in (v if isinstance(v, list) else [v]):
                    if hasattr(x, 'params'):
                        try:
                            x.params['X-EDITED'] = 'yes'
                        except TypeError:
                            pass
            w.add('x-edited', 'yes')
    try:
        c2 = icalendar.Component.from_ical(data, multiple=True)
    except ValueError as e:
        ctx.violation('parse-not-fresh', {'data': data.decode('utf-8', 'replace')}, f'second parse of the same text failed after the first tree was edited: {e}')
        return
    if [canon_tree(tree_of(c)) for c in c2] != snap:
        ctx.violation('parse-not-fresh', {'data': data.decode('utf-8', 'replace')},
                      'a second parse of the same text differs from the first after the first tree was edited (state shared between parses)')


OWN_ZONE = (b'BEGIN:VCALENDAR\r\nVERSION:2.0\r\nPRODID:-//verif//own zone//EN\r\nBEGIN:VTIMEZONE\r\nTZID:%s\r\nX-LIC-LOCATION:Nowhere\r\n'
            b'BEGIN:STANDARD\r\nDTSTART:19701025T030000\r\nTZOFFSETFROM:+0545\r\nTZOFFSETTO:+0445\r\nTZNAME:VST\r\nX-OBSERVANCE-NOTE:kept\r\n'
            b'RRULE:FREQ=YEARLY;BYMONTH=10;BYDAY=-1SU\r\nEND:STANDARD\r\nBEGIN:DAYLIGHT\r\nDTSTART:19700329T020000\r\n'
            b'TZOFFSETFROM:+0445\r\nTZOFFSETTO:+0545\r\nTZNAME:VDT\r\nX-A:1\r\nX-B;X-P=q:2\r\nRRULE:FREQ=YEARLY;BYMONTH=3;BYDAY=-1SU\r\nEND:DAYLIGHT\r\n'
            b'END:VTIMEZONE\r\nBEGIN:VEVENT\r\nUID:o1\r\nDTSTART;TZID=%s:20240615T120000\r\nEND:VEVENT\r\nEND:VCALENDAR\r\n')

ESCAPED_PARAM_TEXT = [
    # (line inside a VEVENT, property name, the TEXT value it denotes): a backslash sequence in the PARAMETER part
    # must not move the place where the value starts
    ('SUMMARY;X-AUTHOR=Doe\\, John:Quarterly review', 'SUMMARY', 'Quarterly review'),
    ('DESCRIPTION;ALTREP="file:\\\\server\\share\\x.html":Hello', 'DESCRIPTION', 'Hello'),
    ('X-NOTE;X-P=a\\;b;X-Q=c\\:d:value\\, with comma', 'X-NOTE', 'value, with comma'),
    ('LOCATION;X-PATH=c:\\\\tmp:Room 1', 'LOCATION', None),
    ('COMMENT;X-P=\\\\\\\\:four', 'COMMENT', 'four'),
]


def check_denotation_corpus(ctx):
    import icalendar
    for line, name, want in ESCAPED_PARAM_TEXT:
        data = ('BEGIN:VEVENT\r\nUID:1\r\n' + line + '\r\nEND:VEVENT\r\n').encode()
        ctx.evaluated(('escaped-param', line))
        try:
            ev = icalendar.Event.from_ical(data)
        except ValueError:
            continue
        if want is not None and name in ev and str(ev[name]) != want:
            ctx.violation('wellformed-value', {'data': data.decode()}, f'{name} decoded to {str(ev[name])!r}, the text denotes {want!r}')
    # a calendar that defines its own zone, with X- properties inside the observances: every provider, starting from an
    # empty zone cache, twice in a row - the two parses give the same tree and it has every line of the text
    for prov in ('zoneinfo', 'pytz'):
        for tzid in (b'Verif/Own-A', b'/verif.example/Own/B'):
            data = OWN_ZONE % (tzid, tzid)
            getattr(icalendar, 'use_' + prov)()
            try:
                ctx.evaluated(('own-zone', prov, tzid))
                t1 = icalendar.Calendar.from_ical(data)
                t2 = icalendar.Calendar.from_ical(data)
                n_lines = len([ln for ln in data.split(b'\r\n') if ln and not ln.startswith((b'BEGIN', b'END'))])
                n1 = sum(len(v) if isinstance(v, list) else 1 for c in t1.walk() for v in c.values())
                if canon_tree(tree_of(t1)) != canon_tree(tree_of(t2)):
                    ctx.violation('first-parse-differs-from-second', {'data': data.decode(), 'provider': prov},
                                  'the same text parsed twice in a row gives two different trees')
                elif n1 != n_lines:
                    ctx.violation('wellformed-names', {'data': data.decode(), 'provider': prov},
                                  f'the text has {n_lines} property lines, the parsed tree holds {n1} properties')
            except ValueError as e:
                ctx.violation('wellformed-rejected', {'data': data.decode(), 'provider': prov}, f'well-formed text rejected: {e}')
            finally:
                icalendar.use_zoneinfo()


def oracle(ctx):
    check_denotation_corpus(ctx)
    for name, data in calgen.fixtures()[:: 3 if ctx.tier == 'quick' and not ctx.escalate else 1]:
        check_parse_is_fresh(ctx, data, name)
    for data in HOSTILE:
        check_stable(ctx, data, 'hostile')
    for name, data in calgen.fixtures():
        check_stable(ctx, data, name)
        for _ in range(ctx.vol(1, 8)):
            check_stable(ctx, calgen.mutate(ctx.rng, data), name + '+mut')
    for _ in range(ctx.vol(200)):
        cal = calgen.rand_calendar(ctx.rng)
        try:
            b = cal.to_ical()
        except (AssertionError, ValueError, UnicodeEncodeError):
            continue
        check_stable(ctx, b, 'rand')
        check_stable(ctx, calgen.mutate(ctx.rng, b), 'rand+mut')
    for _ in range(ctx.vol(300)):
        check_first_parse(ctx, ctx.rng)


def replay(ctx, data):
    check_stable(ctx, data['input']['data'].encode('utf-8'), 'replay')
    for v in ctx.violations:
        print('REPRODUCED', v['kind'], v['detail'][:300], 'class=', v['cls'])
    if not ctx.violations:
        print('not reproduced on the current tree')
    return 1 if ctx.violations else 0
