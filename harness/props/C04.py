"""C04 - Parsing is total: a result or ValueError; VEVENT isolates bad property lines."""
import time

from harness import calgen, parsecorr
from harness.trees import canon_tree, tree_of

LEAN = ['ICal.Props.C04']
LEVEL = 'proof'
FINGERPRINTS = ['cal.Component.from_ical', 'parser.Contentline.parts', 'parser.Contentlines.from_ical',
                'timezone.tzp.TZP', 'timezone.zoneinfo.ZONEINFO.timezone', 'prop.']
RULE = ('random bytes, iCalendar token soup, line/byte mutations of every fixture and of generated calendars, '
        'mismatched BEGIN/END, nesting up to depth 64, hostile TZIDs, malformed VTIMEZONEs, truncation; each parsed '
        'single and multiple, then serialised and walked, under both providers; bad property lines of many kinds '
        'inserted at every position of an event and of strict components; non-trivial = the input contains at least '
        'one BEGIN line')
ASSUMPTIONS = ['exception classes raised inside CPython / library calls, recursion limits and CPU time are runtime '
               'facts a Lean model cannot exhibit: they are observed by the oracle on the implementation',
               'per-case CPU budget 5 s']

SOUP = [b'BEGIN:VCALENDAR', b'END:VCALENDAR', b'BEGIN:VEVENT', b'END:VEVENT', b'BEGIN:VTODO', b'END:VTODO',
        b'BEGIN:VTIMEZONE', b'END:VTIMEZONE', b'BEGIN:STANDARD', b'END:STANDARD', b'BEGIN:DAYLIGHT', b'END:DAYLIGHT',
        b'BEGIN:VALARM', b'END:VALARM', b'BEGIN:VFREEBUSY', b'END:VFREEBUSY', b'BEGIN:X', b'END:Y', b'END:',
        b'TZID:Europe/Berlin', b'TZID:/x', b'TZID:', b'TZID;X=1:a', b'DTSTART:20200101T000000',
        b'DTSTART;TZID=Europe:20200101T000000', b'DTSTART;TZID=' + b'a' * 300 + b':20200101T000000',
        b'DTSTART;TZID=../../etc/passwd:20200101T000000', b'DTSTART;TZID=Europe/Berlin,UTC:20200101T000000',
        b'DTSTART;VALUE=DATE:20200101', b'DTSTART:2020', b'DTSTART:99999999T999999', b'DTEND:20200101T000000Z',
        b'DURATION:PT1H', b'DURATION:20200101', b'DURATION:P', b'DURATION:P9999999999D', b'TRIGGER:-P99999999999W',
        b'RDATE;VALUE=PERIOD:99990101T000000Z/P9999999D', b'FREEBUSY:99991231T000000Z/P2D', b'DTSTART:00000101T000000',
        b'PRIORITY:' + b'9' * 5000, b'RRULE:FREQ=DAILY;BYMONTH=', b'RRULE:FREQ=DAILY;COUNT=' + b'9' * 400, b'TZOFFSETFROM:+9999', b'RRULE:FREQ=DAILY;UNTIL=100000',
        b'RRULE:FREQ=YEARLY;BYMONTH=3;BYDAY=-1SU', b'RRULE:FREQ=XYZ', b'RRULE:;;=;', b'RRULE:FREQ=DAILY;UNTIL=20200101/20200102',
        b'RDATE:20200101T000000,20200102', b'RDATE;VALUE=PERIOD:20200101T000000Z/PT1H', b'RDATE;VALUE=PERIOD:20200101T000000Z/100000',
        b'EXDATE;TZID=X:20200101T000000', b'FREEBUSY:20200101T000000/20200101T010000Z', b'FREEBUSY:20200101/20200102',
        b'FREEBUSY:a/b,c', b'FREEBUSY:20200101T000000Z/PT1H,c', b'FREEBUSY:20200101T000000Z/PT1H,20200102T000000Z/20200101T000000Z', b'TZOFFSETFROM:+0100', b'TZOFFSETTO:+0200', b'TZOFFSETFROM:+2500', b'TZOFFSETTO:-000115',
        b'TZNAME:CET', b'TRIGGER:-PT15M', b'TRIGGER;VALUE=DATE-TIME:20200101T000000Z', b'TRIGGER;RELATED=END:P1D',
        b'REPEAT:x', b'REPEAT:2', b'GEO:1;2', b'GEO:1', b'GEO:a;b', b'PRIORITY:1.5', b'SEQUENCE:', b'X-COMMENT:x',
        b'SUMMARY:x', b'SUMMARY;LANGUAGE=:x', b'ATTENDEE;CN="a:mailto:x', b';', b':', b'A', b'A;B', b'A;B=:', b'=:',
        b'ATTACH;ENCODING=BASE64;VALUE=BINARY:!!!', b'UID:1', b'DTSTAMP:20200101T000000Z', b'ACKNOWLEDGED:x',
        b'X-MOZ-LASTACK:20200101T000000Z', b'CATEGORIES:a,b\\,c', b'\xff\xfe\x00', b'\xef\xbb\xbfBEGIN:VCALENDAR',
        b' continuation', b'\tcontinuation', b'']


def soup_input(rng):
    n = rng.randint(1, 30)
    nl = rng.choice([b'\r\n', b'\n'])
    return nl.join(rng.choice(SOUP) for _ in range(n)) + rng.choice([b'', nl])


def nested(depth, close=True, kind=b'VEVENT'):
    out = [b'BEGIN:VCALENDAR'] + [b'BEGIN:' + kind] * depth + [b'UID:1']
    if close:
        out += [b'END:' + kind] * depth + [b'END:VCALENDAR']
    return b'\r\n'.join(out) + b'\r\n'


def boundary_lines():
    """values at and just beyond the limits of the Python types the decoders build (timedelta +-999999999 days,
    datetime years 1..9999, time zone arithmetic at both ends), with every sign and unit"""
    out = []
    for sign in (b'', b'-', b'+'):
        for body in (b'P999999999D', b'P999999999DT1S', b'P999999999DT23H59M59S', b'P999999999DT24H', b'P1000000000D',
                     b'P142857142W', b'P142857142W6D', b'P142857142W6DT1S', b'P142857143W', b'PT86399999913600S',
                     b'PT86399999999999S', b'PT86400000000000S', b'PT1440000000000M', b'PT24000000000H', b'P0DT0H0M0S'):
            out.append(sign + body)
    lines = []
    for d in out:
        lines += [b'DURATION:' + d, b'TRIGGER:' + d, b'REFRESH-INTERVAL;VALUE=DURATION:' + d,
                  b'FREEBUSY:20200101T000000Z/' + d, b'FREEBUSY:00010101T000000Z/' + d, b'FREEBUSY:99991231T235959Z/' + d,
                  b'RDATE;VALUE=PERIOD:00010101T000000/' + d, b'RDATE;VALUE=PERIOD:99991231T235959/' + d]
    for t in (b'00010101T000000', b'00010101T000001', b'99991231T235959', b'99991231T000000', b'00010102T000000', b'99991230T235959'):
        for z in (b'Europe/Berlin', b'America/New_York', b'Pacific/Kiritimati', b'Pacific/Pago_Pago', b'UTC', b'Asia/Kolkata'):
            for name in (b'DTSTART', b'DTEND', b'DUE', b'RECURRENCE-ID', b'RDATE', b'EXDATE'):
                lines.append(name + b';TZID=' + z + b':' + t)
        lines += [b'DTSTART:' + t + b'Z', b'DTSTAMP:' + t + b'Z', b'CREATED:' + t, b'RRULE:FREQ=DAILY;UNTIL=' + t + b'Z',
                  b'TRIGGER;VALUE=DATE-TIME:' + t + b'Z', b'FREEBUSY:' + t + b'Z/' + t + b'Z', b'RDATE;VALUE=DATE:' + t[:8]]
    for o in (b'+2359', b'-2359', b'+235959', b'-235959', b'+2400', b'-2400', b'+0000', b'-0000', b'+9959'):
        lines += [b'TZOFFSETFROM:' + o, b'TZOFFSETTO:' + o]
    return lines


def boundary_inputs():
    for ln in boundary_lines():
        for kind in (b'VTODO', b'VEVENT', b'VFREEBUSY', b'VALARM', b'STANDARD'):
            yield b'BEGIN:VCALENDAR\r\nBEGIN:' + kind + b'\r\n' + ln + b'\r\nEND:' + kind + b'\r\nEND:VCALENDAR\r\n'


def inputs(ctx):
    rng = ctx.rng
    bl = list(boundary_inputs())
    for data in (bl if (ctx.tier == 'thorough' or ctx.escalate) else rng.sample(bl, 700)):
        yield data
    # the witnesses of repaired defects, always
    for ln in (b'DURATION:-P999999999DT1S', b'TRIGGER:-P999999999DT0H0M1S', b'FREEBUSY:20200101T000000Z/-P999999999DT1S'):
        yield b'BEGIN:VCALENDAR\r\nBEGIN:VTODO\r\n' + ln + b'\r\nEND:VTODO\r\nEND:VCALENDAR\r\n'
    for d in (1, 2, 8, 33, 64):
        yield nested(d)
        yield nested(d, close=False)
        yield nested(d, kind=b'X-FOO')
    for _ in range(ctx.vol(500)):
        yield soup_input(rng)
    for _ in range(ctx.vol(150)):
        yield bytes(rng.randrange(256) for _ in range(rng.randint(0, 120)))
    for name, data in calgen.fixtures():
        for _ in range(ctx.vol(3, 6)):
            m = data
            for _ in range(rng.randint(1, 3)):
                m = calgen.mutate(rng, m)
            yield m
        yield data[:rng.randint(0, len(data))]
    for _ in range(ctx.vol(150)):
        try:
            b = calgen.rand_calendar(rng).to_ical()
        except (AssertionError, ValueError, UnicodeEncodeError):
            continue
        yield calgen.mutate(rng, b)


def correspondence(ctx):
    for data in inputs(ctx):
        parsecorr.parse_case(ctx, data, multiple=bool(ctx.rng.getrandbits(1)), nontrivial=b'BEGIN' in data.upper())


def frame_of(exc):
    tb = exc.__traceback__
    last = None
    while tb is not None:
        fn = tb.tb_frame.f_code.co_filename
        if '/icalendar/' in fn:
            last = f'{fn.split("/icalendar/")[-1]}:{tb.tb_frame.f_code.co_name}'
        tb = tb.tb_next
    return last


def check_total(ctx, data, provider):
    import icalendar
    for multiple in (False, True):
        t0 = time.process_time()
        try:
            res = icalendar.Calendar.from_ical(data, multiple=multiple)
        except ValueError:
            res = None
        except RecursionError as e:
            ctx.violation('escape', {'data': data.decode('latin-1'), 'provider': provider}, f'RecursionError in from_ical at {frame_of(e)}', None)
            res = None
        except Exception as e:  # noqa: BLE001
            ctx.violation('escape', {'data': data.decode('latin-1'), 'provider': provider, 'multiple': multiple},
                          f'{type(e).__name__} out of from_ical at {frame_of(e)}: {e}', None)
            res = None
        comps = [] if res is None else (res if multiple else [res])
        for c in comps:
            try:
                c.to_ical()
            except ValueError:
                pass
            except Exception as e:  # noqa: BLE001
                ctx.violation('escape', {'data': data.decode('latin-1'), 'provider': provider, 'multiple': multiple},
                              f'{type(e).__name__} out of to_ical at {frame_of(e)}: {e}', None)
            try:
                for w in c.walk():
                    w.name
                c.walk('VEVENT')
            except ValueError:
                pass
            except Exception as e:  # noqa: BLE001
                ctx.violation('escape', {'data': data.decode('latin-1'), 'provider': provider, 'multiple': multiple},
                              f'{type(e).__name__} out of walk at {frame_of(e)}: {e}', None)
        dt = time.process_time() - t0
        if dt > 5.0:
            ctx.violation('cpu', {'data': data.decode('latin-1'), 'provider': provider}, f'{dt:.1f} s CPU for {len(data)} bytes')


BAD_LINES = [b'DTSTART:2020', b'DTSTART;TZID=Europe/Berlin:x', b'DURATION:xyz', b'RRULE:FREQ=XYZ', b'GEO:1', b'PRIORITY:high',
             b'A;B', b'SUMMARY;LANGUAGE=\x01:x', b'TRIGGER:never', b'RDATE:20200101T000000,nonsense', b'DTEND;VALUE=DATE:202001',
             b'X-A;=:', b'TZOFFSETFROM:+2500', b'SEQUENCE:1.5', b';', b'FREEBUSY:x/y',
             b'FREEBUSY:20200101T000000Z/PT1H,not-a-period', b'FREEBUSY:20200101T000000Z/PT1H,20200102T000000Z/20200101T000000Z',
             b'RDATE:20200101T000000,20200102T000000,x', b'EXDATE;TZID=Europe/Berlin:20200101T000000,bad']


def really_bad(line):
    """a property line that cannot be parsed: parts() or the typed decoder raises ValueError"""
    from icalendar.cal import types_factory
    from icalendar.parser import Contentline
    try:
        cl = Contentline(line.decode('utf-8', 'replace'))
        name, params, vals = cl.parts()
    except ValueError:
        return True
    if name.upper() in ('BEGIN', 'END'):
        return False
    factory = types_factory.for_property(name)
    try:
        if name.upper() == 'FREEBUSY':
            [factory(factory.from_ical(v)) for v in vals.split(',')]
        elif 'TZID' in params and name.upper() in ('DTSTART', 'DTEND', 'RECURRENCE-ID', 'DUE', 'RDATE', 'EXDATE'):
            factory(factory.from_ical(vals, params['TZID']))
        else:
            factory(factory.from_ical(cl.raw_value() if factory.__name__ in ('vText', 'vCategory') else vals))
    except ValueError:
        return True
    return False


def check_isolation(ctx, rng):
    import icalendar
    base = [b'BEGIN:VCALENDAR', b'VERSION:2.0', b'BEGIN:VEVENT', b'UID:u1', b'SUMMARY:s', b'DTSTART:20200101T100000',
            b'BEGIN:VALARM', b'TRIGGER:-PT5M', b'END:VALARM', b'ATTENDEE:mailto:a', b'ATTENDEE:mailto:b', b'END:VEVENT',
            b'BEGIN:VTODO', b'UID:u2', b'END:VTODO', b'END:VCALENDAR']
    bad = rng.choice(BAD_LINES)
    if not really_bad(bad):
        ctx.count('isolation:line-not-bad')
        return
    # lenient positions: directly inside the VEVENT (indexes 3..6 and 9..11)
    pos = rng.choice([3, 4, 5, 6, 9, 10, 11])
    with_bad = b'\r\n'.join(base[:pos] + [bad] + base[pos:]) + b'\r\n'
    ref = icalendar.Calendar.from_ical(b'\r\n'.join(base) + b'\r\n')
    ctx.evaluated(('iso', bad, pos))
    try:
        got = icalendar.Calendar.from_ical(with_bad)
    except ValueError as e:
        ctx.violation('isolation', {'data': with_bad.decode('latin-1')}, f'bad line inside VEVENT made the parse fail: {e}')
        return
    if canon_tree(tree_of(got)) != canon_tree(tree_of(ref)):
        ctx.violation('isolation', {'data': with_bad.decode('latin-1')}, 'bad line inside VEVENT changed other properties or subcomponents')
    ev = got.walk('VEVENT')[0]
    if len(ev.errors) != 1:
        ctx.violation('isolation', {'data': with_bad.decode('latin-1')}, f'expected one recorded error, found {ev.errors}')
    # strict positions: in VCALENDAR, VALARM, VTODO
    spos = rng.choice([1, 2, 7, 8, 13, 14, 15])
    strict = b'\r\n'.join(base[:spos] + [bad] + base[spos:]) + b'\r\n'
    ctx.evaluated(('strict', bad, spos))
    try:
        icalendar.Calendar.from_ical(strict)
        ctx.violation('strictness', {'data': strict.decode('latin-1')}, 'bad line outside a lenient component was accepted')
    except ValueError:
        pass


def oracle(ctx):
    import icalendar
    for provider in ('zoneinfo', 'pytz'):
        getattr(icalendar, 'use_' + provider)()
        try:
            for data in inputs(ctx):
                ctx.evaluated(('t', provider, data), b'BEGIN' in data.upper())
                check_total(ctx, data, provider)
            for _ in range(ctx.vol(100)):
                check_isolation(ctx, ctx.rng)
        finally:
            icalendar.use_zoneinfo()


def replay(ctx, data):
    import icalendar
    inp = data['input']
    getattr(icalendar, 'use_' + inp.get('provider', 'zoneinfo'))()
    check_total(ctx, inp['data'].encode('latin-1'), inp.get('provider', 'zoneinfo'))
    icalendar.use_zoneinfo()
    for v in ctx.violations:
        print('REPRODUCED', v['kind'], v['detail'][:300])
    if not ctx.violations:
        print('not reproduced on the current tree')
    return 1 if ctx.violations else 0
