"""C02 - A calendar built through the API survives serialise and parse: nesting, names, order, parameters,
typed values; RFC 5545 type table; VALUE / TZID parameters."""
import json
import os
import re
from datetime import date, datetime, time, timedelta, timezone

from harness import gen
from harness.proto import VERIF, enc, dec, decl, has_surrogate
from harness.trees import enc_pval, enc_tree, enc_val, tree_of, val_of

LEAN = ['ICal.Props.C02']
LEVEL = 'proof'
FINGERPRINTS = ['cal.Component._encode', 'cal.Component.add', 'cal.create_single_property', 'cal.create_utc_property',
                'cal._set_duration', 'prop.vDDDTypes.__init__', 'prop.vDDDTypes.to_ical', 'prop.vDDDLists.__init__',
                'prop.vDDDLists.to_ical', 'prop.vPeriod.__init__', 'prop.vPeriod.to_ical', 'prop.vBinary.__init__',
                'prop.vCategory.__init__', 'prop.vGeo.__init__', 'prop.vUTCOffset.__init__']
RULE = ('correspondence: every name of types_map (+ X- names, case variants) x ~75 Python values of every kind (text, int, '
        'float, bool, date, naive/UTC/zoned datetime under both providers, duration, time, valid and invalid periods, geo, '
        'recur, binary, 20 already-typed classes, homogeneous / mixed / mixed-zone / empty lists) x parameter shapes '
        '(set, list, None-delete, override of derived VALUE/TZID, case-colliding keys) through add; random call sequences '
        '(add, item assignment, every descriptor, add_component, depth <= 3) over all component kinds; generated tables vs '
        'live objects.  oracle: RFC-typed trees built by the API, serialised, parsed back and compared; emitted lines read '
        'by an independent scanner.  non-trivial = the call reaches a value class constructor')
ASSUMPTIONS = ['tzid_from_dt(dt) and dt.astimezone(UTC) are library calls: their results travel with the value (C11)',
               'str(float), vRecur(d).to_ical() and base64 texts are supplied with the value (library / C19)',
               'property, parameter and component names are ASCII',
               'zoned test values lie at least 3 h away from a UTC-offset transition of their zone',
               'a bare 2-tuple given to RDATE/EXDATE is a sequence of two values (Python semantics), not one PERIOD: '
               'outside the oracle domain, inside the correspondence',
               'oracle domain: zoned / floating DATE-TIME only for DTSTART DTEND DUE RECURRENCE-ID RDATE EXDATE FREEBUSY '
               '(RFC 5545: the other DATE-TIME properties MUST be UTC; add() converts DTSTAMP CREATED LAST-MODIFIED itself, '
               'but not inside a list); lists of one kind; inside VTIMEZONE plain ASCII text and no parameters except on '
               'TZNAME (the zoneinfo provider re-reads the text with dateutil.tz.tzical: C12)']

ZONES = ['Europe/Berlin', 'America/New_York', 'Asia/Kolkata', 'Australia/Lord_Howe',
         # zones that are on GMT / offset zero for part or all of the year: still zones of their own, not UTC
         'Europe/London', 'Africa/Abidjan', 'Atlantic/Reykjavik', 'Europe/Lisbon']

# ---------------------------------------------------------------------------------------------------------
# the spec side in Python: RFC 5545 sections 3.7-3.8, transcribed independently of the Lean table
# name: (default type, alternative types, multi-valued)
RFC = {
    'CALSCALE': ('TEXT', [], False), 'METHOD': ('TEXT', [], False), 'PRODID': ('TEXT', [], False), 'VERSION': ('TEXT', [], False),
    'ATTACH': ('URI', ['BINARY'], False), 'CATEGORIES': ('TEXT', [], True), 'CLASS': ('TEXT', [], False),
    'COMMENT': ('TEXT', [], False), 'DESCRIPTION': ('TEXT', [], False), 'GEO': ('FLOAT', [], False),
    'LOCATION': ('TEXT', [], False), 'PERCENT-COMPLETE': ('INTEGER', [], False), 'PRIORITY': ('INTEGER', [], False),
    'RESOURCES': ('TEXT', [], True), 'STATUS': ('TEXT', [], False), 'SUMMARY': ('TEXT', [], False),
    'COMPLETED': ('DATE-TIME', [], False), 'DTEND': ('DATE-TIME', ['DATE'], False), 'DUE': ('DATE-TIME', ['DATE'], False),
    'DTSTART': ('DATE-TIME', ['DATE'], False), 'DURATION': ('DURATION', [], False), 'FREEBUSY': ('PERIOD', [], True),
    'TRANSP': ('TEXT', [], False),
    'TZID': ('TEXT', [], False), 'TZNAME': ('TEXT', [], False), 'TZOFFSETFROM': ('UTC-OFFSET', [], False),
    'TZOFFSETTO': ('UTC-OFFSET', [], False), 'TZURL': ('URI', [], False),
    'ATTENDEE': ('CAL-ADDRESS', [], False), 'CONTACT': ('TEXT', [], False), 'ORGANIZER': ('CAL-ADDRESS', [], False),
    'RECURRENCE-ID': ('DATE-TIME', ['DATE'], False), 'RELATED-TO': ('TEXT', [], False), 'URL': ('URI', [], False),
    'UID': ('TEXT', [], False),
    'EXDATE': ('DATE-TIME', ['DATE'], True), 'RDATE': ('DATE-TIME', ['DATE', 'PERIOD'], True), 'RRULE': ('RECUR', [], False),
    'ACTION': ('TEXT', [], False), 'REPEAT': ('INTEGER', [], False), 'TRIGGER': ('DURATION', ['DATE-TIME'], False),
    'CREATED': ('DATE-TIME', [], False), 'DTSTAMP': ('DATE-TIME', [], False), 'LAST-MODIFIED': ('DATE-TIME', [], False),
    'SEQUENCE': ('INTEGER', [], False),
    'REQUEST-STATUS': ('TEXT', [], False),
}
# value classes of the library -> RFC value types they read and write
CLASS_TYPES = {
    'vText': ['TEXT'], 'vCategory': ['TEXT'], 'vInline': ['TEXT'], 'vUri': ['URI'], 'vCalAddress': ['CAL-ADDRESS'],
    'vInt': ['INTEGER'], 'vBoolean': ['BOOLEAN'], 'vFloat': ['FLOAT'], 'vGeo': ['FLOAT'],
    'vDDDTypes': ['DATE', 'DATE-TIME', 'TIME', 'DURATION', 'PERIOD'], 'vDDDLists': ['DATE', 'DATE-TIME', 'TIME', 'DURATION', 'PERIOD'],
    'vPeriod': ['PERIOD'], 'vUTCOffset': ['UTC-OFFSET'], 'vRecur': ['RECUR'], 'vBinary': ['BINARY'], 'vDuration': ['DURATION'],
}


def _literal_names(key, default):
    """name tuples written inside Component.add (no live object): read from the translator's output"""
    try:
        with open(os.path.join(VERIF, 'lean', 'ICal', 'Gen', 'tables.json')) as f:
            return {x.upper() for x in json.load(f)[key]}
    except (OSError, KeyError, ValueError):
        return set(default)


UTC_FORCED = _literal_names('add_utc_names', {'DTSTAMP', 'CREATED', 'LAST-MODIFIED'})      # add() converts datetimes to UTC
ZONED_OK = {'DTSTART', 'DTEND', 'DUE', 'RECURRENCE-ID', 'RDATE', 'EXDATE'}    # DATE-TIME in any of the three forms
LIST_NAMES = _literal_names('add_list_names', {'RDATE', 'EXDATE', 'CATEGORIES'})            # add() keeps a list whole

# descriptors of cal.py (attribute -> property name), by component class name
SINGLE = {'DTSTART': ['Event', 'Todo', 'Journal', 'TimezoneStandard', 'TimezoneDaylight'], 'DTEND': ['Event'], 'DUE': ['Todo'],
          'TRIGGER': ['Alarm'], 'TZOFFSETFROM': ['TimezoneStandard', 'TimezoneDaylight'],
          'TZOFFSETTO': ['TimezoneStandard', 'TimezoneDaylight']}
UTCPROP = {'DTSTAMP': ('DTSTAMP', None), 'LAST_MODIFIED': ('LAST-MODIFIED', None), 'ACKNOWLEDGED': ('ACKNOWLEDGED', ['Alarm']),
           'X_MOZ_SNOOZE_TIME': ('X-MOZ-SNOOZE-TIME', ['Event', 'Todo']), 'X_MOZ_LASTACK': ('X-MOZ-LASTACK', ['Event', 'Todo'])}
DURPROP = ['Event', 'Todo', 'Alarm']
COMP_KINDS = ['VCALENDAR', 'VEVENT', 'VTODO', 'VJOURNAL', 'VFREEBUSY', 'VTIMEZONE', 'STANDARD', 'DAYLIGHT', 'VALARM', 'X-FOO']


# ---------------------------------------------------------------------------------------------------------
# wire format of Python values (lean/ICal/Driver/Encode.lean)

def _wall(d):
    return [str(d.year), str(d.month), str(d.day), str(d.hour), str(d.minute), str(d.second)]


def tok_atom(x):
    from icalendar.prop import tzid_from_dt
    if isinstance(x, datetime):
        if x.microsecond:
            raise Unrepresentable('microseconds')
        tzid = tzid_from_dt(x)
        if x.tzinfo is None:
            if tzid is not None:
                raise Unrepresentable('naive with tzid')
            return ['DT'] + _wall(x) + ['N'] + _wall(x)
        if tzid is None:
            raise Unrepresentable('aware without tzid')
        return ['DT'] + _wall(x) + ['Z', enc(tzid)] + _wall(x.astimezone(timezone.utc))
    if isinstance(x, date):
        return ['D', str(x.year), str(x.month), str(x.day)]
    if isinstance(x, timedelta):
        if x.microseconds:
            raise Unrepresentable('microseconds')
        return ['DU', str(x.days * 86400 + x.seconds)]
    if isinstance(x, time):
        if x.tzinfo is not None or x.microsecond:
            raise Unrepresentable('aware time')
        return ['TM', str(x.hour), str(x.minute), str(x.second)]
    raise Unrepresentable(type(x).__name__)


class Unrepresentable(Exception):
    pass


def tok_typed(kind, text, params):
    out = ['V', enc(kind), enc(text), str(len(params))]
    for k, pv in params:
        out += [enc(k)] + enc_pval(pv).split('~')
    return out


def tok_val(x):
    from icalendar.cal import types_factory
    from icalendar.prop import vBinary, vRecur
    if isinstance(x, vBinary):
        k, t, ps = val_of(x)
        if ps == [('ENCODING', ('1', 'BASE64')), ('VALUE', ('1', 'BINARY'))]:
            return ['X', enc(t)]
        return tok_typed(k, t, ps)
    if isinstance(x, types_factory.all_types):
        return tok_typed(*val_of(x))
    if isinstance(x, str):
        if has_surrogate(x):
            raise Unrepresentable('surrogate')
        return ['T', enc(x)]
    if isinstance(x, bool):
        return ['B', '1' if x else '0']
    if isinstance(x, int):
        return ['I', str(x)]
    if isinstance(x, float):
        return ['F', enc(str(x))]
    if isinstance(x, tuple) and len(x) == 2:
        if all(isinstance(e, (int, float)) and not isinstance(e, bool) for e in x):
            return ['G', enc(str(float(x[0]))), enc(str(float(x[1])))]
        return ['P'] + tok_atom(x[0]) + tok_atom(x[1])
    if isinstance(x, dict):
        return ['R', enc(vRecur(x).to_ical().decode())]
    return tok_atom(x)


def tok_arg(x):
    if isinstance(x, list):
        out = ['L', str(len(x))]
        for e in x:
            out += tok_val(e)
        return out
    return ['O'] + tok_val(x)


def tok_upd(params):
    out = [str(len(params))]
    for k, v in params.items():
        out.append(enc(k))
        if v is None:
            out.append('0')
        elif isinstance(v, list):
            out += enc_pval(('n', v)).split('~')
        else:
            out += enc_pval(('1', v)).split('~')
    return out


def join(toks):
    return '~'.join(toks)


# ---------------------------------------------------------------------------------------------------------
# values (thunks: typed values are mutated by `parameters=`)

def zoned(y, mo, d, h, mi, s, zone):
    from icalendar.timezone import tzp
    return tzp.localize(datetime(y, mo, d, h, mi, s), zone)


def sample_values():
    """(label, thunk) of every value kind; zoned values are created with the current provider"""
    from icalendar.prop import (vBinary, vBoolean, vCalAddress, vCategory, vDate, vDatetime, vDDDLists, vDDDTypes, vDuration,
                           vFloat, vFrequency, vGeo, vInline, vInt, vPeriod, vRecur, vText, vTime, vUri, vUTCOffset, vWeekday)
    from icalendar.timezone import tzp
    nv = datetime(2021, 3, 4, 5, 6, 7)
    nv2 = datetime(2021, 3, 5, 0, 0, 0)
    ut = datetime(2021, 3, 4, 5, 6, 7, tzinfo=timezone.utc)
    S = [
        ('text', lambda: 'hello'), ('text-empty', lambda: ''), ('text-esc', lambda: 'a,b;c\\d\ne:"f"'), ('text-12', lambda: '12'),
        ('text-sp7', lambda: ' 7 '), ('text-TRUE', lambda: 'TRUE'), ('text-wide', lambda: 'é☃\U0001F600'), ('text-ab', lambda: 'ab'),
        ('text-x', lambda: 'x'), ('text-1_0', lambda: '1_0'), ('text--5', lambda: '-5'),
        ('int0', lambda: 0), ('int5', lambda: 5), ('int-3', lambda: -3), ('int-big', lambda: 10 ** 12),
        ('float', lambda: 1.5), ('float-neg', lambda: -0.25), ('float-exp', lambda: 1e-7),
        ('true', lambda: True), ('false', lambda: False),
        ('date', lambda: date(2020, 2, 29)), ('date-early', lambda: date(33, 1, 2)),
        ('naive', lambda: nv), ('utc', lambda: ut), ('utc-tzp', lambda: tzp.localize_utc(nv)),
        ('zoned-berlin', lambda: zoned(2021, 7, 4, 12, 6, 7, 'Europe/Berlin')),
        ('zoned-ny', lambda: zoned(2021, 1, 4, 20, 6, 7, 'America/New_York')),
        ('zoned-kolkata', lambda: zoned(2021, 1, 4, 1, 6, 7, 'Asia/Kolkata')),
        ('zoned-lordhowe', lambda: zoned(2021, 12, 31, 20, 45, 0, 'Australia/Lord_Howe')),
        ('fixed-offset', lambda: datetime(2021, 3, 4, 5, 6, 7, tzinfo=timezone(timedelta(hours=2)))),
        ('td0', lambda: timedelta(0)), ('td1h', lambda: timedelta(hours=1)), ('td-1d', lambda: timedelta(days=-1)),
        ('td-mixed', lambda: timedelta(seconds=90061)), ('td-neg-mixed', lambda: -timedelta(seconds=3661)), ('td7d', lambda: timedelta(days=7)),
        ('time', lambda: time(10, 30, 0)),
        ('period-naive', lambda: (nv, nv2)), ('period-rev', lambda: (nv2, nv)), ('period-utc-dur', lambda: (ut, timedelta(hours=1))),
        ('period-zoned-dur', lambda: (zoned(2021, 7, 4, 12, 0, 0, 'Europe/Berlin'), timedelta(minutes=90))),
        ('period-zoned-zoned', lambda: (zoned(2021, 7, 4, 12, 0, 0, 'Europe/Berlin'), zoned(2021, 7, 4, 13, 0, 0, 'Europe/Berlin'))),
        ('period-two-zones', lambda: (zoned(2021, 7, 4, 12, 0, 0, 'Europe/Berlin'), zoned(2021, 7, 4, 12, 0, 0, 'America/New_York'))),
        ('period-two-zones-rev', lambda: (zoned(2021, 7, 4, 12, 0, 0, 'America/New_York'), zoned(2021, 7, 4, 12, 0, 0, 'Europe/Berlin'))),
        ('period-dates', lambda: (date(2020, 1, 1), date(2020, 1, 3))), ('period-dates-rev', lambda: (date(2020, 1, 3), date(2020, 1, 1))),
        ('period-date-dur', lambda: (date(2020, 1, 1), timedelta(days=2))), ('period-mix-aware', lambda: (nv, ut)),
        ('period-date-dt', lambda: (date(2020, 1, 1), nv)), ('period-dt-date', lambda: (nv, date(2022, 1, 1))),
        ('period-neg-dur', lambda: (nv, timedelta(seconds=-5))), ('period-date-neg-dur', lambda: (date(2020, 1, 1), timedelta(seconds=-5))),
        ('period-time', lambda: (time(1, 2, 3), timedelta(hours=1))), ('period-dur-first', lambda: (timedelta(hours=1), nv)),
        ('period-same', lambda: (nv, nv)), ('period-zero-dur', lambda: (nv, timedelta(0))),
        ('geo', lambda: (1.5, -2.25)), ('geo-int', lambda: (10, 20)),
        ('recur', lambda: {'FREQ': ['DAILY'], 'COUNT': [3]}),
        ('binary', lambda: vBinary('hello')),
        ('t-vText', lambda: vText('x;y')), ('t-vText-p', lambda: vText('x', params={'LANGUAGE': 'en'})),
        ('t-vUri', lambda: vUri('http://x/y')), ('t-vCalAddress', lambda: vCalAddress('mailto:a@b.c')), ('t-vInt', lambda: vInt(3)),
        ('t-vBoolean', lambda: vBoolean(True)), ('t-vFloat', lambda: vFloat(1.5)), ('t-vDDD-date', lambda: vDDDTypes(date(2020, 1, 2))),
        ('t-vDDD-zoned', lambda: vDDDTypes(zoned(2021, 7, 4, 12, 0, 0, 'Europe/Berlin'))), ('t-vDate', lambda: vDate(date(2020, 1, 2))),
        ('t-vDatetime', lambda: vDatetime(zoned(2021, 7, 4, 12, 0, 0, 'America/New_York'))), ('t-vDuration', lambda: vDuration(timedelta(hours=2))),
        ('t-vPeriod', lambda: vPeriod((ut, timedelta(hours=1)))), ('t-vUTCOffset', lambda: vUTCOffset(timedelta(hours=-5))),
        ('t-vGeo', lambda: vGeo((1, 2))), ('t-vRecur', lambda: vRecur(freq='weekly')), ('t-vCategory', lambda: vCategory(['a', 'b,c'])),
        ('t-vDDDLists', lambda: vDDDLists([date(2020, 1, 1), date(2020, 1, 2)])), ('t-vTime', lambda: vTime(10, 0, 0)),
        ('t-vInline', lambda: vInline('in,line')), ('t-vWeekday', lambda: vWeekday('MO')), ('t-vFrequency', lambda: vFrequency('DAILY')),
        ('t-binary-p', lambda: _with_params(vBinary('hi'), {'FMTTYPE': 'text/plain'})),
        # lists
        ('l-empty', lambda: []), ('l-text1', lambda: ['a']), ('l-text2', lambda: ['a', 'b,c']), ('l-dates', lambda: [date(2020, 1, 1), date(2020, 1, 2)]),
        ('l-date1', lambda: [date(2020, 1, 1)]), ('l-date-naive', lambda: [date(2020, 1, 1), nv]), ('l-naive', lambda: [nv, nv2]),
        ('l-zoned-same', lambda: [zoned(2021, 7, 4, 12, 0, 0, 'Europe/Berlin'), zoned(2021, 8, 4, 12, 0, 0, 'Europe/Berlin')]),
        ('l-zoned-mixed', lambda: [zoned(2021, 7, 4, 12, 0, 0, 'Europe/Berlin'), zoned(2021, 7, 4, 12, 0, 0, 'America/New_York')]),
        ('l-utc-zoned', lambda: [ut, zoned(2021, 7, 4, 12, 0, 0, 'Europe/Berlin')]), ('l-zoned-utc', lambda: [zoned(2021, 7, 4, 12, 0, 0, 'Europe/Berlin'), ut]),
        ('l-naive-utc', lambda: [nv, ut]), ('l-periods', lambda: [(nv, timedelta(hours=1)), (nv2, timedelta(hours=2))]),
        ('l-period-zoned', lambda: [(zoned(2021, 7, 4, 12, 0, 0, 'Europe/Berlin'), timedelta(hours=1))]),
        ('l-period-date', lambda: [(nv, timedelta(hours=1)), date(2020, 1, 1)]), ('l-period-bad', lambda: [(nv2, nv)]),
        ('l-ints', lambda: [1, 2]), ('l-typed-text', lambda: [vText('x'), 'y']), ('l-typed-ddd', lambda: [vDDDTypes(date(2020, 1, 1))]),
        ('l-typed-cal', lambda: [vCalAddress('mailto:a'), vCalAddress('mailto:b')]), ('l-tds', lambda: [timedelta(hours=1), timedelta(hours=2)]),
        ('l-times', lambda: [time(1, 0, 0), time(2, 0, 0)]), ('l-geo', lambda: [(1.5, 2.5)]), ('l-bools', lambda: [True, False]),
        ('l-date-text', lambda: [date(2020, 1, 1), 'x']),
    ]
    return S


def _with_params(obj, params):
    for k, v in params.items():
        obj.params[k] = v
    return obj


PARAM_SHAPES = [
    {}, {'X-P': 'a b'}, {'language': 'en', 'X-L': ['one', 'two,2']}, {'VALUE': None}, {'tzid': None}, {'value': 'DATE-TIME'},
    {'x-p': 'v', 'X-P': 'w'}, {'CN': None}, {'TZID': 'Europe/Rome', 'VALUE': None, 'ENCODING': None}, {'X-1': [], 'X-2': ''},
    {'language': 'de', 'LANGUAGE': None},
]

EXTRA_NAMES = ['X-FOO', 'x-wr-calname', 'DTSTART', 'DtStart', 'Rdate', 'CATEGORIES', 'Last-Modified', 'EXRULE', 'X-MOZ-LASTACK', 'Summary']


def all_names():
    from icalendar.cal import types_factory
    names = [k.lower() for k in types_factory.types_map.keys()]
    return names + EXTRA_NAMES


def new_component(kind):
    from icalendar.cal import Component, component_factory
    cls = component_factory.get(kind)
    if cls is None:
        c = Component()
        c.name = kind
        return c
    return cls()


def exc_name(e):
    if isinstance(e, ValueError):
        return 'err:ValueError'
    if isinstance(e, TypeError):
        return 'err:TypeError'
    return 'err:Other:' + type(e).__name__


STR_OK = ('text', 'int', 'float', 'true', 'false', 'date', 'binary', 't-', 'l-text', 'l-empty', 'l-ints', 'l-bools', 'l-typed', 'l-date1',
          'l-dates', 'l-date-text')


def modelled_hint(name, label):
    """generation bias only: does the model cover `str()` of this value when a textual class is chosen?"""
    from icalendar.cal import types_factory
    cls = types_factory.for_property(name).__name__
    if cls in ('vText', 'vUri', 'vCalAddress', 'vCategory', 'vInline'):
        return label.startswith(STR_OK)
    if cls == 'vRecur':
        return label.startswith(('recur', 't-', 'binary'))
    return True


def add_case(ctx, name, label, thunk, params):
    """one call of add on an empty component, observed on the live object"""
    from icalendar.cal import Component
    try:
        value = thunk()
        arg = join(tok_arg(value))
        upd = join(tok_upd(params))
    except Unrepresentable:
        ctx.count('add:unrepresentable-skipped')
        return
    c = Component()
    try:
        c.add(name, value, parameters=dict(params))
    except Exception as e:  # noqa: BLE001
        out = exc_name(e)
    else:
        v = c[name]
        if isinstance(v, list):
            out = 'many\t' + str(len(v)) + ''.join('\t' + enc_val(val_of(x)) for x in v)
        else:
            out = 'one\t' + enc_val(val_of(v))
    ctx.count('add:kind=' + label.split('-')[0])
    ctx.count('add:' + out.split('\t')[0])
    ctx.corr('c02_add', [enc(name), upd, arg], out, nontrivial=not out.startswith('err'))


# ---------------------------------------------------------------------------------------------------------
# call sequences

def class_name(kind):
    from icalendar.cal import Component, component_factory
    return component_factory.get(kind, Component).__name__


def rand_params(rng):
    r = rng.random()
    if r < 0.5:
        return {}
    if r < 0.8:
        return dict(rng.choice(PARAM_SHAPES))
    d = {}
    for _ in range(rng.randint(1, 3)):
        k = rng.choice(['X-P', 'x-p', 'LANGUAGE', 'CN', 'VALUE', 'TZID', 'RELATED', 'Role'])
        d[k] = rng.choice([None, 'v', 'a:b', ['p', 'q'], 'DATE', 'END'])
    return d


def rand_op(rng, kind, values):
    """(token list, function applying the call to a live component)"""
    cn = class_name(kind)
    names = ['summary', 'comment', 'dtstart', 'dtend', 'due', 'duration', 'rdate', 'exdate', 'categories', 'attendee', 'trigger',
             'dtstamp', 'created', 'last-modified', 'x-foo', 'geo', 'priority', 'freebusy', 'rrule', 'url', 'tzoffsetfrom', 'repeat',
             'attach', 'resources', 'uid', 'COMMENT', 'Dtstart', 'recurrence-id', 'acknowledged']
    r = rng.random()
    label, thunk = rng.choice(values)
    if r < 0.55:
        name = rng.choice(names)
        for _ in range(20):
            if modelled_hint(name, label) or rng.random() < 0.03:
                break
            label, thunk = rng.choice(values)
        params = rand_params(rng)
        v = thunk()
        toks = ['A', enc(name)] + tok_upd(params) + tok_arg(v)
        return toks, lambda c: c.add(name, v, parameters=dict(params))
    if r < 0.67:
        # item assignment: stored as it is (typed values, lists of them, plain str / int)
        name = rng.choice(names)
        pick = rng.random()
        if pick < 0.6:
            from icalendar.cal import types_factory
            v = thunk()
            if not isinstance(v, types_factory.all_types):
                v = rng.choice(['plain', 7])
            vals, is_list = [v], False
        else:
            from icalendar import vText
            vals, is_list = [vText('i%d' % i) for i in range(rng.randint(0, 3))], True
        toks = ['S', enc(name), 'L' if is_list else 'S', str(len(vals))]
        for x in vals:
            toks += tok_typed(*val_of(x))
        return toks, lambda c: c.__setitem__(name, vals if is_list else vals[0])
    v = None if rng.random() < 0.1 else thunk()
    if isinstance(v, list):
        v = None
    opt = ['0'] if v is None else ['1'] + tok_val(v)
    cands = []
    for prop, classes in SINGLE.items():
        if cn in classes:
            cands.append(('P', prop))
    for attr, (pname, classes) in UTCPROP.items():
        if classes is None or cn in classes:
            cands.append(('U', attr))
    if cn in DURPROP:
        cands.append(('DUR', None))
    if cn == 'Alarm':
        cands += [('REP', None), ('REL', None)]
    if cn in ('Event', 'Todo', 'Journal'):
        cands += [('start', None), ('end', None)]
    k, a = rng.choice(cands)
    if k == 'start':
        return ['P', enc('DTSTART')] + opt, lambda c: setattr(c, 'start', v)
    if k == 'end':
        target = {'Event': 'DTEND', 'Todo': 'DUE', 'Journal': 'DTSTART'}[cn]
        return ['P', enc(target)] + opt, lambda c: setattr(c, 'end', v)
    if k == 'P':
        return ['P', enc(a)] + opt, lambda c: setattr(c, a, v)
    if k == 'U':
        if v is None:
            v = 5
            opt = ['1'] + tok_val(v)
        return ['U', enc(UTCPROP[a][0])] + opt[1:], lambda c: setattr(c, a, v)
    if k == 'DUR':
        return ['DUR'] + opt, lambda c: setattr(c, 'DURATION', v)
    if k == 'REP':
        if v is None:
            v = 2
            opt = ['1'] + tok_val(v)
        return ['REP'] + opt[1:], lambda c: setattr(c, 'REPEAT', v)
    s = rng.choice(['END', 'START', 'end'])
    return ['REL', enc(s)], lambda c: setattr(c, 'TRIGGER_RELATED', s)


def rand_spec(rng, values, depth=0, kind=None):
    """build a live component by random calls; returns (component, spec text, outcomes)"""
    kind = kind or rng.choice(COMP_KINDS)
    c = new_component(kind)
    ops = []
    outcomes = []
    pending_subs = []
    n = rng.randint(0, 6)
    nsub = rng.choice([0, 0, 1, 2]) if depth < 3 else 0
    sub_specs = []
    for i in range(n):
        try:
            toks, fn = rand_op(rng, kind, values)
        except Unrepresentable:
            continue
        ops.append(join(toks))
        try:
            fn(c)
            outcomes.append('o')
        except ValueError:
            outcomes.append('v')
        except TypeError:
            outcomes.append('t')
        except AttributeError:
            outcomes.append('a')      # TRIGGER_RELATED on a list of triggers: outside the model
        # subcomponents may be attached between calls
        while len(pending_subs) < nsub and rng.random() < 0.3:
            pending_subs.append(None)
            sc, st, so = rand_spec(rng, values, depth + 1)
            c.add_component(sc)
            sub_specs.append((st, so))
    while len(sub_specs) < nsub:
        sc, st, so = rand_spec(rng, values, depth + 1)
        c.add_component(sc)
        sub_specs.append((st, so))
    text = '(' + enc(kind) + ';' + str(len(ops)) + ''.join(';' + o for o in ops) + ';' + str(len(sub_specs)) + \
        ''.join(';' + st for st, _ in sub_specs) + ')'
    outs = ''.join(outcomes) + ''.join(so for _, so in sub_specs)
    return c, text, outs


def build_case(ctx, rng, values):
    c, text, outs = rand_spec(rng, values)
    if 'a' in outs:
        ctx.count('build:attribute-error-skipped')
        return
    out = 'ok\t' + enc_tree(tree_of(c)) + '\t' + outs
    ctx.count('build:ops', len(outs))
    ctx.corr('c02_build', [text], out)


# ---------------------------------------------------------------------------------------------------------
# translator cross-check: generated tables (tools/extract.py reads the source text) vs the live objects

def crosscheck_tables(ctx):
    from icalendar import cal, prop
    with open(os.path.join(VERIF, 'lean', 'ICal', 'Gen', 'tables.json')) as f:
        t = json.load(f)
    bad = []

    def same(label, got, live):
        ctx.evaluated(('table', label))
        if got != live:
            bad.append((label, got, live))
    tm = {}
    for k, v in t['types_map']:
        tm[k.upper()] = v
    same('types_map', tm, {k: str(v) for k, v in prop.TypesFactory.types_map.items()})
    tf = prop.TypesFactory()
    same('type_registry', {k.upper(): v for k, v in t['type_registry']}, {k: v.__name__ for k, v in tf.items()})
    same('component_factory', {k: v for k, v in t['component_factory']}, {k: v.__name__ for k, v in cal.component_factory.items()})
    for cname, d in t['components'].items():
        cls = getattr(cal, cname)
        same(cname + '.name', d['name'], cls.name)
        same(cname + '.canonical_order', d['canonical_order'], list(cls.canonical_order or []))
        for fld in ('required', 'singletons', 'exclusive', 'multiple'):
            same(cname + '.' + fld, d[fld], list(getattr(cls, fld)))
        same(cname + '.ignore_exceptions', d['ignore_exceptions'], bool(cls.ignore_exceptions))
    same('inline', sorted(t['inline']), sorted(cal.INLINE.keys()))
    same('recur_order', t['recur_order'], list(prop.vRecur.canonical_order))
    same('recur_types', {k: v for k, v in t['recur_types']}, {k: v.__name__ for k, v in prop.vRecur.types.items()})
    same('week_days', {k: v for k, v in t['week_days']}, dict(prop.vWeekday.week_days))
    same('frequencies', sorted(t['frequencies']), sorted(prop.vFrequency.frequencies.keys()))
    same('skip_search', t['skip_search'], [int(x.total_seconds()) for x in cal.Timezone._from_tzinfo_skip_search])
    # the descriptor table of this module against the live classes
    for attr, classes in SINGLE.items():
        live = sorted(n for n in t['components'] if isinstance(getattr(getattr(cal, n), attr, None), property))
        same('descriptor ' + attr, sorted(classes), live)
    for attr, (pname, classes) in UTCPROP.items():
        live = sorted(n for n in t['components'] if isinstance(getattr(getattr(cal, n), attr, None), property))
        same('descriptor ' + attr, sorted(classes if classes is not None else t['components']), live)
    live = sorted(n for n in t['components'] if isinstance(getattr(getattr(cal, n), 'DURATION', None), property))
    same('descriptor DURATION', sorted(DURPROP), live)
    for label, got, live in bad:
        ctx.violation('translator-crosscheck', {'table': label}, f'generated {got!r} vs live {live!r}', None)
    # the name tuples inside Component.add have no live object: their effect is observed by the add
    # correspondence (every name x every datetime kind / list)


def rfc_table_cases(ctx):
    """the Lean RFC table, key types and class types against the Python transcription of this module"""
    from icalendar.cal import types_factory
    ctx.corr('c02_rfc_names', [], str(len(RFC)) + ''.join('|' + enc(n) for n in RFC))
    for n, (d, alts, multi) in RFC.items():
        ctx.corr('c02_rfc', [enc(n)], d + '|' + ','.join(alts) + '|' + ('1' if multi else '0'))
    ctx.corr('c02_rfc', [enc('X-FOO')], 'none')
    for n in all_names() + list(RFC):
        ctx.corr('c02_typekey', [enc(n)], enc(types_factory.types_map.get(n, 'text')))
        ctx.corr('for_property', [enc(n)], enc(types_factory.for_property(n).__name__))
    for c, ts in CLASS_TYPES.items():
        ctx.corr('c02_class_types', [enc(c)], ','.join(ts))


def correspondence(ctx):
    import icalendar
    crosscheck_tables(ctx)
    rfc_table_cases(ctx)
    rng = ctx.rng
    names = all_names()
    focus = ['dtstart', 'rdate', 'summary', 'attendee', 'categories', 'x-foo', 'freebusy', 'trigger', 'dtstamp', 'geo', 'attach', 'EXDATE']
    try:
        for provider in ('zoneinfo', 'pytz'):
            if provider == 'pytz':
                icalendar.use_pytz()
            else:
                icalendar.use_zoneinfo()
            values = sample_values()
            for label, thunk in values:
                if provider == 'pytz' and 'zoned' not in label:
                    continue
                for name in names:
                    if not modelled_hint(name, label) and name not in ('summary', 'url', 'attendee', 'categories', 'rrule', 'X-FOO'):
                        continue     # str() of such an object is outside the model: a few names keep the region visible
                    add_case(ctx, name, label, thunk, {})
                for name in focus:
                    for i, ps in enumerate(PARAM_SHAPES[1:]):
                        if i and not modelled_hint(name, label):
                            continue
                        add_case(ctx, name, label, thunk, ps)
            for _ in range(ctx.vol(3000, 10)):
                label, thunk = rng.choice(values)
                name = rng.choice(names)
                if not modelled_hint(name, label) and rng.random() < 0.9:
                    continue
                add_case(ctx, name, label, thunk, rand_params(rng))
            for _ in range(ctx.vol(2500 if provider == 'zoneinfo' else 800, 10)):
                build_case(ctx, rng, values)
    finally:
        icalendar.use_zoneinfo()


# ---------------------------------------------------------------------------------------------------------
# oracle

HAZARD = re.compile(r'\\[,:;\\]|%2C|%3A|%3B|%5C', re.I)


def zone_key(tz):
    return getattr(tz, 'key', None) or getattr(tz, 'zone', None)


def is_utc(d):
    return d.tzinfo is not None and d.utcoffset() == timedelta(0) and (zone_key(d.tzinfo) in (None, 'UTC') or d.tzinfo is timezone.utc)


def same_moment(got, want, forced_utc=False):
    """the comparison the property asks for: equal Python values; zoned = wall time + zone key + utcoffset;
    UTC-forced names compare as instants"""
    if isinstance(want, datetime):
        if not isinstance(got, datetime):
            return False
        if forced_utc:
            if got.tzinfo is None or got.utcoffset() != timedelta(0):
                return False
            w = want if want.tzinfo is not None else want.replace(tzinfo=timezone.utc)
            return got == w
        if want.tzinfo is None:
            return got.tzinfo is None and got == want
        if got.tzinfo is None:
            return False
        if want.utcoffset() == timedelta(0) and zone_key(want.tzinfo) in (None, 'UTC'):
            return got.utcoffset() == timedelta(0) and got.replace(tzinfo=None) == want.replace(tzinfo=None)
        return (got.replace(tzinfo=None) == want.replace(tzinfo=None) and zone_key(got.tzinfo) == zone_key(want.tzinfo)
                and got.utcoffset() == want.utcoffset())
    if isinstance(want, date):
        return type(got) is date and got == want
    if isinstance(want, timedelta):
        return isinstance(got, timedelta) and got == want
    if isinstance(want, tuple):
        return isinstance(got, tuple) and len(got) == len(want) and all(same_moment(g, w) for g, w in zip(got, want))
    return got == want


def decoded_value(kind, v):
    """Python value of a parsed value object, by the kind that was supplied"""
    from icalendar.prop import vDDDLists
    if kind in ('text', 'uri', 'cal-address'):
        return str(v)
    if kind == 'int':
        return int(v)
    if kind in ('date', 'datetime', 'duration'):
        return v.dt
    if kind == 'period':
        return v.dt if hasattr(v, 'dt') else None
    if kind == 'utc-offset':
        return v.td
    if kind == 'geo':
        return (v.latitude, v.longitude)
    if kind == 'categories':
        return [str(c) for c in v.cats]
    if kind == 'datelist':
        return [d.dt for d in v.dts] if isinstance(v, vDDDLists) else None
    if kind == 'recur':
        return {k: [str(x) if isinstance(x, str) else x for x in vals] for k, vals in v.items()}
    if kind == 'binary':
        return v.obj.encode() if hasattr(v, 'obj') else None
    if kind == 'bool':
        return bool(v) if isinstance(v, int) else None
    return None


RFC_KIND = {'date': 'DATE', 'datetime': 'DATE-TIME', 'duration': 'DURATION', 'period': 'PERIOD', 'binary': 'BINARY', 'bool': 'BOOLEAN'}


class Rec:
    """one expected content line: what was supplied through the API"""

    def __init__(self, name, kind, value, params, rfc_kinds, zones, listed=False):
        self.name = name            # upper case
        self.kind = kind            # oracle kind of the value
        self.value = value
        self.params = params        # parameters= as supplied (None values removed)
        self.rfc_kinds = rfc_kinds  # RFC value type(s) of the emitted elements
        self.zones = zones          # zone ids of zoned elements, in order
        self.listed = listed        # supplied inside a Python list of length 1 (stored as a list)


def rand_text_value(rng):
    if rng.random() < 0.08:
        return rng.choice(['', '0', ' '])           # empty / falsy-looking texts are values like any other
    s = gen.rand_text(rng, 30, wide=0.1).replace('\r', '').replace('\\N', 'N')
    return ''.join(c for c in s if (ord(c) >= 32 or c == '\n') and ord(c) != 127 and not (0xD800 <= ord(c) <= 0xDFFF))


def rand_dt(rng, kind):
    from icalendar.timezone import tzp
    y, mo, d = rng.randint(1971, 2036), rng.randint(1, 12), rng.randint(1, 28)
    if kind == 'date':
        return date(y, mo, d)
    if kind == 'zoned':
        return tzp.localize(datetime(y, mo, d, rng.randint(9, 20), rng.randint(0, 59), rng.randint(0, 59)), rng.choice(ZONES))
    dt = datetime(y, mo, d, rng.randint(0, 23), rng.randint(0, 59), rng.randint(0, 59))
    if kind == 'utc':
        return rng.choice([dt.replace(tzinfo=timezone.utc), tzp.localize_utc(dt)])
    return dt


def rand_td(rng):
    return timedelta(seconds=rng.choice([0, 1, 60, 3600, 86400, 90061, -3600, 604800, rng.randint(-10 ** 6, 10 ** 6)]))


def oracle_params(rng):
    d = {}
    if rng.random() < 0.3:
        d['LANGUAGE'] = rng.choice(['en', 'de-CH'])
    if rng.random() < 0.25:
        d['X-P'] = rng.choice(['a b', 'x:y', 'p,q', 'semi;colon', 'plain', "it's", '', 'tab\there', '\tlead', 'trail\t',
                               '\u00fcml\u2713', 'a^b', 'a=b', 'sp  ace', '\U0001f600'])
    if rng.random() < 0.1:
        d[rng.choice(['CN', 'X-TAB', 'x-9', 'X.Y'])] = rng.choice(['Doe\tJohn', 'a\tb,c', 'x y', 'z'])
    if rng.random() < 0.1:
        d['x-list'] = ['one', 'two,2']
    if rng.random() < 0.05:
        d['X-GONE'] = None
    return d


def zones_of(v):
    out = []
    for x in (v if isinstance(v, list) else [v]):
        if isinstance(x, tuple):
            x = x[0]
        if isinstance(x, datetime) and x.tzinfo is not None and not (x.utcoffset() == timedelta(0) and zone_key(x.tzinfo) in (None, 'UTC')):
            out.append(zone_key(x.tzinfo))
    return out


def rand_supply(rng, name):
    """a Python value of a kind RFC 5545 allows for the property `name` (upper case); returns (kind, value, rfc kinds)"""
    d, alts, multi = RFC.get(name, ('TEXT', [], False))
    if name == 'CATEGORIES':
        return 'categories', [rand_text_value(rng) for _ in range(rng.randint(1, 3))], ['TEXT']
    if name in ('RDATE', 'EXDATE'):
        k = rng.choice(['date', 'naive', 'utc', 'zoned', 'zoned', 'period'] if name == 'RDATE' else ['date', 'naive', 'utc', 'zoned', 'zoned'])
        n = rng.randint(1, 3)
        if k == 'period':
            vals = []
            for _ in range(n):
                st = rand_dt(rng, rng.choice(['naive', 'utc']))
                vals.append((st, timedelta(seconds=rng.randint(0, 10 ** 5))) if rng.random() < 0.5 else (st, st + timedelta(seconds=rng.randint(0, 10 ** 5))))
            return 'datelist', vals, ['PERIOD']
        if k == 'zoned':
            z = rng.choice(ZONES)
            from icalendar.timezone import tzp
            vals = [tzp.localize(datetime(rng.randint(1971, 2036), rng.randint(1, 12), rng.randint(1, 28), rng.randint(9, 20), 0, 0),
                                 z if rng.random() < 0.9 else rng.choice(ZONES)) for _ in range(n)]
            return 'datelist', vals, ['DATE-TIME']
        return 'datelist', [rand_dt(rng, k) for _ in range(n)], ['DATE' if k == 'date' else 'DATE-TIME']
    t = rng.choice([d] + alts) if rng.random() < 0.5 else d
    if t == 'TEXT':
        return 'text', rand_text_value(rng), ['TEXT']
    if t == 'INTEGER':
        return 'int', (0 if rng.random() < 0.15 else rng.randint(-10 ** 6, 10 ** 9)), ['INTEGER']
    if t == 'URI':
        tail = ''.join(rng.choice('abc/?=&~.:;,%2C\\') for _ in range(rng.randint(0, 12)))
        return 'uri', 'https://example.com/' + tail, ['URI']
    if t == 'CAL-ADDRESS':
        return 'cal-address', 'mailto:' + ''.join(rng.choice('abc.@') for _ in range(8)), ['CAL-ADDRESS']
    if t == 'FLOAT':
        r = rng.random()
        if r < 0.25:
            # every float is a coordinate: many decimals, positions within metres of the equator / prime meridian, signed zeros
            pick = lambda lim: rng.choice([rng.uniform(-lim, lim), rng.uniform(-1e-4, 1e-4), rng.uniform(-1e-7, 1e-7), 0.0, -0.0,
                                           lim, -lim, 1.25e-05, -4.17e-05, 48.85837009999])        # noqa: E731
            return 'geo', (pick(90), pick(180)), ['FLOAT']
        return 'geo', (round(rng.uniform(-90, 90), 4), round(rng.uniform(-180, 180), 4)), ['FLOAT']
    if t == 'DATE':
        return 'date', rand_dt(rng, 'date'), ['DATE']
    if t == 'DATE-TIME':
        # RFC 5545: COMPLETED, CREATED, DTSTAMP, LAST-MODIFIED and an absolute TRIGGER MUST be UTC; `add` converts
        # the three names of UTC_FORCED itself, so any datetime may be handed to it for those
        kinds = ['naive', 'utc', 'zoned'] if (name in ZONED_OK or name in UTC_FORCED) else ['utc']
        return 'datetime', rand_dt(rng, rng.choice(kinds)), ['DATE-TIME']
    if t == 'DURATION':
        return 'duration', rand_td(rng), ['DURATION']
    if t == 'PERIOD':
        st = rand_dt(rng, rng.choice(['naive', 'utc', 'zoned']))
        return 'period', ((st, timedelta(seconds=rng.randint(0, 10 ** 5))) if rng.random() < 0.5 else (st, st + timedelta(seconds=rng.randint(0, 10 ** 5)))), ['PERIOD']
    if t == 'UTC-OFFSET':
        return 'utc-offset', timedelta(seconds=rng.choice([0, 3600, -18000, 19800, 37800, -34200, 45900 // 60 * 60, 3661])), ['UTC-OFFSET']
    if t == 'RECUR':
        r = {'FREQ': [rng.choice(['DAILY', 'WEEKLY', 'MONTHLY', 'YEARLY'])]}
        if rng.random() < 0.6:
            r['COUNT'] = [rng.randint(1, 9)]
        if rng.random() < 0.4:
            r['BYDAY'] = rng.sample(['MO', 'TU', '-1SU', '2FR'], rng.randint(1, 2))
        # the documented mapping form also takes scalar part values, zero included
        if rng.random() < 0.5:
            r[rng.choice(['BYHOUR', 'BYMINUTE', 'BYSECOND'])] = rng.choice([0, 0, 12, [0], [0, 30]])
        if rng.random() < 0.3:
            r['INTERVAL'] = rng.randint(1, 4)
        # every integer-valued BYxxx part of RFC 5545 3.3.10, signed where the grammar allows a sign
        for part, lo, hi in (('BYWEEKNO', 1, 53), ('BYMONTHDAY', 1, 31), ('BYYEARDAY', 1, 366), ('BYSETPOS', 1, 366), ('BYMONTH', 1, 12)):
            if rng.random() < 0.2:
                vals = [rng.randint(lo, hi) * (1 if part == 'BYMONTH' or rng.random() < 0.6 else -1) for _ in range(rng.randint(1, 3))]
                r[part] = vals if rng.random() < 0.7 else vals[0]
        if rng.random() < 0.15:
            r['WKST'] = [rng.choice(['MO', 'SU', 'TH'])]
        return 'recur', r, ['RECUR']
    if t == 'BINARY':
        return 'binary', ''.join(rng.choice('abcXYZ 09') for _ in range(rng.randint(0, 9))).encode(), ['BINARY']
    raise AssertionError(t)


COMP_PROPS = {
    'VCALENDAR': ['PRODID', 'VERSION', 'CALSCALE', 'METHOD', 'X-WR-CALNAME'],
    'VEVENT': ['SUMMARY', 'DESCRIPTION', 'COMMENT', 'LOCATION', 'DTSTART', 'DTEND', 'DURATION', 'DTSTAMP', 'UID', 'RECURRENCE-ID', 'SEQUENCE',
               'RRULE', 'RDATE', 'EXDATE', 'CATEGORIES', 'GEO', 'PRIORITY', 'URL', 'ATTENDEE', 'ORGANIZER', 'ATTACH', 'CLASS', 'STATUS',
               'TRANSP', 'CREATED', 'LAST-MODIFIED', 'CONTACT', 'RELATED-TO', 'RESOURCES', 'REQUEST-STATUS', 'X-NOTE'],
    'VTODO': ['SUMMARY', 'DTSTART', 'DUE', 'DURATION', 'COMPLETED', 'PERCENT-COMPLETE', 'DTSTAMP', 'UID', 'PRIORITY', 'RDATE', 'EXDATE',
              'CATEGORIES', 'COMMENT', 'X-NOTE', 'ATTENDEE', 'LAST-MODIFIED'],
    'VJOURNAL': ['SUMMARY', 'DTSTART', 'DTSTAMP', 'UID', 'DESCRIPTION', 'RDATE', 'CATEGORIES', 'COMMENT'],
    'VFREEBUSY': ['DTSTART', 'DTEND', 'DTSTAMP', 'UID', 'FREEBUSY', 'ORGANIZER', 'ATTENDEE', 'COMMENT', 'URL'],
    'VTIMEZONE': ['TZURL', 'LAST-MODIFIED', 'X-LIC-LOCATION'],
    'STANDARD': ['TZNAME', 'COMMENT', 'RDATE'],
    'DAYLIGHT': ['TZNAME', 'COMMENT', 'RDATE'],
    'VALARM': ['ACTION', 'TRIGGER', 'DURATION', 'REPEAT', 'DESCRIPTION', 'SUMMARY', 'ATTENDEE', 'ATTACH'],
    'X-FOO': ['X-A', 'X-B', 'SUMMARY', 'DTSTART', 'COMMENT'],
}
SINGLE_VALUED = {'DTSTART', 'DTEND', 'DUE', 'DURATION', 'DTSTAMP', 'UID', 'RECURRENCE-ID', 'SEQUENCE', 'GEO', 'PRIORITY', 'URL', 'ORGANIZER',
                 'CLASS', 'STATUS', 'TRANSP', 'CREATED', 'LAST-MODIFIED', 'SUMMARY', 'DESCRIPTION', 'LOCATION', 'PRODID', 'VERSION',
                 'CALSCALE', 'METHOD', 'COMPLETED', 'PERCENT-COMPLETE', 'TZURL', 'ACTION', 'TRIGGER', 'REPEAT', 'TZID', 'TZOFFSETFROM',
                 'TZOFFSETTO'}


class Node:
    def __init__(self, kind):
        self.kind = kind
        self.recs = []
        self.subs = []


def as_api_value(kind, value):
    """the object handed to the API for a supplied value"""
    from icalendar import vBinary
    if kind == 'binary':
        return vBinary(value.decode())
    return value


def build_oracle_tree(rng, kind='VCALENDAR', depth=0):
    """a live component built by API calls and the record of what was supplied"""
    from icalendar import vCalAddress, vDDDTypes, vText, vUri
    c = new_component(kind)
    node = Node(kind)
    cn = class_name(kind)

    def drop(names):
        node.recs = [r for r in node.recs if r.name not in names]

    if kind == 'VTIMEZONE':
        # a VTIMEZONE that parses needs its observances; TZID is unique so nothing cached is replaced
        tzid = 'Verif/' + ''.join(rng.choice('ABCDEFGH') for _ in range(8))
        c.add('tzid', tzid)
        node.recs.append(Rec('TZID', 'text', tzid, {}, ['TEXT'], []))
    if kind in ('STANDARD', 'DAYLIGHT'):
        st = datetime(1990 + rng.randint(0, 20), rng.randint(1, 12), 1, 2)
        f, t = timedelta(hours=rng.randint(-11, 12)), timedelta(hours=rng.randint(-11, 12), minutes=rng.choice([0, 30]))
        if rng.random() < 0.5:
            c.DTSTART, c.TZOFFSETFROM, c.TZOFFSETTO = st, f, t
        else:
            c.add('dtstart', st)
            c.add('tzoffsetfrom', f)
            c.add('tzoffsetto', t)
        node.recs += [Rec('DTSTART', 'datetime', st, {}, ['DATE-TIME'], []), Rec('TZOFFSETFROM', 'utc-offset', f, {}, ['UTC-OFFSET'], []),
                      Rec('TZOFFSETTO', 'utc-offset', t, {}, ['UTC-OFFSET'], [])]
    for _ in range(rng.randint(0, 7)):
        name = rng.choice(COMP_PROPS[kind])
        present = any(r.name == name for r in node.recs)
        if present and name in SINGLE_VALUED:
            continue
        in_tz = kind in ('VTIMEZONE', 'STANDARD', 'DAYLIGHT')
        if in_tz and name == 'RDATE':
            vk, value, rk = 'datelist', [datetime(2000 + i, 3, 1, 2) for i in range(rng.randint(1, 2))], ['DATE-TIME']
        elif in_tz and name == 'TZNAME':
            if present:
                continue
            vk, value, rk = 'text', {'STANDARD': 'STD', 'DAYLIGHT': 'DST'}[kind], ['TEXT']
        elif in_tz and name in ('COMMENT', 'X-LIC-LOCATION'):
            # under the zoneinfo provider the text of a VTIMEZONE is read a second time by dateutil.tz.tzical,
            # which splits lines at Unicode line boundaries (C12): plain ASCII text here
            vk, value, rk = 'text', ''.join(rng.choice('abc XYZ,;:') for _ in range(rng.randint(0, 12))), ['TEXT']
        else:
            vk, value, rk = rand_supply(rng, name)
        params = oracle_params(rng) if vk in ('text', 'cal-address', 'uri', 'categories') or rng.random() < 0.2 else {}
        if in_tz and name != 'TZNAME':
            params = {}       # tzical rejects parameters on the lines it reads (RDATE, RRULE, TZNAME, ...)
        kept = {k: v for k, v in params.items() if v is not None}
        api = as_api_value(vk, value)
        how = rng.random()
        spelled = rng.choice([name, name.lower(), name.capitalize()])
        zs = zones_of(value)
        if how < 0.06 and not in_tz and name not in LIST_NAMES and name not in UTC_FORCED and vk not in ('datelist', 'categories'):
            # a Python list of values: one line per element
            vals = [value]
            for _ in range(rng.randint(0, 2)):
                if name in SINGLE_VALUED:
                    break
                vk2, v2, rk2 = rand_supply(rng, name)
                if vk2 != vk:
                    break
                vals.append(v2)
            c.add(spelled, [as_api_value(vk, v) for v in vals], parameters=dict(params))
            one = len(vals) == 1 and not present
            for v in vals:
                node.recs.append(Rec(name, vk, v, kept, rk, zones_of(v), listed=one))
        elif how < 0.22 and not present and vk in ('text', 'uri', 'cal-address', 'date', 'datetime', 'duration') and not (
                name in UTC_FORCED and not (isinstance(value, datetime) and is_utc(value))):
            # item assignment of an explicitly constructed value object
            obj = {'text': vText, 'uri': vUri, 'cal-address': vCalAddress}.get(vk, vDDDTypes)(value)
            for k, v in kept.items():
                obj.params[k] = v
            c[spelled] = obj
            node.recs.append(Rec(name, vk, value, kept, rk, zs))
        elif how < 0.4 and not params and vk in ('date', 'datetime', 'duration', 'utc-offset') and (
                (name in SINGLE and cn in SINGLE[name]) or (name == 'DURATION' and cn in DURPROP)
                or (name in ('DTSTAMP', 'LAST-MODIFIED') and vk != 'date')):
            # descriptors
            attr = name.replace('-', '_')
            if name == 'DTSTART' and kind in ('STANDARD', 'DAYLIGHT') and vk != 'datetime':
                continue
            if name == 'DURATION' and vk != 'duration':
                continue
            setattr(c, attr, value)
            drop({name})
            if name == 'DURATION':
                drop({'DTEND', 'DUE'})
            if name in ('DTEND', 'DUE'):
                drop({'DURATION'})
            node.recs.append(Rec(name, vk, value, {}, rk, zs))
        else:
            if name == 'DURATION' and any(r.name in ('DTEND', 'DUE') for r in node.recs):
                continue
            if name in ('DTEND', 'DUE') and any(r.name == 'DURATION' for r in node.recs):
                continue
            deleted = []
            if vk == 'text' and rng.random() < 0.15:
                # an already-typed value with its own parameters; `parameters=` deletes one of them with None
                api = vText(value, params={'X-DEL': 'gone', 'X-KEEP': 'k'})
                params = dict(params)
                params['x-del'] = None
                kept = dict(kept)
                kept['X-KEEP'] = 'k'
                deleted = ['X-DEL']
            c.add(spelled, api, parameters=dict(params))
            rec = Rec(name, vk, value, kept, rk, zs)
            rec.deleted = deleted
            node.recs.append(rec)
    nested = {'VCALENDAR': ['VEVENT', 'VTODO', 'VJOURNAL', 'VFREEBUSY', 'VTIMEZONE', 'X-FOO'], 'VEVENT': ['VALARM', 'X-FOO'],
              'VTODO': ['VALARM'], 'VTIMEZONE': ['STANDARD', 'DAYLIGHT'], 'X-FOO': ['X-FOO', 'VEVENT']}.get(kind, [])
    if nested and depth < 3:
        n = rng.randint(1, 2) if kind == 'VTIMEZONE' else rng.choice([0, 1, 2, 3]) if kind == 'VCALENDAR' else rng.choice([0, 0, 1, 2])
        for i in range(n):
            # a VTIMEZONE gets a STANDARD first: with DAYLIGHT only, the pytz provider cannot build the zone (C12)
            sub_kind = 'STANDARD' if (kind == 'VTIMEZONE' and i == 0) else rng.choice(nested)
            sc, sn = build_oracle_tree(rng, sub_kind, depth + 1)
            c.add_component(sc)
            node.subs.append(sn)
    return c, node


# ---- an independent reader of the emitted text (does not use the library) -------------------------------

def scan_lines(data):
    text = data.decode('utf-8')
    text = re.sub(r'\r?\n[ \t]', '', text)
    return [ln for ln in re.split(r'\r?\n', text) if ln]


def scan_line(ln):
    """name, {PARAM: [values]}, value text - quote-aware, no unescaping beyond the quotes"""
    i, n = 0, len(ln)
    while i < n and ln[i] not in ';:':
        i += 1
    name = ln[:i].upper()
    params = {}
    while i < n and ln[i] == ';':
        j = i + 1
        while j < n and ln[j] != '=':
            j += 1
        key = ln[i + 1:j].upper()
        vals = []
        j += 1
        while True:
            if j < n and ln[j] == '"':
                k = ln.index('"', j + 1)
                vals.append(ln[j + 1:k])
                j = k + 1
            else:
                k = j
                while k < n and ln[k] not in ',;:':
                    k += 1
                vals.append(ln[j:k])
                j = k
            if j < n and ln[j] == ',':
                j += 1
                continue
            break
        params[key] = vals
        i = j
    return name, params, ln[i + 1:]


def scan_tree(lines):
    """[(name, [(NAME, params, value)], [subtrees])]"""
    stack = [('', [], [])]
    for ln in lines:
        name, params, value = scan_line(ln)
        if name == 'BEGIN':
            stack.append((value.upper(), [], []))
        elif name == 'END':
            done = stack.pop()
            stack[-1][2].append(done)
        else:
            stack[-1][1].append((name, params, value))
    return stack[0][2]


SHAPES = [('DATE', re.compile(r'^\d{8}$')), ('DATE-TIME', re.compile(r'^\d{8}T\d{6}Z?$')), ('DURATION', re.compile(r'^[+-]?P')),
          ('PERIOD', re.compile(r'/'))]


def shape_of(item):
    for k, rx in reversed(SHAPES):
        if rx.search(item):
            return k
    return None


def norm_param(v):
    """one-element list = scalar"""
    if isinstance(v, (list, tuple)):
        v = [str(x) for x in v]
        return v[0] if len(v) == 1 else v
    return str(v)


def norm_text(s):
    return s.replace('\\N', '\n').replace('\r\n', '\n')


def classify_rec(rec):
    """finding class of a supplied value by its features"""
    if rec.kind in ('uri', 'cal-address') and HAZARD.search(rec.value):
        return 'value-unescape-nontext'
    if rec.kind in ('binary', 'bool'):
        return 'value-param-ignored-on-parse'
    if rec.kind == 'datelist' and len(set(rec.zones)) > 1:
        return 'mixed-zone-list'
    if rec.kind == 'datelist' and rec.zones and len(rec.zones) != len(rec.value):
        return 'mixed-zone-list'      # zoned together with UTC / floating elements: one TZID for the line
    return None


def check_node(ctx, inp, built, node, scanned, parsed, path):
    """one component: the emitted lines (independent reader), then the parsed component"""
    ok = True

    def bad(kind, detail, cls=None):
        nonlocal ok
        ok = False
        ctx.violation(kind, inp, f'{path}: {detail}', cls)
    sname, slines, ssubs = scanned
    ctx.count('oracle:component:' + node.kind)
    if sname != node.kind:
        bad('emitted-nesting', f'emitted component {sname} where {node.kind} was built')
        return False
    # ---- emitted lines: names with multi-valued order, VALUE and TZID
    by_name = {}
    for name, params, value in slines:
        by_name.setdefault(name, []).append((params, value))
    want_names = {}
    for r in node.recs:
        want_names.setdefault(r.name, []).append(r)
    if sorted(by_name) != sorted(want_names) or any(len(by_name[n]) != len(want_names[n]) for n in want_names):
        bad('emitted-names', f'lines {[(n, len(v)) for n, v in sorted(by_name.items())]} vs supplied {[(n, len(v)) for n, v in sorted(want_names.items())]}')
        return False
    for name, recs in want_names.items():
        default = RFC.get(name, ('TEXT', [], False))[0]
        for rec, (params, value) in zip(recs, by_name[name]):
            cls = classify_rec(rec)
            ctx.count('oracle:value:' + rec.kind)
            if rec.zones:
                ctx.count('oracle:zoned-values')
            if any(rk in RFC_KIND.values() and rk != default for rk in rec.rfc_kinds):
                ctx.count('oracle:non-default-type')
            for rk in set(rec.rfc_kinds):
                if rk in RFC_KIND.values() and rk != default:
                    if params.get('VALUE') != [rk]:
                        c2 = 'absolute-trigger-no-value' if (name == 'TRIGGER' and rk == 'DATE-TIME') else cls
                        bad('value-param-missing', f'{name}: a {rk} value under the default {default} is written as {name}{params}:{value[:60]}', c2)
            if rec.zones and name not in UTC_FORCED:
                z = set(rec.zones)
                if len(z) == 1 and len(rec.zones) == (len(rec.value) if isinstance(rec.value, list) else 1):
                    if params.get('TZID') != [rec.zones[0]]:
                        bad('tzid-param-missing', f'{name}: value of zone {rec.zones[0]} written with TZID={params.get("TZID")}', cls)
                    elif value.endswith('Z'):
                        bad('tzid-param-missing', f'{name}: zoned value written in UTC form', cls)
                else:
                    bad('tzid-param-missing', f'{name}: values of zones {rec.zones} share one line with TZID={params.get("TZID")}', 'mixed-zone-list')
            # a line of a date-time-ish property never shows a DATE / PERIOD shaped item without saying so
            if default in ('DATE-TIME', 'DURATION', 'PERIOD') and name in RFC:
                for item in value.split(','):
                    sh = shape_of(item)
                    if sh is not None and sh != default and params.get('VALUE') != [sh]:
                        c2 = 'absolute-trigger-no-value' if (name == 'TRIGGER' and sh == 'DATE-TIME') else cls
                        bad('value-param-missing', f'{name}: item {item} has the shape of {sh}, VALUE={params.get("VALUE")}', c2)
    # ---- parsed component
    if (parsed.name or '') != node.kind:
        bad('parsed-nesting', f'parsed component {parsed.name} where {node.kind} was built')
        return False
    got_names = {}
    for k, v in parsed.items():
        got_names[k] = v
    if sorted(got_names) != sorted(want_names):
        bad('parsed-names', f'{sorted(got_names)} vs {sorted(want_names)}')
        return False
    for name, recs in want_names.items():
        pv = got_names[name]
        bv = built[name]
        if isinstance(pv, list) != isinstance(bv, list):
            cls = 'one-element-list-vs-scalar' if (isinstance(bv, list) and len(bv) == 1) else None
            bad('list-vs-scalar', f'{name}: built {"list" if isinstance(bv, list) else "single value"} of {len(recs)}, '
                                  f'parsed {"list" if isinstance(pv, list) else "single value"}', cls)
        pvals = pv if isinstance(pv, list) else [pv]
        bvals = bv if isinstance(bv, list) else [bv]
        if len(pvals) != len(recs) or len(bvals) != len(recs):
            bad('parsed-count', f'{name}: {len(pvals)} parsed / {len(bvals)} built / {len(recs)} supplied')
            continue
        for rec, p, b in zip(recs, pvals, bvals):
            cls = classify_rec(rec)
            want_params = {k.upper(): norm_param(v) for k, v in getattr(b, 'params', {}).items()}
            for k, v in rec.params.items():
                if want_params.get(k.upper()) != norm_param(v):
                    bad('supplied-param-lost', f'{name}: parameters= {k}={v!r} not on the built value ({want_params})')
            for k in getattr(rec, 'deleted', []):
                if k in want_params:
                    bad('deleted-param-kept', f'{name}: parameters= {k}=None did not delete the parameter ({want_params})')
            got_params = {k.upper(): norm_param(v) for k, v in p.params.items()}
            if got_params != want_params:
                bad('parsed-params', f'{name}: {got_params} vs {want_params}', cls)
            try:
                got = decoded_value(rec.kind, p)
            except Exception as e:  # noqa: BLE001
                got = f'<{type(e).__name__}>'
            want = rec.value
            if rec.kind == 'geo':
                want = (float(want[0]), float(want[1]))
            forced = name in UTC_FORCED
            if rec.kind == 'text':
                want = norm_text(want)      # the documented normalisation of TEXT (C07): literal \N and CRLF become LF
            if rec.kind == 'categories':
                want = [norm_text(x) for x in want]
            if rec.kind == 'recur':
                # a scalar part value and the one-element list are identified (vRecur's own normalisation)
                want = {k.upper(): (list(v) if isinstance(v, (list, tuple)) else [v]) for k, v in want.items()}
            if rec.kind == 'datelist':
                same = isinstance(got, list) and len(got) == len(want) and all(same_moment(g, w) for g, w in zip(got, want))
            else:
                same = same_moment(got, want, forced) if rec.kind in ('date', 'datetime', 'duration', 'period', 'utc-offset') else got == want
            if not same:
                bad('parsed-value', f'{name}: decoded {got!r} ({type(p).__name__}) vs supplied {want!r}', cls)
    if len(ssubs) != len(node.subs) or len(parsed.subcomponents) != len(node.subs):
        bad('nesting', f'{len(node.subs)} subcomponents built, {len(ssubs)} emitted, {len(parsed.subcomponents)} parsed')
        return False
    for i, (sn, ss, ps, bs) in enumerate(zip(node.subs, ssubs, parsed.subcomponents, built.subcomponents)):
        ok = check_node(ctx, inp, bs, sn, ss, ps, f'{path}/{sn.kind}[{i}]') and ok
    return ok


def describe(node):
    return {'kind': node.kind, 'props': [(r.name, r.kind, repr(r.value)[:120], r.params) for r in node.recs],
            'subs': [describe(s) for s in node.subs]}


def tzname_has_params(node):
    return any(r.name == 'TZNAME' and r.params for r in node.recs) or any(tzname_has_params(s) for s in node.subs)


def roundtrip_case(ctx, tree_seed, label, kind='VCALENDAR'):
    """one random tree, a function of (tree_seed, provider, kind) only, so that a replay rebuilds it"""
    import random

    import icalendar
    rng = random.Random(tree_seed)
    c, node = build_oracle_tree(rng, kind)
    inp = {'tree_seed': tree_seed, 'tree_kind': kind, 'provider': label, 'tree': describe(node)}
    ctx.evaluated(('rt', label, repr(inp['tree'])), nontrivial=bool(node.recs or node.subs))
    try:
        data = c.to_ical()
    except Exception as e:  # noqa: BLE001
        ctx.violation('to_ical-raises', inp, f'{type(e).__name__}: {e}')
        return
    inp['ical'] = data.decode('utf-8', 'replace')[:3000]
    try:
        parsed = icalendar.Component.from_ical(data)
    except Exception as e:  # noqa: BLE001
        cls = 'tzname-param-rejected' if (label == 'zoneinfo' and 'TZNAME parm' in str(e) and tzname_has_params(node)) else None
        ctx.violation('from_ical-raises', inp, f'{type(e).__name__}: {e}', cls)
        return
    scanned = scan_tree(scan_lines(data))
    if len(scanned) != 1:
        ctx.violation('emitted-nesting', inp, f'{len(scanned)} top-level components emitted')
        return
    check_node(ctx, inp, c, node, scanned[0], parsed, node.kind)
    # the other serialisation order carries the same tree (every depth)
    try:
        from harness.trees import canon_tree, tree_of
        pu = icalendar.Component.from_ical(c.to_ical(sorted=False))
        if canon_tree(tree_of(pu)) != canon_tree(tree_of(parsed)):
            ctx.violation('unsorted-serialisation-differs', inp, 'parsing to_ical(sorted=False) gives another tree than parsing to_ical()')
    except Exception as e:  # noqa: BLE001
        ctx.violation('unsorted-serialisation-raises', inp, f'{type(e).__name__}: {e}')


# ---- clause 2: every RFC 5545 property name decodes with the RFC type -----------------------------------

TYPE_SAMPLES = {
    'TEXT': ('a\\, b\\;c\\\\d\\nE', 'a, b;c\\d\nE'), 'URI': ('https://example.com/a?b=c', 'https://example.com/a?b=c'),
    'CAL-ADDRESS': ('mailto:jane@example.com', 'mailto:jane@example.com'), 'INTEGER': ('-17', -17),
    'FLOAT': ('37.386013;-122.082932', (37.386013, -122.082932)), 'DATE-TIME': ('19970714T173000Z', datetime(1997, 7, 14, 17, 30, tzinfo=timezone.utc)),
    'DATE': ('19970714', date(1997, 7, 14)), 'DURATION': ('-P1DT2H3M4S', -timedelta(days=1, hours=2, minutes=3, seconds=4)),
    'PERIOD': ('19970101T180000Z/PT5H30M', (datetime(1997, 1, 1, 18, tzinfo=timezone.utc), timedelta(hours=5, minutes=30))),
    'UTC-OFFSET': ('-0500', timedelta(hours=-5)), 'RECUR': ('FREQ=WEEKLY;COUNT=4;BYDAY=MO,-1SU', {'FREQ': ['WEEKLY'], 'COUNT': [4], 'BYDAY': ['MO', '-1SU']}),
    'BINARY': ('aGVsbG8=', b'hello'),
}


def typed_python_value(v):
    """the Python value a parsed value object stands for, by its own class"""
    from icalendar.prop import (vBinary, vCalAddress, vCategory, vDDDLists, vDDDTypes, vGeo, vInt, vPeriod, vRecur, vText, vUri, vUTCOffset)
    if isinstance(v, vDDDLists):
        return [x.dt for x in v.dts]
    if isinstance(v, vPeriod):
        return (v.start, v.duration if v.by_duration else v.end)
    if isinstance(v, vDDDTypes):
        return v.dt
    if isinstance(v, vCategory):
        return [str(c) for c in v.cats]
    if isinstance(v, vGeo):
        return (v.latitude, v.longitude)
    if isinstance(v, vUTCOffset):
        return v.td
    if isinstance(v, vRecur):
        return {k: [str(x) if isinstance(x, str) else x for x in vals] for k, vals in v.items()}
    if isinstance(v, vInt):
        return int(v)
    if isinstance(v, vBinary):
        return v.obj
    if isinstance(v, (vText, vUri, vCalAddress)):
        return str(v)
    return v


def types_clause(ctx):
    import icalendar
    from icalendar.cal import types_factory
    for name, (default, alts, multi) in RFC.items():
        cls = types_factory.for_property(name).__name__
        ctx.evaluated(('types', name))
        if default not in CLASS_TYPES.get(cls, []):
            ctx.violation('rfc-type', {'name': name}, f'{name} (RFC default {default}) is handled by {cls}, which reads {CLASS_TYPES.get(cls)}')
        for t in [default] + alts:
            text, want = TYPE_SAMPLES[t]
            line = name + (f';VALUE={t}' if t != default else '') + (';ENCODING=BASE64' if t == 'BINARY' else '') + ':' + text
            data = ('BEGIN:VCALENDAR\r\nBEGIN:X-HOLDER\r\n' + line + '\r\nEND:X-HOLDER\r\nEND:VCALENDAR\r\n').encode()
            inp = {'name': name, 'type': t, 'line': line}
            ctx.evaluated(('types', name, t))
            try:
                comp = icalendar.Component.from_ical(data).subcomponents[0]
                got = typed_python_value(comp[name])
            except Exception as e:  # noqa: BLE001
                ctx.violation('rfc-type-decode', inp, f'{type(e).__name__}: {e}')
                continue
            w = want
            if multi and not isinstance(got, list):
                pass
            if isinstance(got, list) and not isinstance(w, list):
                w = [w]
            if name in ('CATEGORIES',) and t == 'TEXT':
                w = ['a, b;c\\d\nE']
            okv = (isinstance(got, list) and isinstance(w, list) and len(got) == len(w) and all(same_moment(g, x) for g, x in zip(got, w))) \
                if isinstance(w, list) else same_moment(got, w)
            if not okv:
                cls2 = 'value-param-ignored-on-parse' if t == 'BINARY' else None
                ctx.violation('rfc-type-decode', inp, f'{line} decodes to {got!r} ({type(comp[name]).__name__}), the RFC value is {w!r}', cls2)


# ---- known-finding witnesses (deterministic, run first) --------------------------------------------------

def witness_tree(ctx, label, kind, build, recs):
    """a one-component tree built by `build(component)`; `recs` is what was supplied"""
    import icalendar
    c = new_component(kind)
    build(c)
    node = Node(kind)
    node.recs = recs
    inp = {'witness': label, 'tree': describe(node)}
    ctx.evaluated(('witness', label))
    data = c.to_ical()
    inp['ical'] = data.decode()
    parsed = icalendar.Component.from_ical(data)
    check_node(ctx, inp, c, node, scan_tree(scan_lines(data))[0], parsed, kind)


def witnesses(ctx):
    from icalendar import vBinary, vBoolean
    from icalendar.timezone import tzp
    t = datetime(2020, 1, 1, 12, 0, 0, tzinfo=timezone.utc)
    witness_tree(ctx, 'absolute-trigger-no-value', 'VALARM', lambda c: c.add('trigger', t),
                 [Rec('TRIGGER', 'datetime', t, {}, ['DATE-TIME'], [])])
    a, b = tzp.localize(datetime(2020, 1, 1, 12), 'Europe/Berlin'), tzp.localize(datetime(2020, 1, 2, 12), 'America/New_York')
    witness_tree(ctx, 'mixed-zone-list', 'VEVENT', lambda c: c.add('rdate', [a, b]),
                 [Rec('RDATE', 'datelist', [a, b], {}, ['DATE-TIME'], ['Europe/Berlin', 'America/New_York'])])
    witness_tree(ctx, 'one-element-list-vs-scalar', 'VEVENT', lambda c: c.add('comment', ['x']),
                 [Rec('COMMENT', 'text', 'x', {}, ['TEXT'], [], listed=True)])
    witness_tree(ctx, 'value-unescape-nontext', 'VEVENT', lambda c: c.add('url', 'https://example.com/a\\,b?x=50%2C'),
                 [Rec('URL', 'uri', 'https://example.com/a\\,b?x=50%2C', {}, ['URI'], [])])
    witness_tree(ctx, 'value-param-ignored-on-parse', 'VEVENT', lambda c: c.add('attach', vBinary('hello')),
                 [Rec('ATTACH', 'binary', b'hello', {}, ['BINARY'], [])])
    witness_tree(ctx, 'value-param-ignored-on-parse/boolean', 'VEVENT', lambda c: c.add('x-flag', vBoolean(True), parameters={'VALUE': 'BOOLEAN'}),
                 [Rec('X-FLAG', 'bool', True, {'VALUE': 'BOOLEAN'}, ['BOOLEAN'], [])])


def fixed_trees(ctx):
    """hand-picked trees that must simply round-trip (no finding attached): repeated properties whose first value
    is empty or zero, values on GMT that are not UTC"""
    from icalendar.timezone import tzp
    def rep(c):
        c.add('comment', '')
        c.add('comment', 'second')
        c.add('comment', '')
    witness_tree(ctx, 'fixed:empty-first-repeat', 'VEVENT', rep,
                 [Rec('COMMENT', 'text', '', {}, ['TEXT'], []), Rec('COMMENT', 'text', 'second', {}, ['TEXT'], []),
                  Rec('COMMENT', 'text', '', {}, ['TEXT'], [])])
    def rep0(c):
        c.add('x-count', '0')
        c.add('x-count', '7')
    witness_tree(ctx, 'fixed:zero-first-repeat', 'VTODO', rep0,
                 [Rec('X-COUNT', 'text', '0', {}, ['TEXT'], []), Rec('X-COUNT', 'text', '7', {}, ['TEXT'], [])])
    for zone, mo in (('Europe/London', 1), ('Africa/Abidjan', 7), ('Atlantic/Reykjavik', 3), ('Europe/London', 7)):
        v = tzp.localize(datetime(2025, mo, 15, 9, 30), zone)
        witness_tree(ctx, f'fixed:gmt-zone:{zone}:{mo}', 'VEVENT', lambda c, v=v: c.add('dtstart', v),
                     [Rec('DTSTART', 'datetime', v, {}, ['DATE-TIME'], [zone])])


def own_zone_trees(ctx):
    """a calendar built through the API that carries its own VTIMEZONE (ids with and without slashes, X- properties
    inside the observances) and values in that zone: written with that TZID, read back with the zone's offset, and
    every property of the VTIMEZONE still there"""
    import icalendar
    from icalendar import Calendar, Event
    from harness.props.C01 import OWN_ZONE
    for prov in ('zoneinfo', 'pytz'):
        for tzid in (b'Verif/Own-C', b'/verif.example/Own/D', b'Verif/Own-E/'):
            getattr(icalendar, 'use_' + prov)()
            try:
                inp = {'witness': 'own-zone', 'provider': prov, 'tzid': tzid.decode()}
                ctx.evaluated(('own-zone', prov, tzid))
                vtz = Calendar.from_ical(OWN_ZONE % (tzid, tzid)).walk('VTIMEZONE')[0]
                for obs in vtz.subcomponents:
                    obs.add('x-api-note', 'added through the API')         # X- properties inside the observances
                vtz.add('x-api-zone-note', 'n')
                names_before = sorted((c.name, k) for c in vtz.walk() for k in c.keys())
                if sum(1 for _, k in names_before if k == 'X-API-NOTE') != 2:
                    ctx.violation('own-zone-properties', inp, f'add() on the observances did not store the properties: {names_before}')
                getattr(icalendar, 'use_' + prov)()          # the provider forgets the zone; the API builds it again
                tz = vtz.to_tz()
                cal = Calendar()
                cal.add('prodid', '-//verif//EN')
                cal.add('version', '2.0')
                cal.add_component(vtz)
                for mo in (1, 7):
                    naive = datetime(2024, mo, 15, 12, 30)
                    d = tz.localize(naive) if hasattr(tz, 'localize') else naive.replace(tzinfo=tz)
                    e = Event()
                    e.add('uid', 'o%d' % mo)
                    e.add('dtstart', d)
                    e.add('rdate', [d])
                    cal.add_component(e)
                    data = cal.to_ical()
                    back = Calendar.from_ical(data)
                    ev = back.walk('VEVENT')[-1]
                    for name, v, p in (('DTSTART', ev['DTSTART'].dt, ev['DTSTART'].params), ('RDATE', ev['RDATE'].dts[0].dt, ev['RDATE'].params)):
                        if p.get('TZID') != tzid.decode() or v.replace(tzinfo=None) != naive or v.utcoffset() != d.utcoffset():
                            ctx.violation('own-zone-value', dict(inp, ical=data.decode()),
                                          f'{name} {d!r} (offset {d.utcoffset()}) read back as {v!r} (offset {v.utcoffset()}), TZID={p.get("TZID")!r}')
                    names_after = sorted((c.name, k) for c in back.walk('VTIMEZONE')[0].walk() for k in c.keys())
                    if names_after != names_before:
                        ctx.violation('own-zone-properties', dict(inp, ical=data.decode()),
                                      f'the VTIMEZONE read back has properties {names_after}, built with {names_before}')
            except Exception as ex:  # noqa: BLE001
                ctx.violation('own-zone-error', inp, f'{type(ex).__name__}: {ex}')
            finally:
                icalendar.use_zoneinfo()


def check_last_set_wins(ctx):
    """a property setter replaces the value: after `c.X = a; c.X = b` the component serialises exactly like a
    fresh component on which only `c.X = b` was done (same VALUE / TZID parameters, same text), and a value
    never carries parameters that were given to, or derived for, another value"""
    from datetime import date, datetime, timedelta, timezone
    from zoneinfo import ZoneInfo
    from icalendar import Alarm, Event, Journal, Todo
    vals = [('date', date(2024, 5, 1)), ('naive', datetime(2024, 5, 1, 10, 30)),
            ('utc', datetime(2024, 5, 1, 10, 30, tzinfo=timezone.utc)),
            ('berlin', datetime(2024, 5, 1, 10, 30, tzinfo=ZoneInfo('Europe/Berlin'))),
            ('ny', datetime(2024, 5, 1, 10, 30, tzinfo=ZoneInfo('America/New_York')))]
    targets = [(Event, 'DTSTART'), (Event, 'DTEND'), (Event, 'start'), (Event, 'end'), (Todo, 'DTSTART'), (Todo, 'DUE'),
               (Todo, 'end'), (Journal, 'DTSTART')]
    for cls, attr in targets:
        for la, a in vals:
            for lb, b in vals:
                if la == lb:
                    continue
                ctx.evaluated(('set-twice', cls.__name__, attr, la, lb))
                c1, c2 = cls(), cls()
                try:
                    setattr(c1, attr, a)
                    setattr(c1, attr, b)
                    setattr(c2, attr, b)
                    b1, b2 = c1.to_ical(), c2.to_ical()
                except Exception as e:  # noqa: BLE001
                    ctx.violation('setter-history', {'case': [cls.__name__, attr, la, lb]}, f'{type(e).__name__}: {e}')
                    continue
                if b1 != b2:
                    ctx.violation('setter-history', {'case': [cls.__name__, attr, la, lb]},
                                  f'{cls.__name__}.{attr} = {la}; = {lb} serialises as {b1!r}, but setting only the {lb} value gives {b2!r}')
    # alarm TRIGGER: duration after datetime and vice versa
    for seq in ([timedelta(minutes=-5), datetime(2024, 5, 1, 10, tzinfo=timezone.utc)], [datetime(2024, 5, 1, 10, tzinfo=timezone.utc), timedelta(minutes=-5)]):
        a1, a2 = Alarm(), Alarm()
        ctx.evaluated(('set-twice-trigger', repr(seq)))
        a1.TRIGGER = seq[0]
        a1.TRIGGER = seq[1]
        a2.TRIGGER = seq[1]
        if a1.to_ical() != a2.to_ical():
            ctx.violation('setter-history', {'case': ['Alarm', 'TRIGGER', repr(seq)]}, f'{a1.to_ical()!r} vs {a2.to_ical()!r}')
    # values built one after the other do not share parameters
    ctx.evaluated(('param-sharing',))
    try:
        e = Event()
        e.add('dtstart', date(2024, 1, 1), parameters={'X-ORIGIN': 'import'})
        e.add('dtend', date(2024, 1, 2))
        f = Event()
        f.add('exdate', [date(2024, 2, 1)])
        g = Event()
        g.add('due', date(2024, 3, 1))
        shared = [(name, dict(comp[name].params)) for comp, name in ((e, 'DTEND'), (f, 'EXDATE'), (g, 'DUE'))
                  if set(k.upper() for k in comp[name].params) - {'VALUE'}]
        if shared:
            ctx.violation('parameter-shared', {'case': shared[0][0]},
                          f'{shared[0][0]} carries a parameter that was given to another value: {shared[0][1]}')
        if e.to_ical().count(b'X-ORIGIN') != 1:
            ctx.violation('parameter-shared', {'case': 'bytes'}, f'X-ORIGIN was given to DTSTART only: {e.to_ical()!r}')
    except Exception as ex:  # noqa: BLE001
        ctx.violation('parameter-shared', {'case': 'exception'},
                      f'building three independent DATE values failed with {type(ex).__name__}: {ex} (state shared between values?)')


def oracle(ctx):
    import icalendar
    try:
        icalendar.use_zoneinfo()
        check_last_set_wins(ctx)
        witnesses(ctx)
        fixed_trees(ctx)
        own_zone_trees(ctx)
        types_clause(ctx)
        for provider in ('zoneinfo', 'pytz'):
            if provider == 'pytz':
                icalendar.use_pytz()
            else:
                icalendar.use_zoneinfo()
            n = ctx.vol(3000 if provider == 'zoneinfo' else 1200, 10)
            for i in range(n):
                if ctx.time_left() < 20:
                    ctx.notes.append(f'oracle stopped early at {provider}:{i} (time budget)')
                    break
                roundtrip_case(ctx, f'{ctx.seed}:{provider}:{i}', provider, 'VCALENDAR' if i % 4 else COMP_KINDS[1 + (i // 4) % (len(COMP_KINDS) - 1)])
    finally:
        icalendar.use_zoneinfo()


def replay(ctx, data):
    """re-run the deterministic parts and every witness; a random tree is re-found by its seed"""
    import icalendar
    inp = data.get('input', {})
    if 'tree_seed' in inp:
        try:
            getattr(icalendar, 'use_' + inp.get('provider', 'zoneinfo'))()
            roundtrip_case(ctx, inp['tree_seed'], inp.get('provider', 'zoneinfo'), inp.get('tree_kind', 'VCALENDAR'))
        finally:
            icalendar.use_zoneinfo()
    else:
        icalendar.use_zoneinfo()
        witnesses(ctx)
        types_clause(ctx)
        crosscheck_tables(ctx)
    want = (data.get('kind'), data.get('class'))
    hits = [v for v in ctx.violations if (v['kind'], v['cls']) == want]
    for v in hits[:3]:
        print('REPRODUCED', v['kind'], v['detail'][:300], 'class=', v['cls'])
    if not hits:
        print('not reproduced on the current tree')
    return 1 if hits else 0
