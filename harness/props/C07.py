"""C07 - TEXT escaping is lossless for every string: alone, as property, in lists."""
from harness import gen
from harness.proto import enc, encl, dec, decl, has_surrogate

LEAN = ['ICal.Props.C07']
LEVEL = 'proof'
FINGERPRINTS = ['parser.escape_char', 'parser.unescape_char', 'parser.split_on_unescaped_comma',
                'parser.Contentline.raw_value', 'parser.Contentline.parts', 'parser.Contentline.from_parts']
RULE = ('exhaustive strings up to length 4 (quick: all ops up to 3, codec ops up to 4) over the critical alphabet '
        '{\\ n N ; , : " % 2 C CR LF SP a}, then seeded random strings up to 200 characters with multi-octet '
        'characters; a case is non-trivial when it contains at least one character that the codec treats specially')
ASSUMPTIONS = ['encoding argument is UTF-8 (other encodings are outside the model)',
               'strings with lone surrogates cannot be UTF-8 encoded and are treated as refused']

SPECIAL = set('\\;,\r\nN')


def norm(s):
    return s.replace('\\N', '\n').replace('\r\n', '\n')


def token_scan(t):
    """the escaped-token language of the encoded form"""
    i = 0
    while i < len(t):
        c = t[i]
        if c == '\\':
            if i + 1 >= len(t) or t[i + 1] not in '\\;,n':
                return False
            i += 2
        elif c in ';,\n':
            return False
        else:
            i += 1
    return True


def strings(ctx, exhaustive_len):
    for s in gen.all_strings(gen.TEXT_ALPHABET, exhaustive_len):
        yield s
    for _ in range(ctx.vol(6000)):
        yield gen.rand_text(ctx.rng)


def correspondence(ctx):
    from icalendar.parser import escape_char, unescape_char, split_on_unescaped_comma
    from icalendar.prop import vCategory
    deep = 4
    for s in strings(ctx, deep):
        if has_surrogate(s):
            continue
        nt = bool(SPECIAL & set(s))
        ctx.corr('esc', [enc(s)], enc(escape_char(s)), nt)
        ctx.corr('unesc', [enc(s)], enc(unescape_char(s)), nt)
        if len(s) <= 3 or ctx.rng.random() < 0.2:
            ctx.corr('split_uc', [enc(s)], encl(split_on_unescaped_comma(s)), nt)
            ctx.corr('cats_from', [enc(s)], encl(vCategory.from_ical(s)), nt)
    # bytes branch of unescape_char must agree with the str branch
    for s in gen.all_strings(gen.TEXT_ALPHABET, 3):
        b = unescape_char(s.encode('utf-8')).decode('utf-8')
        ctx.corr('unesc', [enc(s)], enc(b), True)
    for _ in range(ctx.vol(3000)):
        xs = [gen.rand_text(ctx.rng, 12) for _ in range(ctx.rng.randint(1, 4))]
        if any(has_surrogate(x) for x in xs):
            continue
        ctx.corr('cats_to', [encl(xs)], enc(vCategory(xs).to_ical().decode('utf-8')), True)


def check_direct(ctx, s):
    from icalendar.prop import vText
    try:
        t = vText(s).to_ical().decode('utf-8')
        back = str(vText.from_ical(t))
    except UnicodeEncodeError:
        return
    if back != norm(s):
        ctx.violation('direct-roundtrip', {'s': s}, f'decoded {back!r}, expected {norm(s)!r}', cls_direct(s))
    if '\n' in t or not token_scan(t):
        ctx.violation('encoded-form', {'s': s}, f'encoded form {t!r} has a raw line break or an unescaped ; or ,')


def cls_direct(s):
    return None


PROP_NAMES = ['summary', 'x-note', 'description', 'color', 'X-ALT-DESC']       # registered and unregistered TEXT names
PROP_PARAMS = [None, {'LANGUAGE': 'en'}, {'X-OWNER': 'Doe\\, John'}, {'ALTREP': 'file:///c:\\dir\\;x', 'X-Q': 'a\\:b'}]


def check_property(ctx, s, name='summary', params=None):
    from icalendar import Event
    e = Event()
    e.add(name, s, parameters=dict(params) if params else None)
    try:
        b = e.to_ical()
    except (UnicodeEncodeError, AssertionError):
        return
    try:
        e2 = Event.from_ical(b)
        back = str(e2[name]) if name in e2 else None
    except ValueError as ex:
        back = f'<ValueError {ex}>'
    if back != norm(s):
        ctx.violation('property-roundtrip', {'s': s, 'name': name, 'params': params},
                      f'{name.upper()} (parameters {params}) read back as {back!r}, expected {norm(s)!r}')


def check_property_variants(ctx, s):
    """the same text under registered and unregistered TEXT property names, with and without parameters
    (parameters whose values hold backslash sequences change where the value starts in the escaped copy)"""
    for name in PROP_NAMES:
        for params in PROP_PARAMS:
            check_property(ctx, s, name, params)


def check_cats(ctx, xs):
    from icalendar import Event
    from icalendar.prop import vCategory
    want = [norm(x) for x in xs]
    t = vCategory(xs).to_ical().decode('utf-8')
    got = [str(x) for x in vCategory.from_ical(t)]
    if got != want:
        ctx.violation('categories-direct', {'items': xs}, f'items read back as {got!r}, expected {want!r}')
    e = Event()
    e.add('categories', xs)
    try:
        e2 = Event.from_ical(e.to_ical())
        got2 = [str(c) for c in e2['CATEGORIES'].cats]
    except ValueError as ex:
        got2 = f'<ValueError {ex}>'
    if got2 != want:
        ctx.violation('categories-property', {'items': xs}, f'CATEGORIES read back as {got2!r}, expected {want!r}')


CORPUS = ['\\n', '\\', 'a\\,b', '\\\\', '\\;', '50%2C', 'a\r\nb', '\\N', 'x\\', '%5C', '\\:', 'a:b"c', ',', ';', '\r', '\r\r\n']


def oracle(ctx):
    seen = 0
    for s in CORPUS:
        ctx.evaluated(('c', s))
        check_direct(ctx, s)
        check_property(ctx, s)
        check_property_variants(ctx, s)
        check_cats(ctx, [s, 'k'])
        check_cats(ctx, ['k', s])
    depth = 4 if (ctx.tier == 'thorough' or ctx.escalate) else 3
    for s in gen.all_strings(gen.TEXT_ALPHABET, depth):
        ctx.evaluated(('s', s), bool(SPECIAL & set(s)))
        check_direct(ctx, s)
        if len(s) <= 3:
            check_property(ctx, s)
            if len(s) <= 2:
                check_property_variants(ctx, s)
            if len(s) <= 2:
                check_cats(ctx, [s, 'k'])
                check_cats(ctx, [s])
    # pure-ASCII values whose escape sequences slide across every fold alignment of the property line
    for k in range(40, 170):
        for special in ('\n', ',', ';', '\\', '\\n'):
            s = 'a' * k + special + 'b' * 9
            ctx.evaluated(('slide', k, special))
            check_property(ctx, s)
            if k % 7 == 0:
                check_cats(ctx, [s, 'k' * 70 + special])
    for _ in range(ctx.vol(300)):
        s = ''.join(ctx.rng.choice('ab\\,;n:\n ') for _ in range(ctx.rng.randint(50, 260)))
        ctx.evaluated(('ascii', s))
        check_property(ctx, s)
    for _ in range(ctx.vol(1500)):
        s = gen.rand_text(ctx.rng)
        if has_surrogate(s):
            continue
        ctx.evaluated(('s', s))
        check_direct(ctx, s)
        check_property(ctx, s)
        check_property(ctx, s, ctx.rng.choice(PROP_NAMES), ctx.rng.choice(PROP_PARAMS))
        xs = [gen.rand_text(ctx.rng, 10) for _ in range(ctx.rng.randint(1, 4))]
        if not any(has_surrogate(x) for x in xs):
            ctx.evaluated(('l', tuple(xs)))
            check_cats(ctx, xs)


def replay(ctx, data):
    inp = data['input']
    if 's' in inp:
        check_direct(ctx, inp['s'])
        check_property(ctx, inp['s'], inp.get('name', 'summary'), inp.get('params'))
    if 'items' in inp:
        check_cats(ctx, inp['items'])
    for v in ctx.violations:
        print('REPRODUCED', v['kind'], v['detail'])
    if not ctx.violations:
        print('not reproduced on the current tree')
    return 1 if ctx.violations else 0
