"""C17 - components and parameter maps are dicts keyed by upper-cased names."""
import itertools
from collections import OrderedDict

from harness.proto import enc, encl

LEAN = ['ICal.Props.C17']
LEVEL = 'proof'
FINGERPRINTS = ['caselessdict.', 'parser_tools.to_unicode']
RULE = ('every operation sequence of length <= 2 (thorough: <= 3; quick: 3 sampled) over 108 calls = every mapping '
        'operation x keys {a A b B ab Ab} (plus constructor / update / merge / equality argument lists with case '
        'collisions), keys passed as str, as bytes and alternating, on CaselessDict, Parameters and Component '
        '(and subclasses of each that declare a canonical_order with a repeated name); then seeded random sequences '
        'of length 30 with random values; result, kind of exception and list(d.keys()) compared after every step. '
        'A case is non-trivial when some key argument is not already upper-case')
ASSUMPTIONS = [
    'up(up(k)) == up(k) for up = str.upper: hypothesis of the theorems, checked each run for every code point',
    'keys are str or UTF-8 bytes; the driver folds ASCII only and the generators keep names ASCII (RFC 5545 names are)',
    'values are compared with ==; the harness uses small ints and never stores None',
    'equality of a Component is checked against components of the same kind only: C20 requires False for '
    'non-components (Component.__eq__ returns NotImplemented, the reflected dict comparison then decides)',
    'mutation during the re-keying loop of __init__ is modelled on a snapshot; the loop is proved to be a no-op',
]

KEYS = ['a', 'A', 'b', 'B', 'ab', 'Ab']
ORDER = ('B', 'AB', 'a', 'B')      # declared order of the harness subclasses: a repeated and a lower-case name

_CLASSES = None


def classes():
    global _CLASSES
    if _CLASSES is None:
        from icalendar.caselessdict import CaselessDict
        from icalendar.parser import Parameters
        from icalendar.cal import Component, Event
        _CLASSES = {
            'CaselessDict': CaselessDict, 'Parameters': Parameters, 'Component': Component, 'Event': Event,
            'CaselessDict+order': type('CaselessDictO', (CaselessDict,), {'canonical_order': ORDER}),
            'Parameters+order': type('ParametersO', (Parameters,), {'canonical_order': ORDER}),
            'Component+order': type('ComponentO', (Component,), {'canonical_order': ORDER}),
        }
    return _CLASSES


def is_component(cls):
    from icalendar.cal import Component
    return issubclass(cls, Component)


# ------------------------------------------------------------------ operations
# an op is a tuple (name, *args) of JSON-friendly values; keys are str; `flavour` decides how a key is passed

PAIRLISTS = [
    [('a', 1), ('A', 2)],
    [('b', 3), ('ab', 4), ('B', 5)],
    [('Ab', 6), ('a', 7), ('b', 3)],
]


def catalogue():
    ops = []
    for k in KEYS:
        ops += [('getitem', k), ('setitem', k, 1), ('delitem', k), ('contains', k), ('haskey', k),
                ('get', k, None), ('get', k, 7), ('setdefault', k, 2), ('pop', k, None), ('pop', k, 7),
                ('mte', k, 1), ('mte', k, 0)]
    ops += [(n,) for n in ('popitem', 'copy', 'keys', 'values', 'items', 'len', 'clear', 'reversed',
                           'sortedkeys', 'sorteditems')]
    forms = ['pairs', 'dict', 'kw']
    ops.append(('init', [], 'pairs'))
    for i, pl in enumerate(PAIRLISTS):
        ops.append(('init', pl, forms[i % 3]))
        ops.append(('update', pl, forms[(i + 1) % 3]))
        ops.append(('or', pl, ['dict', 'odict', 'cd'][i % 3]))
        ops.append(('ior', pl, ['pairs', 'dict', 'cd'][i % 3]))
        ops.append(('ror', pl, 'dict'))
    for i, pl in enumerate(PAIRLISTS):
        ops.append(('eq', pl, ['dict', 'odict', 'cd'][i % 3]))
    ops += [('eqself', 'lower-reversed'), ('eqself', 'one-value-changed'), ('eqself', 'one-dropped'),
            ('neself', 'swapcase'), ('neself', 'one-value-changed')]
    ops += [('fromkeys', ['a', 'A', 'b'], 3), ('fromkeys', ['ab'], 3)]
    return ops


def rand_pairs(rng):
    return [(rng.choice(KEYS), rng.randint(0, 9)) for _ in range(rng.randint(0, 4))]


def rand_op(rng):
    r = rng.random()
    k = rng.choice(KEYS)
    v = rng.randint(0, 9)
    if r < 0.55:
        name = rng.choice(['getitem', 'setitem', 'setitem', 'delitem', 'contains', 'haskey', 'get', 'get',
                           'setdefault', 'pop', 'pop', 'mte'])
        if name in ('setitem', 'setdefault'):
            return (name, k, v)
        if name in ('get', 'pop'):
            return (name, k, rng.choice([None, v]))
        if name == 'mte':
            return (name, k, rng.randint(0, 1))
        return (name, k)
    if r < 0.70:
        return (rng.choice(['popitem', 'copy', 'keys', 'values', 'items', 'len', 'reversed', 'sortedkeys',
                            'sorteditems', 'clear' if rng.random() < 0.2 else 'len']),)
    if r < 0.88:
        name = rng.choice(['init', 'update', 'update', 'or', 'ior', 'ror', 'eq'])
        form = {'init': ['pairs', 'dict', 'kw', 'mix'], 'update': ['pairs', 'dict', 'kw', 'mix'],
                'or': ['dict', 'odict', 'cd'], 'ior': ['pairs', 'dict', 'cd'], 'ror': ['dict'],
                'eq': ['dict', 'odict', 'cd']}[name]
        return (name, rand_pairs(rng), rng.choice(form))
    if r < 0.96:
        return (rng.choice(['eqself', 'neself']),
                rng.choice(['lower-reversed', 'one-value-changed', 'one-dropped', 'swapcase']))
    return ('fromkeys', [rng.choice(KEYS) for _ in range(rng.randint(0, 3))], v)


class Flav:
    """how keys reach the implementation: 'str', 'bytes', or 'mixed' (alternating per occurrence)"""

    def __init__(self, kind):
        self.kind = kind
        self.n = 0

    def __call__(self, k):
        self.n += 1
        if self.kind == 'bytes' or (self.kind == 'mixed' and self.n % 2 == 0):
            return k.encode('utf-8')
        return k


def U(k):
    if isinstance(k, bytes):
        k = k.decode('utf-8')
    return k.upper()


def raw(k):
    return k.decode('utf-8') if isinstance(k, bytes) else k


def encpairs(pairs):
    return str(len(pairs)) + ''.join('|' + enc(raw(k)) + '=' + str(v) for k, v in pairs)


def err_name(e):
    if isinstance(e, KeyError):
        return 'eKeyError'
    if isinstance(e, TypeError):
        return 'eTypeError'
    return 'eOther:' + type(e).__name__


def mapping_of(kind, pairs, cls, fl):
    """a mapping (or pair list) of the requested kind and the (raw key, value) pairs the callee will see"""
    from icalendar.caselessdict import CaselessDict
    kp = [(fl(k), v) for k, v in pairs]
    if kind == 'pairs':
        return kp, kp
    if kind == 'dict':
        m = dict(kp)
    elif kind == 'odict':
        m = OrderedDict(kp)
    elif kind == 'cd':
        m = CaselessDict(kp)
    elif kind == 'same':
        m = cls(kp)
    else:
        raise ValueError(kind)
    return m, list(m.items())


def self_variant(d, mode):
    items = list(d.items())
    if mode == 'lower-reversed':
        return [(k.lower(), v) for k, v in reversed(items)]
    if mode == 'swapcase':
        return [(k[:1].lower() + k[1:], v) for k, v in items]
    if mode == 'one-value-changed':
        return [(k, v + 1 if i == 0 else v) for i, (k, v) in enumerate(items)]
    if mode == 'one-dropped':
        return items[1:]
    raise ValueError(mode)


def order_of(cls):
    return list(cls.canonical_order or [])


def resolve(cls, d, op, fl):
    """Turn an op into the concrete call: returns (cop, thunk).
    cop = the op as the callee sees it (decoded keys, the pairs actually iterated; eqself resolved);
    thunk() performs it on the real object and returns (d', python value)."""
    name = op[0]
    comp = is_component(cls)
    if name in ('init', 'update'):
        pairs, form = op[1], op[2]
        if form in ('kw', 'mix'):
            cut = len(pairs) // 2 if form == 'mix' else 0
            head = [(fl(k), v) for k, v in pairs[:cut]]
            kw = dict(pairs[cut:])
            seen = head + list(kw.items())
            args = [head] if form == 'mix' else []
        else:
            m, seen = mapping_of(form, pairs, cls, fl)
            args, kw = [m], {}
        cop = (name, [(raw(k), v) for k, v in seen])
        if name == 'init':
            return cop, lambda: (cls(*args, **kw), None)

        def do_update():
            d.update(*args, **kw)
            return d, None
        return cop, do_update
    if name in ('or', 'ior', 'ror', 'eq', 'ne', 'eqself', 'neself'):
        if name in ('eqself', 'neself'):
            pairs = self_variant(d, op[1])
            name = 'eq' if name == 'eqself' else 'ne'
            kind = ['dict', 'odict', 'cd'][len(pairs) % 3]
        else:
            pairs, kind = op[1], op[2]
        if name in ('eq', 'ne') and comp:
            kind = 'same'
        m, seen = mapping_of(kind, pairs, cls, fl)
        cop = (name, [(raw(k), v) for k, v in seen])
        if name == 'or':
            return cop, lambda: (d | m, None)
        if name == 'ror':
            return cop, lambda: (m | d, None)
        if name == 'eq':
            return cop, lambda: (d, d == m)
        if name == 'ne':
            return cop, lambda: (d, d != m)

        def do_ior():
            x = d
            x |= m
            return x, None
        return cop, do_ior
    if name == 'fromkeys':
        ks = [fl(k) for k in op[1]]
        return (name, [raw(k) for k in ks], op[2]), lambda: (type(d).fromkeys(ks, op[2]), None)
    if name == 'sortedkeys':
        return (name, order_of(cls)), lambda: (d, d.sorted_keys())
    if name == 'sorteditems':
        return (name, order_of(cls)), lambda: (d, d.sorted_items())
    if len(op) == 1:
        f = {
            'popitem': lambda: (d, d.popitem()),
            'copy': lambda: (d.copy(), None),
            'keys': lambda: (d, list(d.keys())),
            'values': lambda: (d, list(d.values())),
            'items': lambda: (d, list(d.items())),
            'len': lambda: (d, len(d)),
            'clear': lambda: (d, d.clear()),
            'reversed': lambda: (d, list(reversed(d))),
        }[name]
        return op, f
    k = fl(op[1])
    cop = (name, raw(k)) + tuple(op[2:])
    if name == 'getitem':
        return cop, lambda: (d, d[k])
    if name == 'contains':
        return cop, lambda: (d, k in d)
    if name == 'haskey':
        return cop, lambda: (d, d.has_key(k))
    if name == 'get':
        return cop, lambda: (d, d.get(k) if op[2] is None else d.get(k, op[2]))
    if name == 'setdefault':
        return cop, lambda: (d, d.setdefault(k, op[2]))
    if name == 'pop':
        return cop, lambda: (d, d.pop(k) if op[2] is None else d.pop(k, op[2]))

    def mut():
        if name == 'setitem':
            d[k] = op[2]
        elif name == 'delitem':
            del d[k]
        elif name == 'mte':
            d.move_to_end(k, last=bool(op[2]))
        else:
            raise ValueError(name)
        return d, None
    return cop, mut


def token(cop):
    """the op as a field of the model's cd_run line"""
    name = cop[0]
    if name in ('init', 'update', 'or', 'ior', 'ror', 'eq', 'ne'):
        return f'{name}:{encpairs(cop[1])}'
    if name == 'fromkeys':
        return f'fromkeys:{encl(cop[1])}:{cop[2]}'
    if name in ('sortedkeys', 'sorteditems'):
        return f'{name}:{encl(cop[1])}'
    if len(cop) == 1:
        return name
    if name in ('get', 'pop'):
        return f'{name}:{enc(cop[1])}:{"" if cop[2] is None else cop[2]}'
    return ':'.join([name, enc(cop[1])] + [str(x) for x in cop[2:]])


def enc_value(name, r):
    """a Python result in the encoding of the model's `Out`"""
    if name in ('contains', 'haskey', 'eq', 'ne'):
        assert isinstance(r, bool), r
        return 'b1' if r else 'b0'
    if name in ('keys', 'reversed', 'sortedkeys'):
        return 'K' + encl(r)
    if name == 'values':
        return 'V' + ','.join(str(v) for v in r)
    if name in ('items', 'sorteditems'):
        return 'I' + encpairs(r)
    if name == 'len':
        return f'n{r}'
    if name == 'popitem':
        return f'i{enc(r[0])}={r[1]}'
    if r is None:
        return 'N'
    return f'v{r}'


def run_impl(cls, ops, flavour):
    fl = Flav(flavour)
    d = cls()
    toks, outs = [], []
    for op in ops:
        cop, thunk = resolve(cls, d, op, fl)
        try:
            d, r = thunk()
            out = enc_value(cop[0], r)
        except (KeyError, TypeError) as e:
            out = err_name(e)
        assert type(d) is cls, type(d)
        toks.append(token(cop))
        outs.append(out + '@' + encl(list(d.keys())))
    return toks, ';'.join(outs)


def nontrivial(ops):
    for op in ops:
        for a in op[1:]:
            if isinstance(a, str) and a in KEYS and a != a.upper():
                return True
            if isinstance(a, list) and any((x[0] if isinstance(x, tuple) else x) != (x[0] if isinstance(x, tuple) else x).upper() for x in a):
                return True
    return False


def corr_seq(ctx, clsname, ops, flavour):
    cls = classes()[clsname]
    toks, impl = run_impl(cls, ops, flavour)
    ctx.corr('cd_run', [f'{clsname}/{flavour}'] + toks, impl, nontrivial(ops))
    ctx.count('corr_steps', len(ops))


CORPUS = [
    [('pop', 'a', None)],
    [('setitem', 'a', 1), ('mte', 'a', 1)],
    [('setitem', 'a', 1), ('mte', 'A', 0), ('pop', 'A', None), ('pop', 'a', None)],
    [('init', [('a', 1), ('A', 2), ('b', 3)], 'dict'), ('setitem', 'ab', 4), ('pop', 'B', None), ('getitem', 'a'),
     ('eq', [('aB', 4), ('a', 2)], 'dict'), ('keys',)],
    [('init', [('b', 1), ('ab', 2), ('a', 3)], 'pairs'), ('sortedkeys',), ('sorteditems',)],
]

MAIN = ['CaselessDict', 'Parameters', 'Component']
ALL = ['CaselessDict', 'Parameters', 'Component', 'Event', 'CaselessDict+order', 'Parameters+order', 'Component+order']


def correspondence(ctx):
    cat = catalogue()
    deep = ctx.tier == 'thorough' or ctx.escalate
    for ops in CORPUS:
        for c in ALL:
            for f in ('str', 'bytes', 'mixed'):
                corr_seq(ctx, c, ops, f)
    # exhaustive: every sequence of length <= 2
    for n in (1, 2):
        for ops in itertools.product(cat, repeat=n):
            corr_seq(ctx, 'CaselessDict', ops, 'str')
            corr_seq(ctx, 'Parameters', ops, 'bytes')
            corr_seq(ctx, 'Component', ops, 'mixed')
            corr_seq(ctx, 'CaselessDict+order', ops, 'mixed')
            if deep:
                corr_seq(ctx, 'Parameters+order', ops, 'str')
                corr_seq(ctx, 'Component+order', ops, 'bytes')
    # length 3: exhaustive in the thorough tier (one class/flavour per sequence, rotating), sampled in quick
    combos = [(c, f) for c in ALL for f in ('str', 'bytes', 'mixed')]
    if deep:
        for i, ops in enumerate(itertools.product(cat, repeat=3)):
            c, f = combos[i % len(combos)]
            corr_seq(ctx, c, ops, f)
            if ctx.time_left() < 300:
                ctx.notes.append(f'length-3 enumeration stopped after {i} sequences (time budget)')
                break
    else:
        for i in range(12000):
            ops = [ctx.rng.choice(cat) for _ in range(3)]
            c, f = combos[i % len(combos)]
            corr_seq(ctx, c, ops, f)
    # long random histories
    for i in range(ctx.vol(3000, 5)):
        ops = [rand_op(ctx.rng) for _ in range(30)]
        c, f = combos[i % len(combos)]
        corr_seq(ctx, c, ops, f)
    # canonsort_keys as a function: duplicates in keys and in the declared order, prefixes, non-ASCII
    from icalendar.caselessdict import canonsort_keys
    alpha = ['A', 'B', 'AB', 'ABC', 'a', 'Z', '', 'É', 'z', 'B-', 'X-A', '\U0001F600', '中']
    for _ in range(ctx.vol(1500)):
        keys = [ctx.rng.choice(alpha) for _ in range(ctx.rng.randint(0, 7))]
        order = [ctx.rng.choice(alpha) for _ in range(ctx.rng.randint(0, 5))]
        res = canonsort_keys(keys, order if ctx.rng.random() < 0.9 or order else None)
        ctx.corr('canonsort', [encl(keys), encl(order)], encl(res), len(set(order)) < len(order))
    # the canonical_order tuples the library declares are duplicate-free (canonsort_spec_nodup applies)
    import icalendar.cal as cal
    dup = [n for n, o in vars(cal).items() if isinstance(o, type) and issubclass(o, cal.Component)
           and len(set(o.canonical_order or ())) != len(o.canonical_order or ())]
    ctx.notes.append('component classes whose canonical_order repeats a name: ' + (', '.join(dup) or 'none'))


# ------------------------------------------------------------------ oracle (implementation only)

class Ref:
    """A plain ordered dictionary keyed by the upper-cased name; the caller folds the keys.
    It is applied to the concrete op (the pairs the callee iterates, eqself resolved)."""

    def __init__(self):
        self.d = OrderedDict()

    def apply(self, cop):
        d = self.d
        name = cop[0]
        if name == 'init':
            self.d = OrderedDict()
            for k, v in cop[1]:
                self.d[U(k)] = v
            return None
        if name in ('update', 'ior'):
            for k, v in cop[1]:
                d[U(k)] = v
            return None
        if name == 'or':
            n = OrderedDict(d)
            for k, v in cop[1]:
                n[U(k)] = v
            self.d = n
            return None
        if name == 'ror':
            n = OrderedDict()
            for k, v in cop[1]:
                n[U(k)] = v
            for k, v in d.items():
                n[k] = v
            self.d = n
            return None
        if name in ('eq', 'ne'):
            o = {}
            for k, v in cop[1]:
                o[U(k)] = v
            r = dict(d) == o
            return r if name == 'eq' else not r
        if name == 'fromkeys':
            self.d = OrderedDict.fromkeys([U(k) for k in cop[1]], cop[2])
            return None
        if name in ('sortedkeys', 'sorteditems'):
            order = cop[1]
            declared = []
            for k in order:
                if k in declared:
                    declared.remove(k)      # a repeated declaration counts at its last position
                declared.append(k)
            ks = [k for k in declared if k in d] + sorted(k for k in d if k not in order)
            return ks if name == 'sortedkeys' else [(k, d[k]) for k in ks]
        if len(cop) == 1:
            if name == 'popitem':
                return d.popitem()
            if name == 'copy':
                self.d = d.copy()
                return None
            if name == 'keys':
                return list(d.keys())
            if name == 'values':
                return list(d.values())
            if name == 'items':
                return list(d.items())
            if name == 'len':
                return len(d)
            if name == 'clear':
                return d.clear()
            if name == 'reversed':
                return list(reversed(d))
        k = U(cop[1])
        if name == 'getitem':
            return d[k]
        if name == 'setitem':
            d[k] = cop[2]
            return None
        if name == 'delitem':
            del d[k]
            return None
        if name in ('contains', 'haskey'):
            return k in d
        if name == 'get':
            return d.get(k) if cop[2] is None else d.get(k, cop[2])
        if name == 'setdefault':
            return d.setdefault(k, cop[2])
        if name == 'pop':
            return d.pop(k) if cop[2] is None else d.pop(k, cop[2])
        if name == 'mte':
            d.move_to_end(k, last=bool(cop[2]))
            return None
        raise ValueError(name)


def classify(cop, got, want):
    if cop[0] == 'pop' and cop[2] is None and want == ('raise', 'KeyError') and got == ('value', None):
        return 'pop-missing-default-none'
    # move_to_end was repaired in 991e646: a deviation there is a regression and is reported unclassified
    return None


def equality_battery(ctx, clsname, cls, d, inp):
    """d must equal every mapping with the same upper-cased content, in any key order and letter case"""
    try:
        _equality_battery(ctx, clsname, cls, d, inp)
    except Exception as e:  # noqa: BLE001 - a comparison must answer, never fail
        ctx.violation('equality-raises', inp, f'{clsname} {list(d.items())!r}: a comparison raised {type(e).__name__}: {e}')


def _equality_battery(ctx, clsname, cls, d, inp):
    from icalendar.caselessdict import CaselessDict
    from icalendar.parser import Parameters
    items = list(d.items())
    shapes = {
        'same': items,
        'reversed': list(reversed(items)),
        'lower': [(k.lower(), v) for k, v in items],
        'lower-reversed-bytes': [(k.lower().encode(), v) for k, v in reversed(items)],
        'swapcase': [(k[:1].lower() + k[1:], v) for k, v in items],
    }
    if is_component(cls):
        makers = {'same-class': cls}
    else:
        makers = {'dict': dict, 'OrderedDict': OrderedDict, 'CaselessDict': CaselessDict, 'Parameters': Parameters,
                  'same-class': cls}
    for sn, pairs in shapes.items():
        for mn, mk in makers.items():
            m = mk(pairs)
            ok = (d == m) is True and (m == d) is True and (d != m) is False
            if not ok:
                ctx.violation('equal-to-mapping-with-same-upper-cased-content', dict(inp, other=f'{mn}({sn})'),
                              f'{clsname} {items!r} == {mn}({pairs!r}) gave {d == m!r}, reversed {m == d!r}, != gave {d != m!r}')
                return
    if items:
        k0, v0 = items[0]
        for mn, mk in makers.items():
            for pairs in ([(k0.lower(), v0 + 1)] + items[1:], items[1:], items + [('zz', 0)]):
                m = mk(pairs)
                if (d == m) is not False or (d != m) is not True:
                    ctx.violation('unequal-to-mapping-with-different-content', dict(inp, other=f'{mn}'),
                                  f'{clsname} {items!r} == {mn}({pairs!r}) gave {d == m!r}')
                    return
    if (d == 5) is not False or (d != 5) is not True or (d == None) is not False:  # noqa: E711
        ctx.violation('equality-with-non-mapping', inp, f'{clsname} == 5 gave {d == 5!r}')


def oracle_seq(ctx, clsname, ops, flavour, battery_every_step=False):
    cls = classes()[clsname]
    fl = Flav(flavour)
    d = cls()
    ref = Ref()
    inp = {'cls': clsname, 'flavour': flavour, 'ops': [list(o) for o in ops]}
    ctx.evaluated(('seq', clsname, flavour, repr(ops)), nontrivial(ops))
    for i, op in enumerate(ops):
        cop, thunk = resolve(cls, d, op, fl)
        try:
            want = ('value', ref.apply(cop))
        except (KeyError, TypeError) as e:
            want = ('raise', type(e).__name__)
        try:
            d, r = thunk()
            got = ('value', r)
        except Exception as e:  # noqa: BLE001 - the kind of exception is what is compared
            got = ('raise', type(e).__name__)
        here = dict(inp, step=i)
        if got != want:
            ctx.violation('result-differs-from-dict-keyed-by-upper-name', here,
                          f'{clsname}: step {i} {cop!r} gave {got!r}, a dict keyed by the upper-cased name gives {want!r}',
                          classify(cop, got, want))
            # resynchronise the reference so that one finding does not cascade
            ref.d = OrderedDict((k, v) for k, v in d.items())
            continue
        keys = list(d.keys())
        if type(d) is not cls:
            ctx.violation('result-type', here, f'{clsname}: {cop!r} produced a {type(d).__name__}')
            return
        if any(not isinstance(k, str) or k != k.upper() for k in keys):
            ctx.violation('stores-only-upper-case-keys', here, f'{clsname}: keys {keys!r} after {cop!r}')
            return
        if list(d.items()) != list(ref.d.items()):
            ctx.violation('first-insertion-order', here,
                          f'{clsname}: items {list(d.items())!r} after {cop!r}, reference {list(ref.d.items())!r}')
            return
        if battery_every_step:
            equality_battery(ctx, clsname, cls, d, here)
    if not battery_every_step:
        equality_battery(ctx, clsname, cls, d, inp)


def sorted_keys_oracle(ctx):
    """priority names first in their declared order, all other names after them alphabetically"""
    import icalendar.cal as cal
    comps = [o for o in vars(cal).values() if isinstance(o, type) and issubclass(o, cal.Component)]
    extra = ['X-B', 'x-a', 'ATTENDEE', 'Zz', 'aa', 'COMMENT']
    from harness.props.C02 import RFC as RFC_NAMES        # the property names of RFC 5545, written from the RFC
    for cls in comps:
        # "the component's priority names ... in their declared order": the declaration is a sequence (an order)
        # of distinct property names - not a set, not a one-shot iterator, not two names run together
        decl = cls.canonical_order
        ctx.evaluated(('order-declaration', cls.__name__))
        if decl is not None:
            if not isinstance(decl, (tuple, list)):
                ctx.violation('priority-declaration', {'cls': cls.__name__},
                              f'{cls.__name__}.canonical_order is a {type(decl).__name__}, which declares no order')
                continue
            badn = [n for n in decl if not isinstance(n, str) or (n.upper() not in RFC_NAMES and not n.upper().startswith('X-'))]
            if badn or len(set(decl)) != len(decl):
                ctx.violation('priority-declaration', {'cls': cls.__name__, 'names': [str(n) for n in decl]},
                              f'{cls.__name__}.canonical_order holds entries that are not property names, or repeats: {badn!r}')
        order = list(cls.canonical_order or ())
        for _ in range(ctx.vol(30)):
            names = ctx.rng.sample(order, min(len(order), ctx.rng.randint(0, 5))) + ctx.rng.sample(extra, ctx.rng.randint(0, 4))
            ctx.rng.shuffle(names)
            d = cls()
            for i, n in enumerate(names):
                d[ctx.rng.choice([n, n.lower(), n.lower().encode()])] = i
            stored = set(d.keys())
            want = [k for k in order if k in stored] + sorted(k for k in stored if k not in order)
            got = d.sorted_keys()
            ctx.evaluated(('sk', cls.__name__, tuple(names)))
            if got != want or [k for k, _ in d.sorted_items()] != want or any(d[k] != v for k, v in d.sorted_items()):
                ctx.violation('sorted-keys', {'cls': cls.__name__, 'names': names},
                              f'{cls.__name__}.sorted_keys() = {got!r}, expected {want!r}')


def ror_probe(ctx):
    """`OrderedDict | map`: OrderedDict.__or__ of the left operand wins, the result is not caseless"""
    for clsname in MAIN:
        cls = classes()[clsname]
        d = cls(A=3, B=2)
        r = OrderedDict(a=0, c=1) | d
        ctx.evaluated(('ror-odict', clsname))
        if type(r) is not cls or sorted(r.keys()) != ['A', 'B', 'C']:
            ctx.violation('merge-with-ordereddict-on-the-left',
                          {'cls': clsname, 'expr': "OrderedDict(a=0, c=1) | cls(A=3, B=2)"},
                          f'result is {type(r).__name__} with keys {list(r.keys())!r} (both a and A present)',
                          'inherited-method-not-folded')


def upper_idempotent(ctx):
    bad = []
    for cp in range(0x110000):
        u = chr(cp).upper()
        if u.upper() != u:
            bad.append(cp)
    ctx.count('upper_idem_code_points_checked', 0x110000)
    ctx.notes.append(f'assumption up(up(k)) = up(k): str.upper checked on all {0x110000} code points, '
                     f'{len(bad)} counterexamples' + (f' (first: U+{bad[0]:04X})' if bad else ''))
    if bad:
        ctx.violation('assumption-upper-idempotent', {'code_point': bad[0]},
                      f'chr({bad[0]}).upper().upper() != chr({bad[0]}).upper(): the hypothesis of the C17 theorems fails')


def views_note(ctx):
    from icalendar.caselessdict import CaselessDict
    d = CaselessDict(a=1)
    ctx.notes.append("not part of the property (view objects are plain dict views): 'a' in d.keys() is "
                     f"{'a' in d.keys()!r} while 'a' in d is {'a' in d!r}; popitem(last=False) raises "
                     "TypeError (CaselessDict.popitem takes no argument)")


def oracle(ctx):
    upper_idempotent(ctx)
    views_note(ctx)
    cat = catalogue()
    deep = ctx.tier == 'thorough' or ctx.escalate
    for ops in CORPUS:
        for c in ALL:
            for f in ('str', 'bytes', 'mixed'):
                oracle_seq(ctx, c, ops, f, True)
    ror_probe(ctx)
    sorted_keys_oracle(ctx)
    combos = [(c, f) for c in ALL for f in ('str', 'bytes', 'mixed')]
    i = 0
    for n in (1, 2):
        for ops in itertools.product(cat, repeat=n):
            if n == 2 and not deep and i % 3:
                i += 1
                continue
            c, f = combos[i % len(combos)]
            oracle_seq(ctx, c, ops, f, n == 1)
            i += 1
    for j in range(ctx.vol(3000)):
        ops = [ctx.rng.choice(cat) for _ in range(3)]
        c, f = combos[j % len(combos)]
        oracle_seq(ctx, c, ops, f)
    for j in range(ctx.vol(600, 5)):
        ops = [rand_op(ctx.rng) for _ in range(30)]
        c, f = combos[j % len(combos)]
        oracle_seq(ctx, c, ops, f)


def norm_op(o):
    """an op as read back from a replay JSON file"""
    if o[0] in ('init', 'update', 'or', 'ior', 'ror', 'eq', 'ne'):
        return (o[0], [tuple(p) for p in o[1]], o[2])
    return tuple(o)


def replay(ctx, data):
    inp = data['input']
    if 'ops' in inp:
        oracle_seq(ctx, inp['cls'], [norm_op(o) for o in inp['ops']], inp.get('flavour', 'str'), True)
    elif 'expr' in inp:
        ror_probe(ctx)
    elif 'names' in inp:
        sorted_keys_oracle(ctx)
    elif 'code_point' in inp:
        upper_idempotent(ctx)
    for v in ctx.violations:
        print('REPRODUCED', v['kind'], v['detail'])
    if not ctx.violations:
        print('not reproduced on the current tree')
    return 1 if ctx.violations else 0
