"""C12 - a VTIMEZONE is interpreted per RFC 5545 onset rules, the same in both providers,
and a calendar's date-times get the calendar's own definition."""
import calendar as _calendar
import datetime as dt
import re

from harness.proto import enc, encl

LEAN = ['ICal.Props.C12']
LEVEL = 'proof'
FINGERPRINTS = ['cal.Timezone._extract_offsets', 'cal.Timezone.get_transitions', 'cal.Timezone.to_tz',
                'cal.Component.from_ical', 'timezone.tzp', 'timezone.pytz', 'timezone.zoneinfo']
RULE = ('generated VTIMEZONEs in three families (DST pairs with yearly nth-weekday rules with/without UNTIL/COUNT; '
        'RDATE lists and single onsets with a consistent offset chain; arbitrary observances incl. onsets closer '
        'together than the offset jump), 1-4 observances, whole-minute offsets -12h..+14h, with/without TZNAME; '
        'instants = every sampled onset -1s/0/+1s and interval midpoints up to 2037; both providers; cache histories '
        'of 1-3 calendars over custom/slashed/provider-known ids with every VTIMEZONE position. A case is '
        'non-trivial when the definition has at least two onsets')
ASSUMPTIONS = ['RRULE/RDATE expansion is dateutil.rrule (external): the model receives expanded onsets; the harness '
               'expands yearly nth-weekday rules itself and the tz_trans correspondence checks dateutil agrees',
               'zoneinfo path = dateutil.tz.tzical (external): compared with the RFC reading on DST-pair definitions only',
               'whole-minute offsets (second-valued offsets are rounded by the pytz path and not by dateutil)',
               'provider knowledge (knows_timezone_id, provider.timezone) is a parameter of the cache model, sampled live']

UTC = dt.timezone.utc
EPOCH = dt.datetime(1970, 1, 1)
HORIZON = dt.datetime(2038, 12, 31)          # fix_rrule_until
LAST_T = int((dt.datetime(2037, 12, 31) - EPOCH).total_seconds())
WD = ['MO', 'TU', 'WE', 'TH', 'FR', 'SA', 'SU']


def secs(d):
    return int((d - EPOCH).total_seconds())


def fmt_off(s):
    sign = '+' if s >= 0 else '-'
    a = abs(s)
    out = f'{sign}{a // 3600:02d}{a % 3600 // 60:02d}'
    if a % 60:
        out += f'{a % 60:02d}'
    return out


def fmt_dt(d):
    return d.strftime('%Y%m%dT%H%M%S')


# ------------------------------------------------------------------ definitions

def nth_weekday(year, month, nth, wd):
    """date of the nth (1..4, -1 = last) weekday wd (0 = Monday) of a month"""
    if nth > 0:
        first = dt.date(year, month, 1)
        delta = (wd - first.weekday()) % 7
        return first + dt.timedelta(days=delta + 7 * (nth - 1))
    last = dt.date(year, month, _calendar.monthrange(year, month)[1])
    delta = (last.weekday() - wd) % 7
    return last - dt.timedelta(days=delta)


def rule_text(r):
    if r is None:
        return []
    if r['type'] == 'rdate':
        return ['RDATE:' + ','.join(fmt_dt(d) for d in r['dates'])] if r['dates'] else []
    s = f"RRULE:FREQ=YEARLY;BYMONTH={r['month']};BYDAY={r['nth']}{WD[r['wd']]}"
    if r.get('until') is not None:
        s += ';UNTIL=' + fmt_dt(r['until']) + 'Z'
    if r.get('count') is not None:
        s += f";COUNT={r['count']}"
    return [s]


def vtimezone_text(d):
    out = ['BEGIN:VTIMEZONE', 'TZID:' + d['tzid']]
    extra = d.get('xlines')        # lines that say nothing about offsets, as exported calendars carry them
    if extra:
        out += ['X-LIC-LOCATION:Nowhere/Special', 'LAST-MODIFIED:20240101T000000Z', 'TZURL:http://example.com/tz']
    for o in d['obs']:
        out += ['BEGIN:' + o['kind'], 'DTSTART:' + fmt_dt(o['dtstart']),
                'TZOFFSETFROM:' + fmt_off(o['off_from']), 'TZOFFSETTO:' + fmt_off(o['off_to'])]
        if extra:
            out += ['COMMENT:an observance', 'X-NOTE;X-P=q:kept']
        if o['tzname'] is not None:
            out.append('TZNAME:' + o['tzname'])
        out += rule_text(o['rule'])
        out.append('END:' + o['kind'])
    out.append('END:VTIMEZONE')
    return '\r\n'.join(out) + '\r\n'


def expand(o, until_local=False):
    """RFC 5545 onsets of one observance as naive local datetimes (up to the 2038 horizon the code
    itself applies to open rules). until_local=True: UNTIL read as a local time (dateutil.tz.tzical)."""
    r = o['rule']
    if r is None:
        return [o['dtstart']]
    if r['type'] == 'rdate':
        return sorted(set([o['dtstart']] + list(r['dates'])))
    out = []
    y = o['dtstart'].year
    while True:
        day = nth_weekday(y, r['month'], r['nth'], r['wd'])
        occ = dt.datetime.combine(day, o['dtstart'].time())
        y += 1
        if occ < o['dtstart']:
            continue
        if r.get('count') is not None and len(out) >= r['count']:
            break
        if r.get('until') is not None:
            key = occ if until_local else occ - dt.timedelta(seconds=o['off_from'])
            if key > r['until']:
                break
        elif r.get('count') is None and occ - dt.timedelta(seconds=o['off_from']) > HORIZON:
            break
        if y > 2045:
            break
        out.append(occ)
    return out


def entries(d, until_local=False):
    """[(utc onset, index of observance)] sorted by instant"""
    es = []
    for i, o in enumerate(d['obs']):
        for l in expand(o, until_local):
            es.append((secs(l) - o['off_from'], i))
    es.sort()
    return es


def rfc_at(d, es, t):
    """observance index in effect at t per RFC 5545, None before the first onset, 'tie' if two
    different observances start at the very same latest instant"""
    best = None
    for u, i in es:
        if u <= t:
            if best is None or u > best[0]:
                best = (u, {i})
            elif u == best[0]:
                best[1].add(i)
        else:
            break
    if best is None:
        return None
    if len(best[1]) > 1:
        vals = {(d['obs'][i]['off_to'], d['obs'][i]['tzname'], d['obs'][i]['kind']) for i in best[1]}
        if len(vals) > 1:
            return 'tie'
    return min(best[1])


def well_separated(d, es=None):
    """no two onsets at different instants are closer together than the difference of their TZOFFSETFROMs
    (then sorting by local time is sorting by instant)"""
    es = es or entries(d)
    froms = [d['obs'][i]['off_from'] for _, i in es]
    n = len(es)
    span = (max(froms) - min(froms)) if froms else 0
    for a in range(n):
        for b in range(a + 1, n):
            if es[b][0] - es[a][0] > span:
                break
            if es[a][0] < es[b][0] and es[b][0] - es[a][0] <= froms[a] - froms[b]:
                return False
    return True


def model_obs(d):
    parts = []
    for o in d['obs']:
        auto = f"{d['tzid']}_{fmt_dt(o['dtstart'])}_{fmt_off(o['off_from'])}_{fmt_off(o['off_to'])}"
        ons = ' '.join(str(secs(l)) for l in expand(o))
        parts.append(':'.join(['1' if o['kind'] == 'DAYLIGHT' else '0', '0' if o['tzname'] is None else '1',
                               enc(o['tzname'] or ''), enc(auto), str(o['off_from']), str(o['off_to']), ons]))
    return ';'.join(parts)


# ------------------------------------------------------------------ generators

NAMES = ['STD', 'DST', 'CET', 'CEST', 'EST', 'EDT', 'A', 'B', '+03', 'X-Y Z']


def rand_off(rng):
    r = rng.random()
    if r < 0.6:
        return rng.randint(-12, 14) * 3600
    if r < 0.85:
        return max(-43200, min(50400, rng.randint(-24, 28) * 1800 + rng.choice([0, 900])))
    return rng.randint(-12 * 60, 14 * 60) * 60


def rand_name(rng, used):
    if rng.random() < 0.25:
        return None
    for _ in range(10):
        n = rng.choice(NAMES) + rng.choice(['', '', '1', '2'])
        if n not in used:
            used.add(n)
            return n
    return None


def gen_dst_pair(rng, k, until_mode=None):
    """family 1: STANDARD + DAYLIGHT yearly rules, DTSTART on the rule, consistent offsets"""
    std = rand_off(rng)
    std = max(-43200, min(46800, std))
    amount = rng.choice([3600, 3600, 1800, 7200])
    y0 = rng.randint(1971, 2010)
    m_on, m_off = rng.choice([(3, 10), (4, 9), (10, 3), (3, 11), (9, 4)])
    used = set()
    obs = []
    for kind, month, f, t in (('DAYLIGHT', m_on, std, std + amount), ('STANDARD', m_off, std + amount, std)):
        nth, wd = rng.choice([-1, 1, 2, 3, 4]), rng.randint(0, 6)
        hour = rng.choice([1, 2, 3, 4])
        yy = y0 if (kind == 'DAYLIGHT') == (m_on < m_off) else y0
        start = dt.datetime.combine(nth_weekday(yy, month, nth, wd), dt.time(hour, rng.choice([0, 0, 30])))
        rule = {'type': 'rrule', 'month': month, 'nth': nth, 'wd': wd, 'until': None, 'count': None}
        mode = until_mode if until_mode is not None else rng.choice(['open', 'open', 'count', 'until-loose', 'until-tight'])
        if mode == 'count':
            rule['count'] = rng.randint(1, 30)
        elif mode == 'until-loose':
            rule['until'] = dt.datetime(rng.randint(yy, 2036), 12, 31, 23, 59, 59) - dt.timedelta(days=rng.randint(20, 40))
        elif mode == 'until-tight':
            yl = rng.randint(yy, 2036)
            occ = dt.datetime.combine(nth_weekday(yl, month, nth, wd), start.time())
            rule['until'] = occ - dt.timedelta(seconds=f)
        obs.append({'kind': kind, 'dtstart': start, 'off_from': f, 'off_to': t, 'tzname': rand_name(rng, used), 'rule': rule})
    if rng.random() < 0.5:
        obs.reverse()
    return {'tzid': f'X/Pair{k}', 'obs': obs, 'family': 'pair'}


def fix_amounts(obs):
    """a DAYLIGHT amount of 24 h or more cannot be represented by a Python tzinfo at all (datetime.dst()
    raises ValueError): such observances are declared STANDARD"""
    for o in obs:
        if o['kind'] == 'DAYLIGHT' and abs(o['off_to'] - o['off_from']) >= 86400:
            o['kind'] = 'STANDARD'


def gen_chain(rng, k):
    """family 2: 1-4 observances, RDATE lists or single onsets, offsets chained in time order, onsets days apart"""
    n = rng.randint(1, 4)
    total = rng.randint(n, 9)
    t0 = dt.datetime(rng.randint(1971, 2000), rng.randint(1, 12), rng.randint(1, 28), rng.randint(0, 23), rng.choice([0, 0, 30]))
    times = [t0]
    for _ in range(total - 1):
        times.append(times[-1] + dt.timedelta(days=rng.randint(3, 900), hours=rng.randint(0, 23)))
    # assign each onset to an observance; the observance's (from, to) must be the same for all its onsets
    offs = [rand_off(rng) for _ in range(n)]
    dst_kind = [rng.random() < 0.4 for _ in range(n)]
    # walk in time order choosing observance j whose from equals the current offset when possible
    obs_on = [[] for _ in range(n)]
    froms = [None] * n
    cur = rand_off(rng)
    for tm in times:
        cands = [j for j in range(n) if froms[j] in (None, cur) and offs[j] != cur]
        if not cands:
            cands = [j for j in range(n) if froms[j] in (None, cur)]
        if not cands:
            break
        j = rng.choice(cands)
        froms[j] = cur
        obs_on[j].append(tm)
        cur = offs[j]
    used = set()
    obs = []
    for j in range(n):
        if not obs_on[j]:
            continue
        ons = obs_on[j]
        rule = None if len(ons) == 1 else {'type': 'rdate', 'dates': ons[1:]}
        # local time of an onset = instant expressed with the offset in force before it
        obs.append({'kind': 'DAYLIGHT' if dst_kind[j] else 'STANDARD', 'dtstart': ons[0], 'off_from': froms[j],
                    'off_to': offs[j], 'tzname': rand_name(rng, used), 'rule': rule})
    if not any(o['kind'] == 'STANDARD' for o in obs):
        obs[0]['kind'] = 'STANDARD'
    fix_amounts(obs)
    rng.shuffle(obs)
    return {'tzid': f'X/Chain{k}', 'obs': obs, 'family': 'chain'}


def gen_wild(rng, k):
    """family 3: arbitrary observances; onsets may be closer together than the offset jump"""
    n = rng.randint(1, 4)
    base = dt.datetime(rng.randint(1971, 2030), rng.randint(1, 12), rng.randint(1, 28), rng.randint(0, 23), 0)
    used = set()
    obs = []
    for j in range(n):
        start = base + dt.timedelta(minutes=rng.choice([0, 30, 60, 90, 120, 180, 600, 1440, 14400, 144000]) * j
                                    + rng.choice([0, 0, 15, 30]))
        dates = [start + dt.timedelta(minutes=rng.choice([30, 60, 240, 1440, 100000, 525600])) * (i + 1) for i in range(rng.randint(0, 3))]
        rule = {'type': 'rdate', 'dates': dates} if dates and rng.random() < 0.6 else None
        obs.append({'kind': rng.choice(['STANDARD', 'STANDARD', 'DAYLIGHT']), 'dtstart': start, 'off_from': rand_off(rng),
                    'off_to': rand_off(rng), 'tzname': rand_name(rng, used), 'rule': rule})
    if not any(o['kind'] == 'STANDARD' for o in obs):
        obs[0]['kind'] = 'STANDARD'
    if len(obs) > 1 and rng.random() < 0.4:
        a, b = rng.sample(range(len(obs)), 2)
        obs[a]['off_to'] = obs[b]['off_to']          # equal offsets: zero DST amounts (the falsy timedelta(0) path)
    fix_amounts(obs)
    return {'tzid': f'X/Wild{k}', 'obs': obs, 'family': 'wild'}


def d23_witness():
    """onsets 00:00Z (+0 -> +2), 00:30Z (+2 -> -1), 01:00Z (-1 -> +0): local order is 01:00Z, 00:00Z, 00:30Z"""
    return {'tzid': 'X/D23', 'family': 'wild', 'obs': [
        {'kind': 'STANDARD', 'dtstart': dt.datetime(1999, 12, 1), 'off_from': 0, 'off_to': 0, 'tzname': 'Z', 'rule': None},
        {'kind': 'STANDARD', 'dtstart': dt.datetime(2000, 1, 1, 0, 0), 'off_from': 0, 'off_to': 7200, 'tzname': 'A', 'rule': None},
        {'kind': 'STANDARD', 'dtstart': dt.datetime(2000, 1, 1, 2, 30), 'off_from': 7200, 'off_to': -3600, 'tzname': 'B', 'rule': None},
        {'kind': 'STANDARD', 'dtstart': dt.datetime(2000, 1, 1, 0, 0), 'off_from': -3600, 'off_to': 0, 'tzname': 'C', 'rule': None}]}


def same_name_witness():
    """STANDARD and DAYLIGHT share one TZNAME (as Australia's EST/EST did)"""
    mk = lambda kind, m, f, t: {'kind': kind, 'dtstart': dt.datetime.combine(nth_weekday(1990, m, -1, 6), dt.time(2, 0)),
                                'off_from': f, 'off_to': t, 'tzname': 'EST',
                                'rule': {'type': 'rrule', 'month': m, 'nth': -1, 'wd': 6, 'until': None, 'count': None}}
    return {'tzid': 'X/SameName', 'family': 'pair', 'obs': [mk('STANDARD', 3, 39600, 36000), mk('DAYLIGHT', 10, 36000, 39600)]}


def until_witness():
    """Europe-like rules whose UNTIL is the UTC instant of the last onset"""
    mk = lambda kind, m, y0, f, t, nm, yl: {
        'kind': kind, 'dtstart': dt.datetime.combine(nth_weekday(y0, m, -1, 6), dt.time(3 if kind == 'STANDARD' else 2, 0)),
        'off_from': f, 'off_to': t, 'tzname': nm,
        'rule': {'type': 'rrule', 'month': m, 'nth': -1, 'wd': 6, 'count': None,
                 'until': dt.datetime.combine(nth_weekday(yl, m, -1, 6), dt.time(1, 0))}}
    return {'tzid': 'X/Until', 'family': 'pair', 'obs': [mk('STANDARD', 10, 1996, 7200, 3600, 'CET', 2000),
                                                         mk('DAYLIGHT', 3, 1997, 3600, 7200, 'CEST', 2001)]}


def nondst_witness():
    """a standard-to-standard change to a smaller offset (+01:00 -> -03:00)"""
    return {'tzid': 'X/StdStd', 'family': 'chain', 'obs': [
        {'kind': 'STANDARD', 'dtstart': dt.datetime(1971, 1, 1), 'off_from': 3600, 'off_to': 3600, 'tzname': 'A', 'rule': None},
        {'kind': 'STANDARD', 'dtstart': dt.datetime(2000, 1, 1), 'off_from': 3600, 'off_to': -10800, 'tzname': 'B', 'rule': None}]}


def zero_dst_witness():
    """a DAYLIGHT observance with the same offset as the STANDARD one before it: `if not dst_offset` is true
    for timedelta(0) and the amount is taken from the *next* STANDARD observance (-2 h)"""
    mk = lambda kind, y, f, t, nm: {'kind': kind, 'dtstart': dt.datetime(y, 1, 1), 'off_from': f, 'off_to': t, 'tzname': nm, 'rule': None}
    return {'tzid': 'X/ZeroDst', 'family': 'chain', 'obs': [mk('STANDARD', 2000, 3600, 3600, 'S1'), mk('DAYLIGHT', 2001, 3600, 3600, 'D'),
                                                            mk('STANDARD', 2002, 3600, 10800, 'S2')]}


def daylight_only_witness(rng=None):
    o = {'kind': 'DAYLIGHT', 'dtstart': dt.datetime(2000, 1, 1), 'off_from': 3600, 'off_to': 7200, 'tzname': 'D', 'rule': None}
    if rng is not None:
        o['off_from'], o['off_to'] = rand_off(rng), rand_off(rng)
        o['dtstart'] = dt.datetime(rng.randint(1971, 2030), rng.randint(1, 12), rng.randint(1, 28))
    obs = [o]
    fix_amounts(obs)
    obs[0]['kind'] = 'DAYLIGHT' if abs(o['off_to'] - o['off_from']) < 86400 else 'STANDARD'
    return {'tzid': 'X/DstOnly', 'family': 'wild', 'obs': obs}


def empty_standard_witness():
    """a STANDARD observance whose RRULE expands to nothing (UNTIL before DTSTART) next to one DAYLIGHT onset: no standard
    transition exists, so the DST amount search fails exactly as for a DAYLIGHT-only definition (predicted from the model:
    Lean C12.assertion_error_iff_daylight_only)"""
    std = {'kind': 'STANDARD', 'dtstart': dt.datetime.combine(nth_weekday(2000, 10, -1, 6), dt.time(3, 0)), 'off_from': 7200, 'off_to': 3600,
           'tzname': 'S', 'rule': {'type': 'rrule', 'month': 10, 'nth': -1, 'wd': 6, 'count': None, 'until': dt.datetime(1999, 1, 1)}}
    day = {'kind': 'DAYLIGHT', 'dtstart': dt.datetime(2000, 3, 26, 2, 0), 'off_from': 3600, 'off_to': 7200, 'tzname': 'D', 'rule': None}
    return {'tzid': 'X/EmptyStd', 'family': 'wild', 'obs': [std, day]}


def definitions(ctx, n_pair, n_chain, n_wild):
    for n, d in enumerate(definitions_plain(ctx, n_pair, n_chain, n_wild)):
        if n % 3 == 2:
            d['xlines'] = True
        yield d


def definitions_plain(ctx, n_pair, n_chain, n_wild):
    yield d23_witness()
    yield empty_standard_witness()
    yield same_name_witness()
    yield until_witness()
    yield nondst_witness()
    yield zero_dst_witness()
    yield daylight_only_witness()
    for _ in range(3):
        yield daylight_only_witness(ctx.rng)
    k = 0
    for _ in range(n_pair):
        k += 1
        yield gen_dst_pair(ctx.rng, k)
    for _ in range(n_chain):
        k += 1
        yield gen_chain(ctx.rng, k)
    for _ in range(n_wild):
        k += 1
        yield gen_wild(ctx.rng, k)


def instants(rng, es, cap=24):
    """every sampled onset -1 s / 0 / +1 s and the midpoints of the intervals, up to 2037, from the first onset on"""
    if not es:
        return []
    us = sorted({u for u, _ in es})
    first = us[0]
    pick = set(us[:3] + us[-3:])
    rest = [u for u in us if u not in pick]
    rng.shuffle(rest)
    pick.update(rest[:cap])
    out = set()
    for idx, u in enumerate(us):
        if u not in pick:
            continue
        out.update([u - 1, u, u + 1])
        if idx + 1 < len(us):
            out.add((u + us[idx + 1]) // 2)
    out.add(us[-1] + 40 * 86400)
    out.add(LAST_T)
    return sorted(t for t in out if first <= t <= LAST_T)


# ------------------------------------------------------------------ implementation side

def parse_component(text):
    """the VTIMEZONE component, parsed under the default provider (closing a VTIMEZONE builds and caches a zone
    object; under zoneinfo that step does not run get_transitions)"""
    from icalendar import Timezone
    from icalendar.timezone import tzp
    tzp.use_zoneinfo()
    return Timezone.from_ical(text)


def build(text, prov):
    """parse the definition and build its zone object under one provider (the path a calendar takes).
    Since /repo 3c72455 a failure of the zone construction at END:VTIMEZONE surfaces from the parse as
    ValueError('Invalid VTIMEZONE ...') chained to the original exception: see root_error."""
    from icalendar import Timezone
    from icalendar.timezone import tzp
    tzp.use(prov)
    try:
        return Timezone.from_ical(text).to_tz(tzp, lookup_tzid=False)
    finally:
        tzp.use_zoneinfo()


def build_direct(text, prov):
    """the direct API path: a component that already exists, Timezone.to_tz() under the provider"""
    from icalendar.timezone import tzp
    comp = parse_component(text)
    tzp.use(prov)
    try:
        return comp.to_tz(tzp, lookup_tzid=False)
    finally:
        tzp.use_zoneinfo()


def at(tz, t):
    d = dt.datetime.fromtimestamp(t, UTC).astimezone(tz)
    raw = getattr(d.tzinfo, '_dst', None)      # pytz keeps the amount as an attribute; datetime.dst() refuses >= 24 h
    try:
        ds = raw if isinstance(raw, dt.timedelta) else d.dst()
    except ValueError:
        return int(d.utcoffset().total_seconds()), d.tzname(), 'err:ValueError'
    return int(d.utcoffset().total_seconds()), d.tzname(), (None if ds is None else int(ds.total_seconds()))


def root_error(e):
    """the exception behind a failure: Component.from_ical wraps whatever the zone construction raised at
    END:VTIMEZONE into ValueError('Invalid VTIMEZONE <tzid>: <repr>') `from` the original"""
    if isinstance(e, ValueError) and str(e).startswith('Invalid VTIMEZONE') and isinstance(e.__cause__, Exception):
        return e.__cause__
    return e


def err_name(e):
    r = root_error(e)
    if r is e and isinstance(e, ValueError) and str(e).startswith('Invalid VTIMEZONE'):
        m = re.search(r': ([A-Za-z_]+)\(', str(e))          # cause lost: take the name from the message
        if m:
            return 'err:' + m.group(1)
    return 'err:' + type(r).__name__


def describe(e):
    r = root_error(e)
    if r is e:
        return f'{type(e).__name__}: {e}'
    return f'{type(r).__name__} (reported by from_ical as ValueError: {e})'


# ------------------------------------------------------------------ correspondence

def correspondence(ctx):
    from icalendar import Timezone
    # the coarse-to-fine step list is C13's; the rounding and the name loop are part of tz_trans
    n = ctx.vol(150, 6)
    for d in definitions(ctx, n, n, n):
        text = vtimezone_text(d)
        mo = model_obs(d)
        es = entries(d)
        nt = len(es) >= 2
        try:
            times, infos = parse_component(text).get_transitions()
            impl = ';'.join(f'{secs(tm)}:{int(i[0].total_seconds())}:{int(i[1].total_seconds())}:{enc(i[2])}'
                            for tm, i in zip(times, infos))
        except Exception as e:  # noqa: BLE001
            impl = err_name(e)
        ctx.corr('tz_trans', [mo], impl, nt)
        # the same call with the second half of get_transitions (everything after `transitions.sort()`) run from the body
        # regenerated by tools/py2lean.py (Gen/BodiesTz.lean)
        ctx.corr('body_tz_trans', [mo], impl, nt)
        ctx.count('family:' + d['family'])
        ins = instants(ctx.rng, es)
        if not ins:
            continue
        insf = ' '.join(map(str, ins))
        try:
            tz = build(text, 'pytz')
            impl = ';'.join(f'{o}:{ds}:{enc(nm)}' for o, nm, ds in (at(tz, t) for t in ins))
        except Exception as e:  # noqa: BLE001
            # parse path: the AssertionError of get_transitions arrives wrapped in ValueError; direct path: bare
            impl = err_name(e)
            try:
                build_direct(text, 'pytz')
                direct = 'ok'
            except Exception as e2:  # noqa: BLE001
                direct = err_name(e2)
            ctx.count('zone-construction-raises:' + impl)
            if direct != impl:
                impl += '|direct-api:' + direct
        ctx.corr('tz_lookup', [mo, insf], impl, nt)
        if d['family'] == 'pair' and tame_for_dateutil(d) and all(o['tzname'] is not None for o in d['obs']):
            try:
                tz = build(text, 'zoneinfo')
                impl = ';'.join(f'{o}:{enc(nm)}:{0 if ds == 0 else 1}' for o, nm, ds in (at(tz, t) for t in ins))
            except Exception as e:  # noqa: BLE001
                impl = err_name(e)
            ctx.corr('tz_spec', [mo, insf], impl, nt)
    # second-valued offsets: the rounding of _extract_offsets
    for s in [0, 29, 30, 31, 59, 60, 89, 90, 3599, 3630, 86399, -1, -29, -30, -31, -60, -3599, -3630, 9015, -9015, 50400, -43200]:
        d = {'tzid': 'X/R', 'family': 'round', 'obs': [{'kind': 'STANDARD', 'dtstart': dt.datetime(2000, 1, 1), 'off_from': s,
                                                      'off_to': -s, 'tzname': 'R', 'rule': None}]}
        try:
            times, infos = parse_component(vtimezone_text(d)).get_transitions()
            impl = f'{secs(times[0])}:{int(infos[0][0].total_seconds())}:0:{enc("R")}'
        except Exception as e:  # noqa: BLE001
            impl = err_name(e)
        ctx.corr('tz_trans', [model_obs(d)], impl, True)
        ctx.corr('body_tz_trans', [model_obs(d)], impl, True)
    from icalendar.timezone import tzp
    for s in ['', '/', '//', '/a', 'a/', '/a/b/', 'a//b', '///a///', 'Europe/Berlin', '/Europe/Berlin', ' /a/ ']:
        ctx.corr('tz_strip', [enc(s)], enc(tzp.clean_timezone_id(s)), '/' in s)
    for prov in ('zoneinfo', 'pytz'):
        for hist in histories(ctx, ctx.vol(150, 6)):
            ids, flags = id_table(hist, prov)
            cals = ';'.join(' '.join((f'v{ids.index(i)}.{k}' if kind == 'v' else f'u{ids.index(i)}') for kind, i, k in cal)
                            for cal in hist)
            impl = ';'.join(' '.join(r) for r in run_history(hist, prov))
            ctx.corr('tz_cache', [encl(ids), '|'.join(flags), cals], impl, True)
            ctx.count('cache-histories:' + prov)


def tame_for_dateutil(d):
    """DST pairs for which dateutil.tz.tzical is assumed to implement the RFC reading: every UNTIL
    selects the same onsets whether read as UTC or as local time, and the names differ"""
    for o in d['obs']:
        if expand(o) != expand(o, until_local=True):
            return False
    names = [o['tzname'] for o in d['obs']]
    return len(set(names)) == len(names)


# ------------------------------------------------------------------ cache histories

ID_POOL = ['X/A', 'X/B', '/X/A', 'X/A/', '/X/B/', 'Europe/Berlin', '/Europe/Berlin', 'W. Europe Standard Time', 'Custom Zone',
           # globally unique ids in the style of Mozilla / freeassociation / citadel: custom ids that END in a database name
           '/example.org/20210101_1/Europe/Berlin', '/freeassociation.sourceforge.net/Tzfile/America/New_York']


def independently_known(s, prov):
    """does the tz database of the provider (or the Windows name table) hold this id? Asked of the database, not of the code
    under test: which ids count as the provider's own is part of what the property is about"""
    import zoneinfo
    import pytz
    from icalendar.timezone.windows_to_olson import WINDOWS_TO_OLSON
    names = set(pytz.all_timezones) if prov == 'pytz' else zoneinfo.available_timezones()
    return s in names or s in WINDOWS_TO_OLSON


def histories(ctx, n):
    """lists of calendars; a calendar is a list of ('v', tzid, k) / ('u', tzid, None) in file order"""
    rng = ctx.rng
    # the two D15 witnesses first
    yield [[('v', 'X/A', 1), ('u', 'X/A', None)], [('v', 'X/A', 2), ('u', 'X/A', None)]]
    yield [[('u', 'X/A', None), ('v', 'X/A', 1), ('u', 'X/A', None)], [('u', 'X/A', None)]]
    # every position of one VTIMEZONE among three uses
    for pos in range(4):
        cal = [('u', 'X/B', None)] * 3
        cal.insert(pos, ('v', 'X/B', 3))
        yield [cal]
    for _ in range(n):
        hist = []
        for _c in range(rng.randint(1, 3)):
            cal = []
            for _i in range(rng.randint(1, 6)):
                i = rng.choice(ID_POOL[:5]) if rng.random() < 0.75 else rng.choice(ID_POOL)
                if rng.random() < 0.4:
                    cal.append(('v', i, rng.randint(1, 9)))
                else:
                    cal.append(('u', i, None))
            hist.append(cal)
        yield hist


def custom_off(k):
    return k * 3600 + 17 * 60      # +0k17: no tz database zone has such an offset in 2020


def cal_text(cal):
    out = ['BEGIN:VCALENDAR', 'VERSION:2.0', 'PRODID:verif']
    n = 0
    for kind, i, k in cal:
        if kind == 'v':
            o = fmt_off(custom_off(k))
            out += ['BEGIN:VTIMEZONE', 'TZID:' + i, 'BEGIN:STANDARD', 'DTSTART:19700101T000000', 'TZOFFSETFROM:' + o,
                    'TZOFFSETTO:' + o, f'TZNAME:D{k}', 'END:STANDARD', 'END:VTIMEZONE']
        else:
            n += 1
            # (names of properties and parameters are case-insensitive: some of the uses are spelled otherwise)
            spell = ('DTSTART;TZID', 'dtstart;TZID', 'DtStart;tzid', 'DTSTART;TZID')[(n + len(i)) % 4]
            out += ['BEGIN:VEVENT', f'UID:{n}', f'{spell}={i}:20200615T120000', 'END:VEVENT']
    out.append('END:VCALENDAR')
    return '\r\n'.join(out) + '\r\n'


def strip_slash(s):
    return s.strip('/')


def id_table(hist, prov):
    from icalendar.timezone import tzp
    ids = []
    for cal in hist:
        for _, i, _k in cal:
            for s in (i, strip_slash(i)):
                if s not in ids:
                    ids.append(s)
    tzp.use(prov)     # empty cache
    try:
        provider = tzp._TZP__provider
        flags = [('1' if provider.knows_timezone_id(s) else '0') + ('1' if tzp.timezone(s) is not None else '0') for s in ids]
    finally:
        tzp.use_zoneinfo()
    return ids, flags


def run_history(hist, prov):
    """parse the calendars in one process state; per calendar the zone each DTSTART got: p / c<k> / n"""
    from icalendar import Calendar
    from icalendar.timezone import tzp
    tzp.use(prov)     # resets the process-wide cache
    res = []
    try:
        for cal in hist:
            try:
                c = Calendar.from_ical(cal_text(cal))
            except Exception as e:  # noqa: BLE001
                res.append([err_name(e)])
                continue
            r = []
            for ev in c.walk('VEVENT'):
                d = ev['DTSTART'].dt
                if d.tzinfo is None:
                    r.append('n')
                else:
                    o = int(d.utcoffset().total_seconds())
                    r.append(f'c{o // 3600}' if o % 3600 == 17 * 60 else 'p')
            res.append(r)
    finally:
        tzp.use_zoneinfo()
    return res


# ------------------------------------------------------------------ oracle

def plain_dst_switch(d, es, idx):
    """is the onset es[idx] a switch between a STANDARD and a DAYLIGHT observance by the DAYLIGHT
    observance's own amount (the case dateutil's wall-clock conversion is built for)?"""
    new = d['obs'][es[idx][1]]
    if idx == 0:
        # before the first onset dateutil answers with the first STANDARD component of the file
        fallback = next((o for o in d['obs'] if o['kind'] == 'STANDARD'), d['obs'][0])
        if new['kind'] == 'STANDARD':
            return fallback is new
        return fallback['off_to'] == new['off_from'] and new['off_to'] > new['off_from']
    old = d['obs'][es[idx - 1][1]]
    if new['off_from'] != old['off_to'] or new['kind'] == old['kind']:
        return False
    dst = new if new['kind'] == 'DAYLIGHT' else old
    amount = dst['off_to'] - dst['off_from']
    return amount > 0 and new['off_to'] - new['off_from'] == (amount if new is dst else -amount)


def classify(d, prov, t, es):
    """finding class of a failure at instant t (None = not a recorded finding)"""
    names = {}
    for o in d['obs']:
        if o['tzname'] is not None:
            names.setdefault(o['tzname'], set()).add(o['kind'])
    # exact region (Lean C12.assertion_error_iff_daylight_only): every observance that contributes an onset is DAYLIGHT;
    # a STANDARD observance whose rule expands to nothing does not help
    if prov == 'pytz' and not any(o['kind'] == 'STANDARD' and expand(o) for o in d['obs']):
        return 'daylight-only-definition'
    if prov == 'pytz' and any(len(k) > 1 for k in names.values()):
        return 'tzname-shared-by-standard-and-daylight'
    if not well_separated(d, es):
        return 'onsets-closer-than-jump'
    if prov == 'zoneinfo':
        if any(expand(o) != expand(o, until_local=True) for o in d['obs']):
            return 'dateutil-until-read-as-local'
        if t is not None:
            offs = [o[k] for o in d['obs'] for k in ('off_from', 'off_to')]
            jump = max(offs) - min(offs)      # dateutil compares wall clocks: an onset can be misplaced by any such difference
            for idx, (u, _) in enumerate(es):
                if abs(t - u) <= jump and not plain_dst_switch(d, es, idx):
                    return 'dateutil-wallclock-conversion'
    return None


def check_definition(ctx, d):
    text = vtimezone_text(d)
    es = entries(d)
    ins = instants(ctx.rng, es)
    ctx.evaluated(('def', text), len(es) >= 2)
    res = {}
    for prov in ('pytz', 'zoneinfo'):
        try:
            tz = build(text, prov)
        except Exception as e:  # noqa: BLE001
            cls = classify(d, prov, None, es)
            ctx.violation('build', {'vtimezone': text, 'provider': prov},
                          f'parsing the definition and building its zone under {prov} raised {describe(e)}', cls)
            try:        # the same definition through the direct API (component exists already)
                build_direct(text, prov)
            except Exception as e2:  # noqa: BLE001
                ctx.violation('build-direct', {'vtimezone': text, 'provider': prov, 'direct': True},
                              f'Timezone.to_tz() under {prov} raised {describe(e2)}', cls)
            continue
        bad = None
        got_all = []
        if any(not expand(o) for o in d['obs']):
            # a rule whose UNTIL precedes its DTSTART: whether DTSTART still counts as an onset is read differently by RFC 5545
            # 3.3.10 ("the DTSTART property value always counts as the first occurrence") and by the rule text alone; dateutil
            # keeps DTSTART. The oracle takes no side: only the construction is checked for such definitions (DESIGN 5.3/14).
            ctx.count('oracle:empty-rule-instants-skipped')
            continue
        for t in ins:
            want = rfc_at(d, es, t)
            if want is None or want == 'tie':
                got_all.append(None)
                continue
            o = d['obs'][want]
            try:
                off, nm, ds = at(tz, t)
            except Exception as e:  # noqa: BLE001
                off, nm, ds = err_name(e), None, None
            got_all.append(off)
            ok = off == o['off_to'] and (o['tzname'] is None or nm == o['tzname']) and (o['kind'] != 'STANDARD' or ds == 0)
            if not ok and bad is None:
                bad = (t, (off, nm, ds), (o['off_to'], o['tzname'], o['kind']))
                cls = classify(d, prov, t, es)
                ctx.violation('rfc-onset', {'vtimezone': text, 'provider': prov, 't': t},
                              f'at {dt.datetime.fromtimestamp(t, UTC):%Y-%m-%dT%H:%M:%SZ} the {prov} zone reports (offset, name, dst) = '
                              f'{(off, nm, ds)}; RFC 5545 onset rule gives {o["kind"]} offset {o["off_to"]} name {o["tzname"]}', cls)
        res[prov] = got_all
    if len(res) == 2:
        for t, a, b in zip(ins, res['pytz'], res['zoneinfo']):
            if a is not None and b is not None and a != b:
                cls = classify(d, 'zoneinfo', t, es) or classify(d, 'pytz', t, es)
                ctx.violation('providers-disagree', {'vtimezone': text, 't': t},
                              f'at {dt.datetime.fromtimestamp(t, UTC):%Y-%m-%dT%H:%M:%SZ} pytz conversion gives offset {a}, zoneinfo conversion {b}', cls)
                break


def check_history(ctx, hist, prov):
    from icalendar.timezone import tzp
    ids, flags = id_table(hist, prov)
    provided = {i for i in ids if independently_known(i, prov) or independently_known(strip_slash(i), prov)}
    got = run_history(hist, prov)
    ctx.evaluated(('hist', prov, repr(hist)))
    seen_defs = {}          # clean id -> k of the first definition in the process
    for ci, cal in enumerate(hist):
        own = {}
        dup = set()
        for kind, i, k in cal:
            if kind == 'v':
                c = strip_slash(i)
                if c in own and own[c] != k:
                    dup.add(c)
                own.setdefault(c, k)
        ui = 0
        defined_so_far = set()
        if got[ci] and got[ci][0].startswith('err:'):
            ctx.violation('history-parse-raises', {'history': hist, 'provider': prov, 'calendar': ci},
                          f'Calendar.from_ical raised {got[ci][0][4:]} for calendar {ci + 1} of the history', None)
            continue
        for kind, i, k in cal:
            c = strip_slash(i)
            if kind == 'v':
                defined_so_far.add(c)
                continue
            r = got[ci][ui]
            ui += 1
            if i in provided or c in provided or c not in own or c in dup:
                continue
            want = f'c{own[c]}'
            if r != want:
                if c not in defined_so_far and (c not in seen_defs or seen_defs[c] == own[c]) :
                    cls = 'tz-definition-after-use'
                elif c in seen_defs and seen_defs[c] != own[c]:
                    cls = 'tz-cache-first-wins'
                else:
                    cls = None
                ctx.violation('own-definition', {'history': hist, 'provider': prov, 'calendar': ci, 'tzid': i},
                              f'calendar {ci + 1} defines {i} as definition {own[c]} but its DTSTART;TZID={i} got {r} '
                              f'(n = no zone, c<k> = definition k)', cls)
        for c, k in own.items():
            seen_defs.setdefault(c, k)


def oracle(ctx):
    light = not (ctx.tier == 'thorough' or ctx.escalate)
    n = 120 if light else 1200
    for d in definitions(ctx, n, n, n):
        check_definition(ctx, d)
    for prov in ('zoneinfo', 'pytz'):
        for hist in histories(ctx, 100 if light else 1000):
            check_history(ctx, hist, prov)


def replay(ctx, data):
    inp = data['input']
    if 'history' in inp:
        hist = [[tuple(x) for x in cal] for cal in inp['history']]
        check_history(ctx, hist, inp['provider'])
    elif 'vtimezone' in inp:
        from icalendar import Timezone
        text = inp['vtimezone']
        for prov in ([inp['provider']] if 'provider' in inp else ['pytz', 'zoneinfo']):
            try:
                tz = build_direct(text, prov) if inp.get('direct') else build(text, prov)
                if 't' in inp:
                    print(prov, 'at', inp['t'], '->', at(tz, inp['t']))
            except Exception as e:  # noqa: BLE001
                print(prov, 'raised', describe(e))
        print('expected:', data.get('detail'))
        return 1
    for v in ctx.violations:
        print('REPRODUCED', v['kind'], v['detail'])
    if not ctx.violations:
        print('not reproduced on the current tree')
    return 1 if ctx.violations else 0
