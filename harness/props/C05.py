"""C05 - Content-line join/split are inverse; values cannot inject structure."""
import re

from harness import gen
from harness.proto import enc, has_surrogate
from harness.props.C08 import enc_params, params_items, canon, got_of

LEAN = ['ICal.Props.C05']
LEVEL = 'proof'
FINGERPRINTS = ['parser.Contentline', 'parser.escape_string', 'parser.unescape_string', 'parser.dquote',
                'parser.q_split', 'parser.Parameters', 'cal.Component.from_ical', 'cal.Component.content_line']
RULE = ('values and parameter values built from the hostile pieces {\\ ; : , " % CR LF NUL VT FF 0x1c 0x85 U+2028 '
        'BEGIN:VEVENT END:VEVENT %2C ...} (all sequences of up to 3 pieces, then seeded random up to 8 pieces) placed '
        'in TEXT, URI, CAL-ADDRESS, X- property, CATEGORIES item, parameter value and parameter list positions; '
        'exhaustive lines up to length 5 over {A ; : = " \\ , %} for parts()/raw_value(); non-trivial = contains a '
        'delimiter, escape or line-break character')
ASSUMPTIONS = ['python -O would strip the LF assertion of Contentline.__new__ (not modelled)',
               'property and parameter names are ASCII tokens']

PIECES = ['\\', ';', ':', ',', '"', '%', '\r', '\n', '\x00', '\x0b', '\x0c', '\x1c', '\x85', ' ',
          'BEGIN:VEVENT', 'END:VEVENT', '%2C', '%3A', '%5C', 'a', ' ', '=', 'X=1', '\r\nATTENDEE:mailto:x', 'N']
VALUE_HAZARD = re.compile(r'\\[,:;\\]|%2C|%3A|%3B|%5C')
PARAM_HAZARD = re.compile(r'\\[,:;\\]|\\$|%2C|%3A|%3B|%5C')


def hostile(ctx):
    n = len(PIECES)
    for a in PIECES:
        yield a
        for b in PIECES:
            yield a + b
    for _ in range(ctx.vol(1200)):
        yield ''.join(ctx.rng.choice(PIECES) for _ in range(ctx.rng.randint(1, 8)))


def correspondence(ctx):
    from icalendar.parser import Contentline, Parameters, escape_string, unescape_string
    for s in gen.all_strings(['A', ';', ':', '=', '"', '\\', ',', '%'], 5):
        cl = Contentline(s)
        try:
            n, ps, v = cl.parts()
            r = 'ok\t' + enc(n) + '\t' + enc_params(params_items(ps)) + '\t' + enc(v)
        except ValueError:
            r = 'err:ValueError'
        ctx.corr('parts', [enc(s), '0'], r)
        ctx.corr('raw_value', [enc(s)], enc(cl.raw_value()))
    for s in gen.all_strings(['\\', ',', ':', ';', '%', '2', 'C', '5', 'a'], 4):
        ctx.corr('esc_string', [enc(s)], enc(escape_string(s)))
        ctx.corr('unesc_string', [enc(s)], enc(unescape_string(s)))
    for s in hostile(ctx):
        if has_surrogate(s):
            continue
        for line in ('X-A;K=' + s + ':v', 'URL:' + s, 'X-A;K="' + s.replace('"', '') + '";L=b:' + s):
            if '\n' in line:
                continue
            cl = Contentline(line)
            try:
                n, ps, v = cl.parts()
                r = 'ok\t' + enc(n) + '\t' + enc_params(params_items(ps)) + '\t' + enc(v)
            except ValueError:
                r = 'err:ValueError'
            ctx.corr('parts', [enc(line), '0'], r)
            ctx.corr('raw_value', [enc(line)], enc(cl.raw_value()))
        for params in ({}, {'K': s.replace('"', '')}, {'K': [s.replace('"', ''), 'x']}):
            p = Parameters(params)
            try:
                cl = Contentline.from_parts('X-A', p, s_value(s))
                r = 'ok\t' + enc(str(cl))
            except AssertionError:
                r = 'err:AssertionError'
            ctx.corr('from_parts', [enc('X-A'), enc_params(params_items(p)), enc(s), '1'], r)


class s_value(str):
    """a value whose to_ical() is the text itself (like vUri)"""
    def to_ical(self):
        return self.encode('utf-8')


def skeleton(c):
    return (c.name, sorted((k, tuple(sorted(getattr(v, 'params', {}).keys())))
                           for k, vs in c.items() for v in (vs if isinstance(vs, list) else [vs])),
            [skeleton(s) for s in c.subcomponents])


def build(position, s):
    """an event with the hostile string in one position; returns (calendar, intended skeleton is computed by caller)"""
    from icalendar import Calendar, Event
    from icalendar.prop import vCalAddress, vUri
    cal = Calendar()
    e = Event()
    e.add('uid', 'u1')
    if position == 'text':
        e.add('summary', s)
    elif position == 'uri':
        e['URL'] = vUri(s)
    elif position == 'caladdr':
        e['ATTENDEE'] = vCalAddress(s)
    elif position == 'xprop':
        e.add('x-custom', s)
    elif position == 'category':
        e.add('categories', [s, 'k'])
    elif position == 'param':
        e.add('x-custom', 'v', parameters={'x-p': s})
    elif position == 'paramlist':
        e.add('x-custom', 'v', parameters={'x-p': [s, 'z']})
    elif position == 'paramlast':
        e.add('x-custom', s, parameters={'x-p': s, 'x-q': 'b'})
    elif position == 'paraminject':
        e.add('x-custom', 'x;X-INJECTED=1:rest', parameters={'x-p': s})
    elif position == 'valueinject':
        e['URL'] = vUri(s + ';X-INJECTED=1:rest')
    cal.add_component(e)
    return cal


POSITIONS = ['text', 'uri', 'caladdr', 'xprop', 'category', 'param', 'paramlist', 'paramlast', 'paraminject',
             'valueinject']


def check_injection(ctx, position, s):
    from icalendar import Calendar
    cal = build(position, s)
    want = skeleton(cal)
    try:
        b = cal.to_ical()
    except (AssertionError, ValueError, UnicodeEncodeError):
        return  # serialisation refused
    try:
        back = Calendar.from_ical(b)
    except ValueError:
        return  # refused as a whole when read back
    got = skeleton(back)
    if got == want:
        return
    # allowed: the offending property alone is rejected and recorded (inside VEVENT)
    ev = back.subcomponents[0] if back.subcomponents else None
    if ev is not None and ev.errors and len(back.subcomponents) == 1:
        wprops = want[2][0][1]
        gprops = got[2][0][1]
        if got[0] == want[0] and got[2][0][0] == want[2][0][0] and not got[2][0][2] \
                and all(p in wprops for p in gprops) and len(gprops) == len(wprops) - 1:
            return
    cls = None
    if position in ('param', 'paramlist', 'paramlast', 'paraminject') and PARAM_HAZARD.search(s.replace('"', "'")):
        cls = 'param-escape-hazard'
    ctx.violation('injection', {'position': position, 's': s},
                  f'read back skeleton {got!r}, intended {want!r}; bytes {b!r}', cls)


def check_joinsplit(ctx, s, pads=None):
    """from_parts then parts: same name, same params, value text that decodes to the same value"""
    from icalendar.parser import Contentline, Parameters
    from icalendar.prop import vText, vUri
    # parameter values of the domain (no double quote, no control characters), hostile ones included
    pv = ''.join(c for c in s if c != '"' and ord(c) >= 32 and ord(c) != 127)
    for kind, val in (('uri', vUri(s)), ('text', vText(s)), ('text-hostile-param', vText(s))):
        p = Parameters({'K': 'a b', 'L': ['x', 'y,z']})
        if kind == 'text-hostile-param':
            # TEXT goes through raw_value(): it must come back whatever the parameters hold
            p = Parameters({'K': pv, 'L': ['x', pv]})
            try:
                cl = Contentline.from_parts('X-NAME', p, val)
                dec = str(vText.from_ical(cl.raw_value()))
            except (AssertionError, UnicodeEncodeError):
                continue
            want = s.replace('\\N', '\n').replace('\r\n', '\n')
            if dec != want:
                ctx.violation('joinsplit-value', {'kind': kind, 's': s},
                              f'TEXT behind parameters K={pv!r} decodes to {dec!r}, expected {want!r}')
            continue
        try:
            cl = Contentline.from_parts('X-NAME', p, val)
        except (AssertionError, UnicodeEncodeError):
            continue
        try:
            n, ps, v = cl.parts()
        except ValueError as e:
            ctx.violation('joinsplit', {'kind': kind, 's': s}, f'parts() failed: {e}')
            continue
        # the joined line as it goes over the wire: folded by to_ical(), unfolded by from_ical(); wherever the fold
        # falls (the padding sweeps it across the hostile characters) the same line comes back
        if pads is None:
            pads = range(30, 80) if ('\r' in s and len(s) <= 3) else ctx.rng.sample(range(30, 80), 3)
        for k in [0] + list(pads):
            try:
                clp = Contentline.from_parts('X-NAME', p, type(val)('p' * k + s)) if k else cl
                wire = clp.to_ical()
            except (AssertionError, UnicodeEncodeError, ValueError):
                continue
            back = Contentline.from_ical(wire)
            if back != clp:
                ctx.violation('joinsplit-wire', {'kind': kind, 's': s, 'pad': k},
                              f'line {str(clp)!r} is sent as {wire!r} and read back as {str(back)!r}')
                break
        if n != 'X-NAME' or got_of(ps) != canon({'K': 'a b', 'L': ['x', 'y,z']}):
            ctx.violation('joinsplit', {'kind': kind, 's': s}, f'name/params changed: {n!r} {got_of(ps)!r}')
        if kind == 'uri':
            if v != s:
                cls = 'value-unescape-nontext' if VALUE_HAZARD.search(s) else None
                ctx.violation('joinsplit-value', {'kind': kind, 's': s}, f'value text {v!r}, expected {s!r}', cls)
        else:
            dec = str(vText.from_ical(cl.raw_value()))
            want = s.replace('\\N', '\n').replace('\r\n', '\n')
            if dec != want:
                ctx.violation('joinsplit-value', {'kind': kind, 's': s}, f'TEXT decodes to {dec!r}, expected {want!r}')


def check_no_shared_state(ctx):
    """splitting a line returns its own parameters: editing what one call returned must not change what a
    later call returns for the same (or another) line with the same parameter text"""
    from icalendar.parser import Contentline, Parameters
    from icalendar.prop import vText
    lines = ['ATTENDEE;CN=Max;ROLE=CHAIR:mailto:a@example.com', 'ORGANIZER;ROLE=CHAIR:mailto:b@example.com',
             'X-A;K=v;L="x,y",z:1', 'SUMMARY;LANGUAGE=en:text', 'TRIGGER;RELATED=START:-PT15M',
             'X-PLAIN:value', 'UID:1', 'SUMMARY:no parameters here']
    for ln in lines:
        ctx.evaluated(('alias', ln))
        n, p, v = Contentline(ln).parts()
        snap = got_of(p)
        p['X-INJECTED'] = 'yes'
        for k, val in list(p.items()):
            if isinstance(val, list):
                val.append('extra')
        for other in [ln] + [x for x in lines if x.split(':')[0].split(';', 1)[-1] == ln.split(':')[0].split(';', 1)[-1]]:
            n2, p2, v2 = Contentline(other).parts()
            if other == ln and got_of(p2) != snap:
                ctx.violation('shared-state', {'position': 'parts-twice', 's': ln},
                              f'a second parts() of {ln!r} returned {got_of(p2)!r} after the first result was edited; expected {snap!r}')
            if 'X-INJECTED' in p2:
                ctx.violation('shared-state', {'position': 'parts-twice', 's': other},
                              f'parts() of {other!r} returned a parameter that was added to the result of another call')
    # from_parts must not keep or alter the Parameters it is given
    p = Parameters({'K': ['a', 'b'], 'L': 'c'})
    before = got_of(p)
    Contentline.from_parts('X-N', p, vText('v'))
    if got_of(p) != before:
        ctx.violation('shared-state', {'position': 'from_parts', 's': 'K'}, 'from_parts modified the parameter map it was given')


def oracle(ctx):
    check_no_shared_state(ctx)
    for s in hostile(ctx):
        if has_surrogate(s):
            continue
        ctx.evaluated(('h', s))
        for pos in POSITIONS:
            check_injection(ctx, pos, s)
        check_joinsplit(ctx, s)


def replay(ctx, data):
    inp = data['input']
    if 'position' in inp:
        check_injection(ctx, inp['position'], inp['s'])
    else:
        check_joinsplit(ctx, inp['s'], [inp['pad']] if 'pad' in inp else None)
    for v in ctx.violations:
        print('REPRODUCED', v['kind'], v['detail'][:500], 'class=', v['cls'])
    if not ctx.violations:
        print('not reproduced on the current tree')
    return 1 if ctx.violations else 0
