"""C13 - a VTIMEZONE generated from a provider zone is well-formed and reproduces the zone."""
import bisect
import calendar as _calendar
import datetime as dt
import multiprocessing
import os

from harness import proto
from harness.proto import enc

LEAN = ['ICal.Props.C13']
LEVEL = 'proof'
FINGERPRINTS = ['cal.Timezone.from_tzinfo', 'cal.Timezone.from_tzid', 'cal.Timezone._from_tzinfo_skip_search',
                'cal.Timezone.get_transitions', 'cal.Timezone.to_tz']
RULE = ('zones = the recorded finding zones + a seeded sample or all ids (thorough) of the provider, both '
        'providers (quick: 60 seeded ids); windows = the default 1970-2038 and seeded sub-windows; the zone table is read from the tz data '
        '(pytz tables / CPython\'s pure-Python TZif reader), sent to the model, and the model\'s observances are compared '
        'with Timezone.from_tzid; oracle instants = every transition -1s/0/+1s, interval midpoints and a 6-hour grid '
        '(quick: 30-day grid plus one dense 6-hour stretch). A case is non-trivial when the zone has a transition in the window')
ASSUMPTIONS = ['the zone table (UTC transitions, offsets, dst flags, abbreviations) read from the tz data is the zone the '
               'provider implements; sampled against the provider at every transition -1s/0/+1s',
               'zoneinfo clock: fold-0 wall time, offset changes at T + max(from, to) (CPython _ts_to_local); pytz clock: UTC',
               'datetime overflow horizon = year 9999; its exact value does not influence the result',
               'RFC 5545 reading of the generated component computed independently in Python; conversion back uses to_tz']

UTC = dt.timezone.utc
EPOCH = dt.datetime(1970, 1, 1)
FINDING_ZONES = ['Europe/Berlin', 'Africa/Cairo', 'Africa/Casablanca', 'Africa/El_Aaiun', 'Europe/Lisbon', 'Asia/Gaza',
                 'Asia/Hebron', 'Pacific/Apia', 'America/New_York', 'Australia/Lord_Howe', 'UTC', 'Africa/Monrovia']
H_WALL = int((dt.datetime(9999, 12, 31, 23, 59, 59) - EPOCH).total_seconds())
MAX_STEP = 64 * 86400


def secs(d):
    return int((d - EPOCH).total_seconds())


# ------------------------------------------------------------------ zone tables (independent of icalendar)

def pytz_table(tzid):
    """(init, rows) in UTC: rows = [(T, off, is_std, name)]"""
    import pytz
    tz = pytz.timezone(tzid)
    if not hasattr(tz, '_utc_transition_times'):
        off = int(tz.utcoffset(None).total_seconds()) if tz.utcoffset(None) is not None else 0
        return (off, True, tz.tzname(None)), []
    infos = [(int(i[0].total_seconds()), i[1].total_seconds() == 0, i[2]) for i in tz._transition_info]
    rows = [(secs(t), ) + i for t, i in zip(tz._utc_transition_times[1:], infos[1:])]
    return infos[0], rows


def zi_table(tzid):
    """(init, rows) in UTC from CPython's pure-Python TZif reader (transitions of the footer rule up to 2041 added)"""
    from zoneinfo import _zoneinfo
    z = _zoneinfo.ZoneInfo.no_cache(tzid)
    tt = lambda i: (int(i.utcoff.total_seconds()), i.dstoff.total_seconds() == 0, i.tzname)
    rows = [(t, ) + tt(i) for t, i in zip(z._trans_utc, z._ttinfos)]
    after = z._tz_after
    if not rows and isinstance(after, _zoneinfo._ttinfo):
        return tt(after), []
    init = tt(z._tti_before) if rows else None
    if isinstance(after, _zoneinfo._TZStr):
        last = rows[-1][0] if rows else -10 ** 12
        y0 = dt.datetime.fromtimestamp(max(last, 0), UTC).year if rows else 1969
        extra = []
        for y in range(y0, 2042):
            s, e = after.transitions(y)
            extra.append((int(s - after.std.utcoff.total_seconds()), ) + tt(after.dst))
            extra.append((int(e - after.dst.utcoff.total_seconds()), ) + tt(after.std))
        extra.sort()
        for r in extra:
            if r[0] > last:
                rows.append(r)
        if init is None:
            init = tt(after.std)
    elif rows and isinstance(after, _zoneinfo._ttinfo) and tt(after) != rows[-1][1:]:
        pass
    # drop rows that change nothing
    out = []
    prev = init
    for r in rows:
        if r[1:] != prev:
            out.append(r)
            prev = r[1:]
    return init, out


def clean_rows(init, rows):
    out = []
    prev = init
    for r in rows:
        if r[1:] != prev:
            out.append(r)
            prev = r[1:]
    return out


def wall_rows(init, rows):
    """the same table on zoneinfo's fold-0 wall clock: row i starts at T_i + max(from_i, to_i)"""
    out = []
    prev = init[0]
    for t, off, std, nm in rows:
        out.append((t + max(prev, off), off, std, nm))
        prev = off
    return out


def table_at(init, rows, keys, t):
    i = bisect.bisect_right(keys, t)
    return init if i == 0 else rows[i - 1][1:]


def enc_info(i):
    return f'{i[0]}:{1 if i[1] else 0}:{enc(i[2])}'


def enc_rows(rows):
    return ';'.join(f'{r[0]}:{r[1]}:{1 if r[2] else 0}:{enc(r[3])}' for r in rows)


BASELINE_MAX_STEP = 64 * 86400      # the coarsest search step of the unchanged tree: the recorded finding is defined by it


def chain_ok_baseline(init, rows, first, last):
    """the region where the recorded finding `tzgen-excursion` does NOT apply, stated with the step of the unchanged tree and
    not with the table the code has now (a class that follows the code would grow with a regression): every change of
    (offset, dst flag, name) strictly inside the window is an offset change, and the old offset does not come back within
    BASELINE_MAX_STEP. Mirrors Model/TzGen.lean chainGo; rows are (pos, off, isStd, name), ascending."""
    if any(a[0] >= b[0] for a, b in zip(rows, rows[1:])):
        return False
    prev = tuple(init)
    for i, r in enumerate(rows):
        info = tuple(r[1:])
        if r[0] <= first:
            prev = info
            continue
        if last <= r[0]:
            return True
        if info == prev:
            continue
        if info[0] == prev[0]:
            return False
        if any(q[0] < r[0] + BASELINE_MAX_STEP and q[1] == prev[0] for q in rows[i + 1:]):
            return False
        prev = info
    return True


# ------------------------------------------------------------------ one (zone, provider, window) job

def component_view(tz):
    """the generated component as the model prints it"""
    out = []
    for s in tz.subcomponents:
        rd = []
        if 'RDATE' in s:
            r = s['RDATE']
            for lst in (r if isinstance(r, list) else [r]):
                rd += [secs(x.dt) for x in lst.dts]
        out.append(f"{1 if s.name == 'STANDARD' else 0}:{int(s.TZOFFSETFROM.total_seconds())}:{int(s.TZOFFSETTO.total_seconds())}:"
                   f"{enc(str(s['TZNAME']))}:{secs(s.DTSTART)}:{' '.join(map(str, rd))}")
    return ';'.join(out)


def gen_entries(tz):
    """[(RFC onset instant, offset_to, name, kind)] of a generated component, sorted"""
    es = []
    for s in tz.subcomponents:
        f = int(s.TZOFFSETFROM.total_seconds())
        ons = [secs(s.DTSTART)]
        if 'RDATE' in s:
            r = s['RDATE']
            for lst in (r if isinstance(r, list) else [r]):
                ons += [secs(x.dt) for x in lst.dts]
        for l in ons:
            es.append((l - f, int(s.TZOFFSETTO.total_seconds()), str(s['TZNAME']), s.name))
    es.sort(key=lambda e: e[0])
    return es


def rfc_candidates(es, keys, t):
    """(offset, name) of every observance whose onset is the latest one not after t"""
    i = bisect.bisect_right(keys, t)
    if i == 0:
        return None
    u = keys[i - 1]
    j = i - 1
    out = set()
    while j >= 0 and keys[j] == u:
        out.add((es[j][1], es[j][2]))
        j -= 1
    return out


def src_at(tz, t):
    d = dt.datetime.fromtimestamp(t, UTC).astimezone(tz)
    return int(d.utcoffset().total_seconds()), d.tzname()


def job(args):
    """runs in a worker process; returns plain data"""
    tzid, prov, first_date, last_date, dense, regen, seed = args
    import random
    import zlib
    from icalendar import Timezone
    from icalendar.timezone import tzp
    rng = random.Random(zlib.crc32(repr((tzid, prov, str(first_date), str(last_date), seed)).encode()))
    res = {'corr': [], 'viol': [], 'evals': 0, 'counts': {}, 'chain': None, 'chain_baseline': None, 'key': (tzid, prov, str(first_date), str(last_date))}

    def count(k, n=1):
        res['counts'][k] = res['counts'].get(k, 0) + n

    tzp.use(prov)
    try:
        tz = tzp.timezone(tzid)
        if tz is None:
            return res
        init, rows = pytz_table(tzid) if prov == 'pytz' else zi_table(tzid)
        rows = clean_rows(init, rows)
        keys = [r[0] for r in rows]
        fdt = dt.datetime(first_date.year, first_date.month, first_date.day)
        ldt = dt.datetime(last_date.year, last_date.month, last_date.day)
        if prov == 'pytz':
            first = _calendar.timegm(tz.localize(fdt).utctimetuple())
            last = _calendar.timegm(tz.localize(ldt).utctimetuple())
            clock_rows, clock = rows, '0'
            first_i, last_i = first, last
            horizon = H_WALL - 2 * 86400
        else:
            first, last = secs(fdt), secs(ldt)
            clock_rows, clock = wall_rows(init, rows), '1'
            first_i = _calendar.timegm(fdt.replace(tzinfo=tz).utctimetuple())
            last_i = _calendar.timegm(ldt.replace(tzinfo=tz).utctimetuple())
            horizon = H_WALL
        # the table is the zone: sample the provider
        for t in keys:
            if first_i - 86400 <= t <= last_i + 86400:
                for x in (t - 1, t, t + 1):
                    if src_at(tz, x) != (lambda i: (i[0], i[2]))(table_at(init, rows, keys, x)):
                        res['viol'].append(('table-differs-from-provider', {'zone': tzid, 'provider': prov, 't': x},
                                            f'tz data table and provider disagree at {x}', 'infra'))
        sent = [r for r in clock_rows if r[0] <= last + 4 * 366 * 86400]
        model_args = [clock, str(horizon), str(first), str(last), str(secs(ldt)), enc_info(init), enc_rows(sent)]
        try:
            g = Timezone.from_tzid(tzid, tzp, first_date, last_date)
            impl = component_view(g)
        except Exception as e:  # noqa: BLE001
            g = None
            impl = 'err:' + type(e).__name__
        has_tr = any(first_i < t < last_i for t in keys)
        res['corr'].append(('tzgen', model_args, impl, has_tr))
        res['chain'] = ('tzgen_chain', [enc_info(init), enc_rows(sent), str(first), str(last)])
        res['chain_baseline'] = chain_ok_baseline(init, sent, first, last)
        res['evals'] += 1
        count('provider:' + prov)
        count('zones-with-transitions' if has_tr else 'zones-without-transitions')
        inp = {'zone': tzid, 'provider': prov, 'first_date': str(first_date), 'last_date': str(last_date)}
        if g is None:
            res['viol'].append(('generate-raises', inp, f'Timezone.from_tzid raised {impl}', 'EXC'))
            return res

        # ---- well-formed
        problems = []
        if str(g.get('TZID')) != tzid:
            problems.append('TZID missing or different')
        if not g.subcomponents:
            problems.append('no observance')
        for s in g.subcomponents:
            for k in ('DTSTART', 'TZOFFSETFROM', 'TZOFFSETTO', 'TZNAME'):
                if k not in s:
                    problems.append(f'{s.name} without {k}')
            if s.name not in ('STANDARD', 'DAYLIGHT'):
                problems.append(f'sub-component {s.name}')
        for s in g.subcomponents:
            ons = [s.DTSTART] + ([x.dt for x in s['RDATE'].dts] if 'RDATE' in s else [])
            for o in ons:
                if not (fdt <= o <= ldt):
                    problems.append(f'onset {o} outside the window')
        try:
            g2 = Timezone.from_ical(g.to_ical())
            if g2.to_ical() != g.to_ical():
                problems.append('does not survive serialise-and-parse')
        except Exception as e:  # noqa: BLE001
            problems.append(f'cannot be serialised and parsed: {type(e).__name__}')
        for p in problems[:2]:
            res['viol'].append(('not-wellformed', inp, p, None))

        # ---- faithful: RFC reading
        inside = [t for t in keys if first_i <= t < last_i]
        ins = set()
        for t in inside:
            ins.update((t - 1, t, t + 1))
        bounds = [first_i] + inside + [last_i]
        for a, b in zip(bounds, bounds[1:]):
            ins.add((a + b) // 2)
        step = 6 * 3600 if dense else 30 * 86400 + 6 * 3600
        ins.update(range(first_i, last_i, step))
        if not dense and last_i - first_i > 120 * 86400:
            s0 = rng.randrange(first_i, last_i - 100 * 86400)
            ins.update(range(s0, s0 + 100 * 86400, 6 * 3600))
        ins = sorted(t for t in ins if first_i <= t < last_i)
        es = gen_entries(g)
        gkeys = [e[0] for e in es]
        jumps = [(r[0], abs(r[1] - (rows[i - 1][1] if i else init[0]))) for i, r in enumerate(rows)]

        by_name = {}
        for s in g.subcomponents:
            by_name.setdefault(str(s.get('TZNAME')), set()).add(s.name)
        shared = prov == 'pytz' and any(len(k) > 1 for k in by_name.values())
        starts_in_dst = prov == 'zoneinfo' and not table_at(init, rows, keys, first_i)[1]
        # candidate classes in priority order; 'tzgen-excursion?' is decided by the model's chainOK in the main process
        others = ['tzgen-excursion?'] + (['tzname-shared-by-standard-and-daylight'] if shared else [])

        def classify(t):
            j = bisect.bisect_right(keys, t)
            for idx in (j - 1, j):
                if 0 <= idx < len(jumps) and jumps[idx][1] and abs(t - jumps[idx][0]) <= jumps[idx][1]:
                    return 'tzgen-onset-shift'
            if starts_in_dst and t - first_i <= 26 * 3600:
                return 'tzgen-window-starts-in-dst'
            return '|'.join(others)

        seen = set()
        for t in ins:
            want = table_at(init, rows, keys, t)
            got = rfc_candidates(es, gkeys, t)
            res['evals'] += 1
            if got is None or (want[0], want[2]) not in got:
                cls = classify(t)
                if cls in seen:
                    continue
                seen.add(cls)
                res['viol'].append(('rfc-reading', dict(inp, t=t),
                                    f'{tzid} ({prov}) at {dt.datetime.fromtimestamp(t, UTC):%Y-%m-%dT%H:%M:%SZ}: source zone has '
                                    f'offset {want[0]} abbreviation {want[2]}; the generated VTIMEZONE read by RFC 5545 onset rules '
                                    f'gives {sorted(got) if got else None}', cls))
        # ---- faithful: converted back to a zone object
        try:
            back = g.to_tz(tzp, lookup_tzid=False)
        except Exception as e:  # noqa: BLE001
            back = None
            only_daylight = bool(g.subcomponents) and all(s.name == 'DAYLIGHT' for s in g.subcomponents)
            if only_daylight and prov == 'pytz' and isinstance(e, AssertionError):
                # the window lies wholly in summer time: the generated definition has DAYLIGHT observances only, which
                # the pytz conversion cannot read (C12 daylight-only-definition) - the recorded window-starts-in-dst defect
                res['viol'].append(('convert-raises', inp, f'to_tz raised {type(e).__name__} on a DAYLIGHT-only generated definition',
                                    'tzgen-window-starts-in-dst'))
            else:
                res['viol'].append(('convert-raises', inp, f'to_tz raised {type(e).__name__}: {e}', '|'.join(others)))
        if back is not None:
            conv = set()
            pick = inside if len(inside) <= 40 else rng.sample(inside, 40)
            for t in pick:
                conv.update((t - 1, t, t + 1))
            conv.update(rng.sample(ins, min(len(ins), 60)))
            seen = set()
            for t in sorted(x for x in conv if first_i <= x < last_i):
                want = table_at(init, rows, keys, t)
                try:
                    got = src_at(back, t)
                except Exception as e:  # noqa: BLE001
                    got = ('err:' + type(e).__name__, None)
                res['evals'] += 1
                if got != (want[0], want[2]):
                    cls = classify(t)
                    if got[0] == 'err:ValueError' and any(
                            s.name == 'DAYLIGHT' and abs((s.TZOFFSETTO - s.TZOFFSETFROM).total_seconds()) >= 86400
                            for s in g.subcomponents):
                        # a DAYLIGHT amount of a whole day (Apia skipped 2011-12-30 while on summer time)
                        cls = 'tzgen-dst-amount-24h'
                    if cls in seen:
                        continue
                    seen.add(cls)
                    res['viol'].append(('converted-zone', dict(inp, t=t),
                                        f'{tzid} ({prov}) at {dt.datetime.fromtimestamp(t, UTC):%Y-%m-%dT%H:%M:%SZ}: source zone has '
                                        f'(offset, abbreviation) {(want[0], want[2])}; the zone object built from the generated '
                                        f'VTIMEZONE gives {got}', cls))
            # ---- generating again from the converted zone
            if regen:
                try:
                    g3 = Timezone.from_tzinfo(back, tzid, first_date, last_date)
                    same = g3.to_ical() == g.to_ical()
                except Exception as e:  # noqa: BLE001
                    same = f'raised {type(e).__name__}'
                res['evals'] += 1
                if same is not True:
                    a, b = component_view(g), (component_view(g3) if same is False else '')
                    shape = lambda v: [x.split(':')[:4] for x in v.split(';')]
                    if same is False and shape(a) == shape(b) and has_tr and prov == 'pytz':
                        cls = 'tzgen-onset-shift'
                    else:
                        cls = '|'.join(others + (['tzgen-window-starts-in-dst'] if starts_in_dst else []))
                    res['viol'].append(('regenerate-differs', inp,
                                        f'{tzid} ({prov}): generating again from the converted zone '
                                        + ('gives other DTSTART/RDATE values' if cls == 'tzgen-onset-shift' else f'differs ({same})'), cls))
    finally:
        tzp.use_zoneinfo()
    return res


# ------------------------------------------------------------------ suite

def zone_ids(prov):
    if prov == 'pytz':
        import pytz
        return sorted(pytz.all_timezones)
    import zoneinfo
    return sorted(z for z in zoneinfo.available_timezones() if z not in ('localtime', 'Factory'))


def jobs(ctx):
    thorough = ctx.tier == 'thorough' or ctx.escalate
    D = dt.date
    out = []
    for prov in ('zoneinfo', 'pytz'):
        ids = zone_ids(prov)
        if thorough:
            chosen = ids
        else:
            pool = [z for z in ids if z not in FINDING_ZONES]
            chosen = [z for z in FINDING_ZONES if z in ids] + ctx.rng.sample(pool, 60)
        for n, z in enumerate(chosen):
            out.append((z, prov, D(1970, 1, 1), D(2038, 1, 1), thorough, (n % 4 == 0) or z in FINDING_ZONES[:4], ctx.seed))
            y0 = ctx.rng.randint(1971, 2020)
            w = (D(y0, ctx.rng.randint(1, 12), ctx.rng.randint(1, 28)), D(ctx.rng.randint(y0 + 1, 2037), ctx.rng.randint(1, 12), ctx.rng.randint(1, 28)))
            if thorough or n % 2 == 0:
                out.append((z, prov, w[0], w[1], thorough, False, ctx.seed))
            if thorough:
                out.append((z, prov, D(2000, 1, 1), D(2030, 1, 1), False, n % 8 == 0, ctx.seed))
    return out


_RESULTS = {}


def run_jobs(ctx):
    key = (ctx.tier, ctx.seed, ctx.escalate)
    if key in _RESULTS:
        return _RESULTS[key]
    js = jobs(ctx)
    n = min(16, os.cpu_count() or 1)
    with multiprocessing.get_context('fork').Pool(n) as pool:
        rs = pool.map(job, js, chunksize=1)
    _RESULTS[key] = rs
    return rs


def correspondence(ctx):
    from icalendar import Timezone
    steps = ' '.join(str(int(t.total_seconds())) for t in Timezone._from_tzinfo_skip_search)
    ctx.corr('tz_steps', [], steps, True)
    for r in run_jobs(ctx):
        for op, args, impl, nt in r['corr']:
            ctx.corr(op, args, impl, nt)
        for k, v in r['counts'].items():
            ctx.count(k, v)


def check_zone_object_decides(ctx):
    """the generated component is a function of the zone OBJECT that is passed in (and the window), not of whichever
    provider happens to be selected globally: a pytz zone and a ZoneInfo zone each give the same VTIMEZONE under
    either global provider"""
    import datetime as dt_
    import zoneinfo
    import icalendar
    import pytz
    from icalendar import Timezone
    first, last = dt_.date(2000, 1, 1), dt_.date(2004, 1, 1)
    for zid in ('Europe/Berlin', 'America/New_York', 'Asia/Kolkata', 'UTC'):
        for kind, mk in (('pytz', lambda z: pytz.timezone(z)), ('zoneinfo', lambda z: zoneinfo.ZoneInfo(z))):
            outs = {}
            for glob in ('zoneinfo', 'pytz'):
                getattr(icalendar, 'use_' + glob)()
                try:
                    outs[glob] = Timezone.from_tzinfo(mk(zid), zid, first, last).to_ical()
                except Exception as e:  # noqa: BLE001
                    outs[glob] = ('raised %s: %s' % (type(e).__name__, e)).encode()
                finally:
                    icalendar.use_zoneinfo()
            ctx.evaluated(('zone-object-decides', zid, kind))
            if outs['zoneinfo'] != outs['pytz']:
                ctx.violation('global-provider-leaks-into-generation', {'zone': zid, 'object': kind},
                              f'Timezone.from_tzinfo({kind} object of {zid}) gives {outs["zoneinfo"][:300]!r} while zoneinfo is '
                              f'selected and {outs["pytz"][:300]!r} while pytz is selected')


def check_windows_independent(ctx):
    """converting a generated component back to a zone object gives the zone of THAT component: a second window of the same
    zone id, converted with the same provider object, reads as the source zone inside the second window (instants far from any
    transition, so the recorded onset-shift finding is not in play)"""
    import icalendar
    from icalendar import Timezone
    from icalendar.timezone import tzp
    for prov in ('zoneinfo', 'pytz'):
        getattr(icalendar, 'use_' + prov)()
        try:
            for zid, (s_off, w_off) in (('Europe/Berlin', (7200, 3600)), ('America/New_York', (-14400, -18000))):
                for k, (y0, y1) in enumerate(((2000, 2004), (2010, 2014), (1980, 1983))):
                    ctx.evaluated(('windows', prov, zid, y0))
                    g = Timezone.from_tzid(zid, tzp, dt.date(y0, 1, 1), dt.date(y1, 1, 1))
                    z = g.to_tz(tzp, lookup_tzid=False)
                    for y in range(y0, y1):
                        for mo, want in ((7, s_off), (1, w_off)):
                            t = dt.datetime(y, mo, 15, 12, tzinfo=UTC)
                            got = int(t.astimezone(z).utcoffset().total_seconds())
                            if got != want:
                                ctx.violation('window-reads-as-another', {'zone': zid, 'provider': prov, 'window': [y0, y1], 'nth': k + 1},
                                              f'the component generated for {y0}..{y1} (window {k + 1} converted with the same provider object) '
                                              f'gives offset {got} at {t:%Y-%m-%d}, the source zone {want}', None)
                                break
        finally:
            icalendar.use_zoneinfo()


def oracle(ctx):
    check_zone_object_decides(ctx)
    check_windows_independent(ctx)
    rs = run_jobs(ctx)
    lines = ['\t'.join([r['chain'][0]] + r['chain'][1]) for r in rs if r['chain']]
    try:
        flags = proto.run_model(lines)
    except proto.ModelUnavailable:
        flags = ['?'] * len(lines)
    fi = 0
    for r in rs:
        chain = None
        if r['chain']:
            chain = flags[fi]
            fi += 1
            # the finding class is decided by the baseline predicate; the model's answer (computed with the regenerated step
            # table) says where the theorem applies and must agree with the baseline on the unchanged tree
            base = '1' if r['chain_baseline'] else '0'
            if chain in ('0', '1') and chain != base:
                ctx.count('chainOK-differs-from-baseline')
            chain = base
        ctx.count('oracle_evaluations', r['evals'])
        ctx.evaluated(r['key'], True)
        if chain == '1':
            ctx.count('zones-where-the-theorem-applies')
        elif chain == '0':
            ctx.count('zones-with-short-excursion-or-name-only-change')
        for kind, inp, detail, cls in r['viol']:
            if cls == 'infra':
                ctx.notes.append(f'{detail} ({inp})')
                ctx.violation(kind, inp, detail, None)
                continue
            if cls is not None and cls.startswith('tzgen-excursion?'):
                # 'tzgen-excursion' is recorded per zone; only zones outside the scope of gen_faithful_partial
                # (the model's chainOK is false) may fall there; then the other candidate classes, in order
                rest = cls.split('|')[1:]
                cls = 'tzgen-excursion' if chain != '1' else (rest[0] if rest else None)
                if cls is None:
                    detail += ' [the model decides that no short excursion or name-only change exists: not the recorded finding]'
            if cls == 'EXC':
                cls = 'tzgen-excursion' if chain != '1' else None
            ctx.violation(kind, inp, detail, cls)


def replay(ctx, data):
    inp = data['input']
    D = dt.date.fromisoformat
    r = job((inp['zone'], inp['provider'], D(inp['first_date']), D(inp['last_date']), True, True, data.get('seed', 0)))
    for kind, i, detail, cls in r['viol']:
        print('REPRODUCED', kind, cls, detail)
    if not r['viol']:
        print('not reproduced on the current tree')
    return 1 if r['viol'] else 0
