"""C09 - Parse result is invariant under line endings, BOM, str/bytes, folds, name case."""
import re

from harness import calgen, parsecorr
from harness.trees import tree_of

LEAN = ['ICal.Props.C09']
LEVEL = 'proof'
FINGERPRINTS = ['cal.Component.from_ical', 'parser.Contentlines.from_ical', 'parser.Contentline.from_ical',
                'parser_tools.to_unicode', 'parser.Contentline.parts', 'caselessdict.']
RULE = ('every fixture of the repository that parses, and API-built random calendars, each rewritten by 1-4 random '
        'rewrites drawn from {CRLF->LF, leading BOM, str instead of bytes, re-folding at random character positions '
        'with space or tab, trailing blank lines, random upper/lower-casing of BEGIN/END, component names, property '
        'names and parameter names}, under both providers; non-trivial = at least one rewrite changed the text')
ASSUMPTIONS = ['bytes are decoded as UTF-8 (utf-8-sig); "str instead of bytes" is the UTF-8 decoding of the same bytes',
               'a fold may be inserted only strictly between two characters of one content line',
               'parameter values are not re-cased (the library keeps them as written)']


def logical_lines(text):
    return [ln for ln in re.split(r'\r?\n', re.sub(r'(\r?\n)+[ \t]', '', text)) if ln]


def recase_token(rng, s):
    return ''.join(c.upper() if rng.random() < 0.5 else c.lower() for c in s)


def recase_line(rng, ln):
    # name
    m = re.match(r'[A-Za-z0-9_.-]+', ln)
    if not m:
        return ln
    name = m.group(0)
    rest = ln[len(name):]
    out = [recase_token(rng, name)]
    i = 0
    inq = False
    # parameters: recase the key after each ';' up to '=' (outside quotes), stop at the first ':' outside quotes
    while i < len(rest):
        ch = rest[i]
        if ch == '"':
            inq = not inq
            out.append(ch)
            i += 1
        elif ch == ':' and not inq:
            value = rest[i + 1:]
            if name.upper() in ('BEGIN', 'END'):
                value = recase_token(rng, value)
            out.append(':' + value)
            return ''.join(out)
        elif ch == ';' and not inq:
            j = i + 1
            while j < len(rest) and rest[j] not in '=:;"':
                j += 1
            out.append(';' + recase_token(rng, rest[i + 1:j]))
            i = j
        elif ch == '\\' and i + 1 < len(rest):
            out.append(rest[i:i + 2])
            i += 2
        else:
            out.append(ch)
            i += 1
    return ''.join(out)


def refold(rng, ln, nl):
    if len(ln) < 2:
        return ln
    pieces = []
    while len(ln) > 1 and (len(ln.encode('utf-8')) > 70 or rng.random() < 0.35):
        cut = rng.randint(1, min(len(ln) - 1, 60))
        pieces.append(ln[:cut])
        ln = ln[cut:]
    pieces.append(ln)
    return (nl + rng.choice([' ', '\t'])).join(pieces)


REWRITES = ['lf', 'bom', 'str', 'refold', 'blank', 'case', 'lf-some', 'refold-mixed']


def rewrite(rng, data, which):
    """data: bytes or str; returns the rewritten input"""
    is_str = isinstance(data, str)
    text = data if is_str else data.decode('utf-8')
    if which == 'lf':
        text = text.replace('\r\n', '\n')
    elif which == 'lf-some':
        # LF instead of CRLF at some of the line breaks only (texts pasted together from several producers)
        text = re.sub('\r\n', lambda m: rng.choice(['\r\n', '\n']), text)
    elif which == 'bom':
        if not text.startswith('﻿'):
            text = '﻿' + text
    elif which == 'str':
        is_str = True
    elif which == 'blank':
        nl = '\r\n' if '\r\n' in text else '\n'
        if not text.endswith('\n'):
            text += nl
        text += nl * rng.randint(1, 3)
    elif which in ('refold', 'case', 'refold-mixed'):
        nl = '\r\n' if '\r\n' in text else '\n'
        bom = text.startswith('﻿')
        body = text[1:] if bom else text
        lines = logical_lines(body)
        if which == 'case':
            lines = [recase_line(rng, ln) for ln in lines]
            lines = [refold(rng, ln, nl) if len(ln.encode('utf-8')) > 70 else ln for ln in lines]
        elif which == 'refold-mixed':
            # each fold and each line end written with its own line break style
            lines = [refold(rng, ln, rng.choice(['\r\n', '\n'])) for ln in lines]
            text = ('﻿' if bom else '') + ''.join(ln + rng.choice(['\r\n', '\n']) for ln in lines)
            return text if is_str else text.encode('utf-8')
        else:
            lines = [refold(rng, ln, nl) for ln in lines]
        text = ('﻿' if bom else '') + nl.join(lines) + nl
    return text if is_str else text.encode('utf-8')


def offsets(c):
    out = []
    for w in c.walk():
        for k, v in w.items():
            for x in (v if isinstance(v, list) else [v]):
                dts = getattr(x, 'dts', None) or [x]
                for d in dts:
                    dt = getattr(d, 'dt', None)
                    if hasattr(dt, 'utcoffset') and getattr(dt, 'tzinfo', None) is not None:
                        try:
                            out.append((k, str(dt.utcoffset())))
                        except Exception:  # noqa: BLE001
                            out.append((k, 'err'))
    return out


CUSTOM_TZ = (b'BEGIN:VCALENDAR\r\nVERSION:2.0\r\nPRODID:-//verif//custom tz//EN\r\nBEGIN:VTIMEZONE\r\nTZID:%s\r\n'
             b'BEGIN:STANDARD\r\nDTSTART:19701025T030000\r\nTZOFFSETFROM:+0545\r\nTZOFFSETTO:+0445\r\nTZNAME:VST\r\n'
             b'RRULE:FREQ=YEARLY;BYMONTH=10;BYDAY=-1SU\r\nEND:STANDARD\r\nBEGIN:DAYLIGHT\r\nDTSTART:19700329T020000\r\n'
             b'TZOFFSETFROM:+0445\r\nTZOFFSETTO:+0545\r\nTZNAME:VDT\r\nRRULE:FREQ=YEARLY;BYMONTH=3;BYDAY=-1SU\r\nEND:DAYLIGHT\r\n'
             b'END:VTIMEZONE\r\nBEGIN:VEVENT\r\nUID:c1\r\nDTSTART;TZID=%s:20240615T120000\r\nDTEND;TZID=%s:20241215T130000\r\n'
             b'RDATE;TZID=%s:20240101T000000,20240701T000000\r\nSUMMARY:uses the custom zone\r\nEND:VEVENT\r\nEND:VCALENDAR\r\n')


def wellformed_inputs(ctx):
    import icalendar
    for k in range(3):
        # a calendar that defines its own time zone (an id no provider knows) and uses it
        tzid = b'Verif/Custom-' + str(ctx.seed).encode() + b'-' + str(k).encode() + ctx.rng.choice([b'', b'/Sub', b'_x'])
        yield f'custom-tz-{k}', CUSTOM_TZ % (tzid, tzid, tzid, tzid)
    # sizes: one very long content line (an inline attachment, a long description) and a text of many lines, both
    # well beyond any buffer size a reader might use (64 KiB, 1 MiB in the thorough tier)
    big = 1_200_000 if ctx.tier == 'thorough' else 100_000
    for k, filler in enumerate(('x', 'ab ', '\u00e9')):
        ev = icalendar.Event()
        ev.add('uid', 'big-%d' % k)
        ev.add('description', filler * (big // len(filler)))
        ev.add('summary', 'after the long line')
        cal = icalendar.Calendar()
        cal.add('prodid', '-//verif//big//EN')
        cal.add('version', '2.0')
        for j in range(3):
            e2 = icalendar.Event()
            e2.add('uid', 'pad-%d' % j)
            e2.add('comment', 'c' * 30000)
            cal.add_component(e2)
        cal.add_component(ev)
        yield f'big-{k}', cal.to_ical()
    for name, data in calgen.fixtures():
        try:
            data.decode('utf-8')
            icalendar.Calendar.from_ical(data, multiple=True)
        except (ValueError, UnicodeDecodeError):
            continue
        if b'\r' in data.replace(b'\r\n', b''):
            continue  # a bare CR inside a line is not well-formed text
        yield name, data
    for i in range(ctx.vol(150)):
        cal = calgen.rand_calendar(ctx.rng)
        try:
            b = cal.to_ical()
        except (AssertionError, ValueError, UnicodeEncodeError):
            continue
        if b'\r' in b.replace(b'\r\n', b''):
            continue
        yield f'rand{i}', b


def correspondence(ctx):
    for name, data in wellformed_inputs(ctx):
        for _ in range(2):
            x = data
            for _ in range(ctx.rng.randint(1, 3)):
                x = rewrite(ctx.rng, x, ctx.rng.choice(REWRITES))
            parsecorr.parse_case(ctx, x, multiple=True)


def check_invariance(ctx, name, data, provider):
    import icalendar
    def fresh():
        # the cache of parsed VTIMEZONEs is process-wide: reset it so that every text is parsed as if it were
        # the first one in the process (otherwise the reference parse hides what a variant fails to register)
        getattr(icalendar, 'use_' + provider)()
    fresh()
    try:
        ref = icalendar.Calendar.from_ical(data, multiple=True)
    except ValueError:
        ctx.count('not-accepted-under-' + provider)   # e.g. a VTIMEZONE this provider cannot build: not well-formed here
        return
    ref_trees = [tree_of(c) for c in ref]
    ref_bytes = [c.to_ical() for c in ref]
    ref_off = [offsets(c) for c in ref]
    for _ in range(3):
        x = data
        applied = []
        for _ in range(ctx.rng.randint(1, 4)):
            w = ctx.rng.choice(REWRITES)
            x = rewrite(ctx.rng, x, w)
            applied.append(w)
        changed = (x if isinstance(x, bytes) else x.encode('utf-8')) != data or isinstance(x, str)
        ctx.evaluated(('rw', name, tuple(applied), provider, hash(x)), changed)
        inp = {'name': name, 'rewrites': applied, 'provider': provider,
               'variant': x if isinstance(x, str) else x.decode('utf-8'), 'is_str': isinstance(x, str)}
        fresh()
        try:
            got = icalendar.Calendar.from_ical(x, multiple=True)
        except ValueError as e:
            ctx.violation('variant-rejected', inp, f'rewrites {applied} made the parse fail: {e}')
            continue
        if [tree_of(c) for c in got] != ref_trees:
            ctx.violation('variant-tree', inp, f'rewrites {applied} changed the parsed tree')
        elif [c.to_ical() for c in got] != ref_bytes:
            ctx.violation('variant-bytes', inp, f'rewrites {applied} changed the re-serialisation')
        elif [offsets(c) for c in got] != ref_off:
            ctx.violation('variant-offsets', inp, f'rewrites {applied} changed utcoffset() of parsed date-times')


def oracle(ctx):
    import icalendar
    for provider in ('zoneinfo', 'pytz'):
        getattr(icalendar, 'use_' + provider)()
        try:
            for name, data in wellformed_inputs(ctx):
                check_invariance(ctx, name, data, provider)
        finally:
            icalendar.use_zoneinfo()


def replay(ctx, data):
    import icalendar
    inp = data['input']
    print('variant produced by', inp['rewrites'], 'of', inp['name'], 'under', inp['provider'])
    getattr(icalendar, 'use_' + inp['provider'])()
    x = inp['variant'] if inp['is_str'] else inp['variant'].encode('utf-8')
    try:
        got = icalendar.Calendar.from_ical(x, multiple=True)
        print('parsed', len(got), 'components; compare with the unrewritten input by hand or rerun ./check C09 with seed', data.get('seed'))
    except ValueError as e:
        print('REPRODUCED variant-rejected', e)
        return 1
    finally:
        icalendar.use_zoneinfo()
    return 0
