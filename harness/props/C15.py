"""C15 - an alarm time is active iff it is not acknowledged at/after its (snoozed) trigger.

Builders, encodings and the provider switch are shared with C14 (harness/props/C14.py); the model ops
are those of lean/ICal/Driver/Alarm.lean (at_state, al_times, al_active)."""
import itertools
from datetime import datetime, timedelta

from harness.props import C14 as A

LEAN = ['ICal.Props.C15']
LEVEL = 'proof'
FINGERPRINTS = ['alarms.AlarmTime', 'alarms.Alarms', 'cal.create_utc_property', 'cal.Component.is_thunderbird',
                'tools.to_datetime', 'tools.normalize_pytz']
RULE = ('all 150 orderings-with-ties of (trigger, alarm ACKNOWLEDGED, component acknowledgement, snooze), each possibly '
        'absent, x trigger kind (UTC start, zoned start, absolute, floating start, date start) x local time zone set/unset x '
        'Thunderbird (X-MOZ-LASTACK / X-MOZ-SNOOZE-TIME, DTSTAMP as decoy) or not (DTSTAMP, snooze_until call) x built through '
        'the API / parsed from text x zoneinfo / pytz; AlarmTime objects built directly for the same shapes; then seeded random '
        'components with several repeating alarms; a case is non-trivial when something is acknowledged')
ASSUMPTIONS = ['acknowledgements and snoozes are UTC date-times in whole seconds',
               'the local time zone is the provider\'s localize, tabulated per case for the model',
               'without a local time zone the oracle requires LocalTimezoneMissing only when the answer depends on the '
               'floating trigger; when it does not (nothing acknowledged, or snoozed past the acknowledgement) it accepts '
               'the correct answer or that error']

GAP = 3600
ITEMS = 'TACS'
KINDS = ('utc', 'zone', 'abs', 'float', 'date')
W0 = datetime(2020, 6, 15, 12, 0)          # far from any transition
LOCALS = ('Europe/Berlin', 'America/New_York')


def weak_orders(n):
    for ranks in itertools.product(range(n), repeat=n):
        if set(ranks) == set(range(max(ranks) + 1 if n else 0)):
            yield ranks


def shapes():
    """every ordering with ties of the present ones among trigger, alarm ack, component ack, snooze"""
    out = []
    for mask in range(16):
        present = [c for i, c in enumerate(ITEMS) if mask >> i & 1]
        for ranks in weak_orders(len(present)):
            out.append(dict(zip(present, ranks)))
    return out


def naive_utc(sec):
    return A.NEPOCH + timedelta(seconds=sec)


def localized(wall_sec, ltz):
    from icalendar.timezone import tzp
    from icalendar.tools import normalize_pytz
    return A.inst(normalize_pytz(tzp.localize(naive_utc(wall_sec), tzp.timezone(ltz))))


def make_case(shape, kind, tb, ltz, w0=W0, gap=GAP, variant=0):
    """component spec + explicit calls + the instants the oracle needs (provider context required)"""
    has_t = 'T' in shape
    trig_known = True
    if kind == 'utc':
        start, trigger = ('utc', w0), ('r', 0)
        t0 = A.wall(w0)
    elif kind == 'zone':
        start, trigger = ('zone', 'Europe/Berlin', w0), ('r', 0)
        t0 = A.inst(A.mk_value(start))
    elif kind == 'abs':
        start, trigger = None, ('a', ('utc', w0))
        t0 = A.wall(w0)
    elif kind == 'float':
        start, trigger = ('float', w0), ('r', 0)
        t0 = localized(A.wall(w0), ltz) if ltz else A.wall(w0)
        trig_known = ltz is not None
    else:
        d = w0.date()
        start, trigger = ('date', d + timedelta(days=1)), ('r', -86400)
        w = (d - A.DEPOCH).days * 86400
        t0 = localized(w, ltz) if ltz else w
        trig_known = ltz is not None
    rt = shape.get('T', 0)

    def at(c):
        return None if c not in shape else naive_utc(t0 + (shape[c] - rt) * gap)
    alarm = dict(trigger=trigger if has_t else None, ack=at('A'))
    spec = dict(kind=('VEVENT', 'VTODO')[variant % 2], start=start, end=None, alarms=[alarm])
    calls = ['-', '-']
    if tb:
        spec['lastack'] = at('C')
        spec['snooze'] = at('S')
        if 'C' not in shape and 'S' not in shape:
            spec['othermoz'] = True
        if variant % 3 != 2:
            spec['dtstamp'] = naive_utc(t0 + 1000 * gap)      # decoy: must be ignored
    else:
        spec['dtstamp'] = at('C')
        if 'S' in shape:
            calls[1] = str(t0 + (shape['S'] - rt) * gap)
    info = dict(t0=t0 if has_t else None, trig_known=trig_known, aware=kind in ('utc', 'zone', 'abs'),
                A=None if 'A' not in shape else t0 + (shape['A'] - rt) * gap,
                C=None if 'C' not in shape else t0 + (shape['C'] - rt) * gap,
                S=None if 'S' not in shape else t0 + (shape['S'] - rt) * gap)
    return spec, calls, info


def prepare(ltz, calls):
    from icalendar.timezone import tzp

    def f(al):
        if ltz is not None:
            al.set_local_timezone(ltz)
        if calls[0] != '-':
            al.acknowledge_until(None if calls[0] == 'n' else tzp.localize_utc(naive_utc(int(calls[0]))))
        if calls[1] != '-':
            al.snooze_until(None if calls[1] == 'n' else tzp.localize_utc(naive_utc(int(calls[1]))))
    return f


def register(ctx, spec, calls, ltz, prov, how, nontrivial):
    comp = A.build(spec, how)
    st, en = A.comp_start_end(comp)
    encs = [A.enc_alarm_spec(a) for a in spec['alarms']]
    tag = '%s/%s' % (how, prov)
    if A.wallclock_differs(prov, st, en, spec):
        ctx.corr('al_skip', ['zoneinfo-wallclock-dst', repr(spec), tag], 'unmodelled', nontrivial)
        return
    args = [A.enc_parent_spec(spec) + ';' + ';'.join(calls), A.enc_val(st), A.enc_val(en), '|'.join(encs),
            '-' if ltz is None else A.local_table(ltz, st, en, spec), tag]
    prep = prepare(ltz, calls)
    ctx.corr('al_times', args, A.impl_times(comp, encs, prep), nontrivial)
    ctx.corr('al_active', args, A.impl_active(comp, encs, prep), nontrivial)


def direct_values(kind):
    """the trigger value of a hand-built AlarmTime"""
    from icalendar.timezone import tzp
    if kind == 'utc' or kind == 'abs':
        return tzp.localize_utc(W0)
    if kind == 'zone':
        return tzp.localize(W0, tzp.timezone('America/New_York'))
    if kind == 'float':
        return W0
    return W0.date()


def direct_state(trigger, ka, kc, sn):
    """AlarmTime built by hand -> 'ack;active;trigger'"""
    from icalendar import Alarm
    from icalendar.alarms import AlarmTime
    from icalendar.timezone import tzp

    def u(x):
        return None if x is None else tzp.localize_utc(naive_utc(x))
    alarm = Alarm()
    if ka is not None:
        alarm.ACKNOWLEDGED = u(ka)
    t = AlarmTime(alarm, trigger, u(kc), u(sn))
    try:
        act = '1' if t.is_active() else '0'
    except Exception as e:  # noqa: BLE001
        act = A.exc_name(e)
    try:
        rep = A.enc_val(t.trigger)
    except Exception as e:  # noqa: BLE001
        rep = A.exc_name(e)
    return '%s;%s;%s' % (A.enc_inst(t.acknowledged), act, rep)


def random_case(rng):
    """several repeating alarms around the acknowledgements; start near a DST change"""
    kind = rng.choice(['date', 'float', 'utc', 'zone', 'zone'])
    start = A.rand_start(rng, kind)
    alarms = []
    for _ in range(rng.randint(1, 3)):
        a = A.rand_alarm(rng)
        a['ack'] = None
        alarms.append(a)
    spec = dict(kind=rng.choice(['VEVENT', 'VTODO']), start=start, end=A.rand_end(rng, start, rng.choice(['none', 'at', 'dur'])),
                alarms=alarms)
    base = (datetime(start[1].year, start[1].month, start[1].day) if start[0] == 'date' else start[-1])
    def near_base():
        return base + timedelta(seconds=rng.choice([-172800, -90000, -86400, -7200, -3600, -900, 0, 1, 900, 3600, 5400, 7200, 86400, 90000]))
    for a in alarms:
        if rng.random() < 0.5:
            a['ack'] = near_base()
    calls = ['-', '-']
    tb = rng.random() < 0.5
    if tb:
        spec['lastack'] = near_base() if rng.random() < 0.7 else None
        spec['snooze'] = near_base() if rng.random() < 0.5 else None
        spec['othermoz'] = spec['lastack'] is None and spec['snooze'] is None
        spec['dtstamp'] = near_base() if rng.random() < 0.5 else None
    else:
        spec['dtstamp'] = near_base() if rng.random() < 0.7 else None
        if rng.random() < 0.3:
            calls[1] = str(A.wall(near_base()))
        if rng.random() < 0.2:
            calls[0] = rng.choice(['n', str(A.wall(near_base()))])
    ltz = rng.choice([None, 'Europe/Berlin', 'America/New_York', 'UTC'])
    return spec, calls, ltz


def correspondence(ctx):
    sh = shapes()
    assert len(sh) == 150
    for prov in A.PROVIDERS:
        with A.provider(prov):
            # AlarmTime built directly: every shape x trigger kind
            for kind in KINDS:
                trig = direct_values(kind)
                if A.is_date(trig):
                    t0 = (trig - A.DEPOCH).days * 86400
                elif trig.tzinfo is None:
                    t0 = A.wall(trig)
                else:
                    t0 = A.inst(trig)
                for shape in sh:
                    if 'T' not in shape:
                        continue
                    vals = [None if c not in shape else t0 + (shape[c] - shape['T']) * GAP for c in 'ACS']
                    ctx.corr('at_state', [A.enc_val(trig)] + [A.enc_opt(v) for v in vals] + [prov],
                             direct_state(trig, *vals), any(v is not None for v in vals[:2]))
            # through Alarms(component)
            n = 0
            for kind in KINDS:
                for ltz in (None, LOCALS[0], LOCALS[1]):
                    if ltz == LOCALS[1] and kind in ('utc', 'abs'):
                        continue
                    for tb in (False, True):
                        for shape in sh:
                            n += 1
                            spec, calls, _ = make_case(shape, kind, tb, ltz, variant=n)
                            nt = 'A' in shape or 'C' in shape
                            for how in (('api', 'text') if n % 4 else ('api', 'text', 'reparse')):
                                register(ctx, spec, calls, ltz, prov, how, nt)
            for _ in range(ctx.vol(400)):
                spec, calls, ltz = random_case(ctx.rng)
                register(ctx, spec, calls, ltz, prov, ctx.rng.choice(['api', 'text']), True)


# ------------------------------------------------------------------ oracle (no model)

def opt_max(a, b):
    if a is None:
        return b
    if b is None:
        return a
    return max(a, b)


def expected_state(t0, trig_known, ack, snooze):
    """(active, reported): active in {True, False, 'LTM', 'T|LTM'}; reported in {instant, 'raw', 'raw|LTM', 'LTM'}"""
    if ack is None or (snooze is not None and snooze > ack):
        active = True if trig_known else 'T|LTM'
    elif trig_known:
        active = t0 > ack
    else:
        active = 'LTM'
    if snooze is None:
        reported = 'raw'
    elif not trig_known:
        reported = 'LTM'
    else:
        reported = snooze if snooze > t0 else 'raw'
    return active, reported


def observe(t):
    from icalendar.alarms import LocalTimezoneMissing
    try:
        act = bool(t.is_active())
    except LocalTimezoneMissing:
        act = 'LTM'
    except Exception as e:  # noqa: BLE001
        act = 'ERR:' + type(e).__name__
    try:
        rep = t.trigger
    except LocalTimezoneMissing:
        rep = 'LTM'
    except Exception as e:  # noqa: BLE001
        rep = 'ERR:' + type(e).__name__
    return act, rep


def trigger_instant(t, ltz):
    """the instant of the computed trigger, or None when it is floating and no local zone is known"""
    raw = t._trigger
    if not A.is_date(raw) and raw.tzinfo is not None:
        return A.inst(raw)
    if ltz is None:
        return None
    w = (raw - A.DEPOCH).days * 86400 if A.is_date(raw) else A.wall(raw)
    return localized(w, ltz)


def check_component(ctx, spec, calls, ltz, prov, how, comp_ack, snooze, t0_check=None):
    """comp_ack / snooze: the instants the component-level acknowledgement and snooze must have"""
    from icalendar.alarms import Alarms, LocalTimezoneMissing
    inp = {'spec': A.to_jsonable(spec), 'calls': calls, 'ltz': ltz, 'provider': prov, 'how': how}
    comp = A.build(spec, how)
    walk = comp.walk('VALARM')
    st, en = A.comp_start_end(comp)
    if A.wallclock_differs(prov, st, en, spec):
        return              # C14's known finding decides the trigger; C15 is about the acknowledgement logic
    try:
        al = Alarms(comp)
        prepare(ltz, calls)(al)
        times = al.times
    except Exception as e:  # noqa: BLE001
        if A.exc_name(e).startswith('err:Component'):
            return          # C14: an anchor is missing
        ctx.violation('undocumented-error', inp, f'times: {type(e).__name__}: {e}')
        return
    exp_active = []
    floating_needed = False
    for t in times:
        idx = next(i for i, a in enumerate(walk) if a is t.alarm)
        a_ack = spec['alarms'][idx].get('ack')
        a_ack = None if a_ack is None else A.wall(a_ack)
        ack = opt_max(a_ack, comp_ack)
        got_ack = None if t.acknowledged is None else A.inst(t.acknowledged)
        if got_ack != ack:
            ctx.violation('acknowledged', inp, f'acknowledged is {got_ack}, the later of {a_ack} and {comp_ack} is {ack}')
        t0 = trigger_instant(t, ltz)
        if t0_check is not None and t0 != t0_check:
            ctx.violation('trigger-instant', inp, f'computed trigger is at {t0}, expected {t0_check}')
        want_act, want_rep = expected_state(t0, t0 is not None, ack, snooze)
        act, rep = observe(t)
        ok_act = (act == want_act) if want_act in (True, False, 'LTM') else act in (True, 'LTM')
        if not ok_act:
            ctx.violation('is-active', inp, f'trigger {t0} ack {ack} snooze {snooze}: is_active gave {act}, expected {want_act}')
        if want_rep == 'raw':
            ok_rep = rep is not None and not isinstance(rep, str) and A.enc_val(rep) == A.enc_val(t._trigger)
        elif want_rep == 'LTM':
            ok_rep = rep == 'LTM' or (not isinstance(rep, str) and A.enc_val(rep) == A.enc_val(t._trigger))
        else:
            ok_rep = not isinstance(rep, str) and not A.is_date(rep) and rep.tzinfo is not None and A.inst(rep) == want_rep
        if not ok_rep:
            ctx.violation('reported-trigger', inp, f'trigger {t0} snooze {snooze}: reported {rep!r}, expected {want_rep}')
        exp_active.append(want_act)
        if want_act == 'LTM':
            floating_needed = True
    # the active list
    try:
        active = al.active
    except LocalTimezoneMissing:
        if not floating_needed:
            ctx.violation('active-error', inp, 'active raised LocalTimezoneMissing although no answer depends on a floating trigger')
        return
    except Exception as e:  # noqa: BLE001
        ctx.violation('undocumented-error', inp, f'active: {type(e).__name__}: {e}')
        return
    if floating_needed:
        ctx.violation('active-error', inp, 'active answered although an answer depends on a floating trigger without local time zone')
        return
    keys = [(id(t.alarm), A.enc_val(t._trigger)) for t in times]
    akeys = [(id(t.alarm), A.enc_val(t._trigger)) for t in active]
    want = [k for k, w in zip(keys, exp_active) if w in (True, 'T|LTM')]
    if akeys != want:
        ctx.violation('active-list', inp, f'active list has {len(akeys)} entries, expected {len(want)} (of {len(keys)} times)')
    it = iter(keys)
    if not all(k in it for k in akeys):
        ctx.violation('active-not-sublist', inp, 'the active list is not a sub-list of all times')
    # moving the component acknowledgement later never activates an alarm
    from icalendar.timezone import tzp
    prev = akeys
    base = comp_ack if comp_ack is not None else min([A.inst(t._trigger) for t in times
                                                      if not A.is_date(t._trigger) and t._trigger.tzinfo is not None] or [0]) - 3 * GAP
    for later in (base, base + 1, base + GAP // 2, base + GAP, base + 2 * GAP, base + 100 * GAP):
        al.acknowledge_until(tzp.localize_utc(naive_utc(later)))
        try:
            now = [(id(t.alarm), A.enc_val(t._trigger)) for t in al.active]
        except LocalTimezoneMissing:
            if ltz is not None or all(not A.is_date(t._trigger) and t._trigger.tzinfo is not None for t in times):
                ctx.violation('active-error', inp, f'LocalTimezoneMissing after acknowledge_until({later}) with aware triggers')
            break
        it = iter(prev)
        if not all(k in it for k in now):
            ctx.violation('ack-not-monotone', inp, f'acknowledge_until({later}) activated an alarm: {len(prev)} -> {len(now)}')
        prev = now


def comp_level(spec, calls):
    """the component-level acknowledgement and snooze the property names, from the spec"""
    tb = spec.get('lastack') is not None or spec.get('snooze') is not None or spec.get('othermoz')
    if tb:
        ack = None if spec.get('lastack') is None else A.wall(spec['lastack'])
        sn = None if spec.get('snooze') is None else A.wall(spec['snooze'])
    else:
        ack = None if spec.get('dtstamp') is None else A.wall(spec['dtstamp'])
        sn = None
    if calls[0] != '-':
        ack = None if calls[0] == 'n' else int(calls[0])
    if calls[1] != '-':
        sn = None if calls[1] == 'n' else int(calls[1])
    return ack, sn


def check_history(ctx):
    """the answers of an Alarms object depend on its current configuration only: after any sequence of queries and
    acknowledge_until / snooze_until / set_local_timezone calls, times and active equal those of a fresh Alarms
    object configured the same way before its first query (moving an acknowledgement later never activates)"""
    from datetime import datetime as dt, timezone as tzz
    from icalendar import Alarm, Event
    from icalendar.alarms import Alarms
    U = tzz.utc
    ev = Event()
    ev.add('uid', 'h')
    ev.start = dt(2024, 3, 5, 10, tzinfo=U)
    ev.end = dt(2024, 3, 5, 12, tzinfo=U)
    for minutes in (-30, -90):
        a = Alarm()
        a.TRIGGER = timedelta(minutes=minutes)
        ev.add_component(a)
    acks = [None, dt(2024, 3, 5, 8, tzinfo=U), dt(2024, 3, 5, 9, 10, tzinfo=U), dt(2024, 3, 5, 11, tzinfo=U)]
    snoozes = [None, dt(2024, 3, 5, 9, 45, tzinfo=U), dt(2024, 3, 6, tzinfo=U)]

    def observe(al):
        return ([t.trigger for t in al.times], [t.trigger for t in al.active], [t.acknowledged for t in al.times])
    for ack1 in acks:
        for ack2 in acks:
            for sn in snoozes:
                ctx.evaluated(('history', str(ack1), str(ack2), str(sn)))
                old = Alarms(ev)
                old.acknowledge_until(ack1)
                observe(old)                      # a query in between
                old.acknowledge_until(ack2)
                old.snooze_until(sn)
                fresh = Alarms(ev)
                fresh.acknowledge_until(ack2)
                fresh.snooze_until(sn)
                try:
                    o, f = observe(old), observe(fresh)
                except Exception as e:  # noqa: BLE001
                    ctx.violation('history', {'ack1': str(ack1), 'ack2': str(ack2), 'snooze': str(sn)}, f'{type(e).__name__}: {e}')
                    continue
                if o != f:
                    ctx.violation('history', {'ack1': str(ack1), 'ack2': str(ack2), 'snooze': str(sn)},
                                  f'after acknowledge_until({ack1}); query; acknowledge_until({ack2}); snooze_until({sn}) the object answers {o}, a fresh object in the same configuration answers {f}')


def check_history_local_tz(ctx):
    """floating and date triggers: the local time zone may be set, changed and removed between queries; the
    answers are those of a fresh object with the final setting, and the documented missing-time-zone error comes
    and goes with the setting"""
    from datetime import date as d_, datetime as dt, timezone as tzz
    from zoneinfo import ZoneInfo
    from icalendar import Alarm, Event
    from icalendar.alarms import Alarms
    from icalendar.alarms import LocalTimezoneMissing
    zones = [None, ZoneInfo('Europe/Berlin'), ZoneInfo('Pacific/Honolulu')]
    for start in (dt(2024, 3, 5, 10), d_(2024, 3, 5)):
        ev = Event()
        ev.add('uid', 'l')
        ev.start = start
        a = Alarm()
        a.TRIGGER = timedelta(minutes=-30)
        ev.add_component(a)
        ack = dt(2024, 3, 5, 3, tzinfo=tzz.utc)

        def observe(al):
            try:
                return ('ok', [t.trigger for t in al.times], [t.trigger for t in al.active])
            except LocalTimezoneMissing:
                return ('local-timezone-missing',)
        for z1 in zones:
            for z2 in zones:
                ctx.evaluated(('history-ltz', str(start), str(z1), str(z2)))
                old = Alarms(ev)
                old.acknowledge_until(ack)
                old.set_local_timezone(z1)
                first = observe(old)                  # a query in between
                old.set_local_timezone(z2)
                fresh = Alarms(ev)
                fresh.acknowledge_until(ack)
                fresh.set_local_timezone(z2)
                inp = {'start': str(start), 'tz1': str(z1), 'tz2': str(z2)}
                try:
                    o, f = observe(old), observe(fresh)
                except Exception as e:  # noqa: BLE001
                    ctx.violation('history-local-timezone', inp, f'{type(e).__name__}: {e}')
                    continue
                if o != f:
                    ctx.violation('history-local-timezone', inp,
                                  f'set_local_timezone({z1}); query -> {first}; set_local_timezone({z2}): the object answers {o}, a fresh object with that zone answers {f}')


def check_held_alarm_time(ctx):
    """an AlarmTime answers from the alarm and the acknowledgement it was given: one kept from an earlier query
    and one built by hand agree with a newly computed one for the same alarm state"""
    from datetime import datetime as dt, timezone as tzz
    from icalendar import Alarm, Event
    from icalendar.alarms import Alarms, AlarmTime
    U = tzz.utc
    trig = dt(2024, 3, 5, 9, 30, tzinfo=U)
    for own in (None, dt(2024, 3, 5, 9, tzinfo=U), dt(2024, 3, 5, 10, tzinfo=U)):
        for comp_ack in (None, dt(2024, 3, 5, 8, tzinfo=U), dt(2024, 3, 5, 11, tzinfo=U)):
            ctx.evaluated(('held', str(own), str(comp_ack)))
            al = Alarm()
            al.TRIGGER = trig
            if own is not None:
                al.ACKNOWLEDGED = own
            t = AlarmTime(al, trig, comp_ack)
            cands = [x for x in (own, comp_ack) if x is not None]
            want_ack = max(cands) if cands else None
            want_active = want_ack is None or trig > want_ack
            if t.acknowledged != want_ack or t.is_active() != want_active:
                ctx.violation('alarm-time-direct', {'own': str(own), 'component': str(comp_ack)},
                              f'AlarmTime(alarm ACKNOWLEDGED={own}, trigger {trig}, acknowledged_until={comp_ack}): acknowledged={t.acknowledged}, active={t.is_active()}; expected {want_ack}, {want_active}')
            # kept from a query, then the alarm is dismissed
            ev = Event()
            ev.start = dt(2024, 3, 5, 10, tzinfo=U)
            a2 = Alarm()
            a2.TRIGGER = timedelta(minutes=-30)
            ev.add_component(a2)
            held = Alarms(ev).times[0]
            before = held.is_active()
            a2.ACKNOWLEDGED = dt(2024, 3, 5, 9, 45, tzinfo=U)
            again = Alarms(ev).times[0]
            if (held.acknowledged, held.is_active()) != (again.acknowledged, again.is_active()):
                ctx.violation('alarm-time-held', {'case': 'dismiss after query'},
                              f'an AlarmTime kept from before alarm.ACKNOWLEDGED was set says acknowledged={held.acknowledged}, active={held.is_active()} (was {before}); computed again: {again.acknowledged}, {again.is_active()}')
                return


def oracle(ctx):
    check_history(ctx)
    check_history_local_tz(ctx)
    check_held_alarm_time(ctx)
    sh = shapes()
    light = not ctx.escalate and ctx.tier == 'quick'
    for prov in A.PROVIDERS:
        with A.provider(prov):
            n = 0
            for kind in KINDS:
                for ltz in (None, LOCALS[0]):
                    for tb in (False, True):
                        for shape in sh:
                            n += 1
                            if light and n % 2 == (0 if prov == 'pytz' else 1):
                                continue
                            spec, calls, info = make_case(shape, kind, tb, ltz, variant=n)
                            how = ('api', 'text', 'reparse')[n % 3]
                            ctx.evaluated((prov, how, kind, ltz, tb, tuple(sorted(shape.items()))), 'A' in shape or 'C' in shape)
                            ack, sn = comp_level(spec, calls)
                            assert ack == info['C'] and sn == info['S']
                            check_component(ctx, spec, calls, ltz, prov, how, ack, sn,
                                            info['t0'] if info['trig_known'] else None)
            for _ in range(ctx.vol(300)):
                spec, calls, ltz = random_case(ctx.rng)
                how = ctx.rng.choice(['api', 'text'])
                ctx.evaluated((prov, how, repr(spec), tuple(calls), ltz))
                ack, sn = comp_level(spec, calls)
                check_component(ctx, spec, calls, ltz, prov, how, ack, sn)


def replay(ctx, data):
    inp = data['input']
    spec = A.from_jsonable(inp['spec'])
    with A.provider(inp['provider']):
        ack, sn = comp_level(spec, inp['calls'])
        check_component(ctx, spec, inp['calls'], inp['ltz'], inp['provider'], inp.get('how', 'api'), ack, sn)
    for v in ctx.violations:
        print('REPRODUCED', v['kind'], v['detail'])
    if not ctx.violations:
        print('not reproduced on the current tree')
    return 1 if ctx.violations else 0
