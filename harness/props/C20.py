"""C20 - Traversal complete and in pre-order; component equality an order-insensitive equivalence;
copies (deepcopy, pickle, serialise-and-parse) are equal and serialise identically."""
import copy
import itertools
import pickle
from datetime import date, datetime, timedelta, timezone

from harness.proto import enc
from harness.trees import tree_of, enc_tree

LEAN = ['ICal.Props.C20']
LEVEL = 'proof'
FINGERPRINTS = ['cal.Component._walk', 'cal.Component.walk', 'cal.Component.__eq__', 'cal.Component.copy',
                'cal.Calendar.events', 'cal.Calendar.todos', 'cal.Calendar.timezones',
                'caselessdict.CaselessDict.__eq__', 'prop.TimeBase.__eq__', 'prop.vDDDLists.__eq__',
                'prop.vCategory.__eq__', 'prop.vGeo.__eq__', 'prop.vUTCOffset.__eq__', 'prop.vBinary.__eq__']
RULE = ('seeded component trees of depth <= 4 (quick) / 6 (thorough), fan-out 0..8, known kinds (VCALENDAR VEVENT VTODO '
        'VJOURNAL VFREEBUSY VALARM VTIMEZONE STANDARD DAYLIGHT) and unknown ones (X-FOO, X-BAR, lower-case x-baz), '
        'repeated identical subcomponents, properties of type text / int / float / date / naive, UTC and zoned '
        'date-time / duration / period / rdate and exdate lists / geo / categories / cal-address lists / recur / '
        'utc-offset / binary, keys written in any letter case; for every tree: walk with every name present (in '
        'four spellings), absent names and five predicates; == both ways against deepcopy, every permutation of '
        '<= 4 subcomponents (root and one inner node), permuted property insertion order, every kind of single '
        'perturbation (value, type, parameter, scalar vs list, added / removed / renamed property, component kind, '
        'added / removed / duplicated / replaced subcomponent at any depth) and an unrelated tree; both time zone '
        'providers. A case is non-trivial when the tree has at least 3 components')
ASSUMPTIONS = ['component names are the ones the library assigns (upper case, never None); a name set by hand in '
               'lower case is compared as stored while the requested name is upper-cased (covered by correspondence '
               'only, not demanded by the oracle)',
               'property keys are ASCII (RFC 5545 names); Python upper() is Unicode, the model ASCII',
               'value equality is instantiated structurally in the model (class, to_ical text, parameters for '
               'TimeBase and vDDDLists); NaN floats, vDDDLists with elements of different zones and values of '
               'different numeric classes under one key are outside the domain',
               'serialise-and-parse copies are demanded to be equal only for trees built through Component.add with '
               'the types the parser assigns to the property names (the parser cannot know a hand-picked class)',
               'a vBinary under ATTACH is read back as vUri (the parser ignores VALUE=BINARY; value typing is C02), '
               'and a vRecur built from scalar parts differs from the parsed list form (finding '
               'vrecur-scalar-vs-list): generated trees carry RRULE in the parsed form and binary values only as '
               'hand-picked classes',
               'pickle / copy.deepcopy reproduce attribute state (interpreter mechanisms)']

# zones with DST: from_tzid is fast for them (a fixed-offset zone is searched up to year 9999)
ZONES = ['Europe/Berlin', 'America/New_York', 'Australia/Sydney']
TEXTS = ['a', 'b', 'Hello, World; ok', 'x\\y', 'café', '', 'line\nbreak', 'A', 'a:b"c']
KEYCASE = [str.upper, str.lower, str.title, lambda s: s]


# ------------------------------------------------------------------ building live trees

def zoned(rng, y=None):
    from icalendar.timezone import tzp
    z = rng.choice(ZONES)
    naive = datetime(y or rng.choice([2019, 2020, 2021]), rng.randint(1, 12), rng.randint(1, 28), rng.randint(0, 23),
                     rng.choice([0, 30]), 0)
    return tzp.localize(naive, z)


def rand_dt(rng):
    r = rng.random()
    if r < 0.25:
        return date(2020, rng.randint(1, 12), rng.randint(1, 28))
    if r < 0.45:
        return datetime(2020, rng.randint(1, 12), rng.randint(1, 28), rng.randint(0, 23), 0, 0)
    if r < 0.6:
        return datetime(2020, rng.randint(1, 12), rng.randint(1, 28), rng.randint(0, 23), 0, 0, tzinfo=timezone.utc)
    return zoned(rng)


def rand_dt_list(rng):
    out = rand_dt_list_(rng)
    if rng.random() < 0.3:
        # a list may name the same date more than once (the multiset matters, e.g. a,a,b is not a,b,b)
        out = out + [rng.choice(out) for _ in range(rng.randint(1, 2))]
        rng.shuffle(out)
    return out


def rand_dt_list_(rng):
    from icalendar.timezone import tzp
    r = rng.random()
    n = rng.randint(1, 3)
    if r < 0.3:
        return [date(2020, rng.randint(1, 12), rng.randint(1, 28)) for _ in range(n)]
    if r < 0.5:
        return [datetime(2020, rng.randint(1, 12), rng.randint(1, 28), 9, 0, 0) for _ in range(n)]
    z = rng.choice(ZONES)
    return [tzp.localize(datetime(2020, rng.randint(1, 12), rng.randint(1, 28), rng.randint(0, 23), 0, 0), z) for _ in range(n)]


def key(rng, name):
    return rng.choice(KEYCASE)(name)


# property adders: name -> function(rng, comp).  All go through Component.add, so the classes are
# the ones the parser would pick for the name ("API-built").
def _p_summary(rng, c):
    c.add(key(rng, 'summary'), rng.choice(TEXTS))


def _p_description(rng, c):
    c.add(key(rng, 'description'), rng.choice(TEXTS), parameters={'language': rng.choice(['en', 'de'])})


def _p_xprop(rng, c):
    c.add(key(rng, rng.choice(['x-one', 'x-two'])), rng.choice(TEXTS))


def _p_sequence(rng, c):
    c.add(key(rng, 'sequence'), rng.randint(0, 5))


def _p_priority(rng, c):
    c.add(key(rng, 'priority'), rng.randint(0, 9))


def _p_dtstart(rng, c):
    c.add(key(rng, 'dtstart'), rand_dt(rng))


def _p_dtend(rng, c):
    c.add(key(rng, 'dtend'), rand_dt(rng))


def _p_due(rng, c):
    c.add(key(rng, 'due'), rand_dt(rng))


def _p_recurrence_id(rng, c):
    c.add(key(rng, 'recurrence-id'), rand_dt(rng))


def _p_dtstamp(rng, c):
    c.add(key(rng, 'dtstamp'), datetime(2020, rng.randint(1, 12), 1, 0, 0, 0, tzinfo=timezone.utc))


def _p_rdate(rng, c):
    for _ in range(rng.choice([1, 1, 2])):
        c.add(key(rng, 'rdate'), rand_dt_list(rng))


def _p_exdate(rng, c):
    for _ in range(rng.choice([1, 1, 2, 3])):
        c.add(key(rng, 'exdate'), rand_dt_list(rng))


def _p_geo(rng, c):
    c.add(key(rng, 'geo'), (rng.choice([1.5, -33.25, 0.0, 48.0]), rng.choice([2.25, 151.5, 11.0])))


def _p_categories(rng, c):
    for _ in range(rng.choice([1, 1, 2])):
        c.add(key(rng, 'categories'), rng.sample(['a', 'b,c', 'WORK', 'x;y', 'café'], rng.randint(1, 3)))


def _p_duration(rng, c):
    c.add(key(rng, 'duration'), timedelta(hours=rng.randint(0, 30), minutes=rng.choice([0, 15])))


def _p_attendee(rng, c):
    n = rng.choice([2, 2, 3])      # one-element lists are the recorded finding; they get their own check
    for i in range(n):
        c.add(key(rng, 'attendee'), f'mailto:p{rng.randint(1, 4)}@example.com',
              parameters={'cn': rng.choice(['Ann', 'Bob; jr', 'C,D']), 'role': 'CHAIR'} if rng.random() < 0.5 else None)


def _p_rrule(rng, c):
    # list form: what the parser produces (the scalar form is the witness `vrecur-scalar-vs-list`)
    c.add(key(rng, 'rrule'), {'freq': [rng.choice(['DAILY', 'WEEKLY'])], 'count': [rng.randint(1, 5)]})


def _p_trigger(rng, c):
    c.add(key(rng, 'trigger'), -timedelta(minutes=rng.choice([5, 10, 60])))


def _p_freebusy(rng, c):
    s = datetime(2020, rng.randint(1, 12), rng.randint(1, 28), 8, 0, 0, tzinfo=timezone.utc)
    c.add(key(rng, 'freebusy'), (s, s + timedelta(hours=rng.randint(1, 4))))
    if rng.random() < 0.4:
        c.add(key(rng, 'freebusy'), (s, timedelta(hours=2)))


def _p_tzoffset(rng, c):
    c.add(key(rng, 'tzoffsetfrom'), timedelta(hours=rng.choice([-5, 1, 2, 9])))
    c.add(key(rng, 'tzoffsetto'), timedelta(hours=rng.choice([-4, 1, 2]), minutes=rng.choice([0, 30])))


def _p_tzid(rng, c):
    c.add(key(rng, 'tzid'), rng.choice(ZONES + ['Custom/Zone']))


def _p_url(rng, c):
    c.add(key(rng, 'url'), 'http://example.com/' + rng.choice(['a', 'b;c', 'd,e']))


def _p_attach_binary(rng, c):
    from icalendar.prop import vBinary
    c.add(key(rng, 'attach'), vBinary(rng.choice(['abc', 'xyz'])))


API_PROPS = [_p_summary, _p_description, _p_xprop, _p_sequence, _p_priority, _p_dtstart, _p_dtend, _p_due,
             _p_recurrence_id, _p_dtstamp, _p_rdate, _p_exdate, _p_geo, _p_categories, _p_duration, _p_attendee,
             _p_rrule, _p_trigger, _p_freebusy, _p_tzoffset, _p_url]


# hand-assigned values: classes the parser would not pick for the name (never reparsed)
def _h_float(rng, c):
    from icalendar.prop import vFloat
    c['X-FLOAT'] = vFloat(rng.choice([1.5, 2.0, -0.25]))


def _h_int_text(rng, c):
    from icalendar.prop import vInt
    c['X-NUM'] = vInt(rng.randint(0, 3))


def _h_empty_list(rng, c):
    c['X-EMPTY'] = []


def _h_time(rng, c):
    from icalendar.prop import vTime
    from datetime import time
    c['X-TIME'] = vTime(time(rng.randint(0, 23), 30))


def _h_period(rng, c):
    from icalendar.prop import vPeriod
    s = datetime(2020, 1, rng.randint(1, 28), 8, 0, 0)
    c['X-PERIOD'] = vPeriod((s, s + timedelta(hours=1)))


def _h_mixed_list(rng, c):
    from icalendar.prop import vText, vInt
    c['X-MIXED'] = [vText('a'), vInt(1), vText(rng.choice(['b', 'c']))]


# vBinary under ATTACH: the parser ignores VALUE=BINARY and reads a vUri, so it counts as hand-picked
HAND_PROPS = [_h_float, _h_int_text, _h_empty_list, _h_time, _h_period, _h_mixed_list, _p_attach_binary]

KIND_WEIGHTS = ['VEVENT'] * 5 + ['VTODO'] * 3 + ['VJOURNAL', 'VFREEBUSY', 'VALARM', 'VALARM', 'STANDARD', 'DAYLIGHT',
                                                'X-FOO', 'X-FOO', 'X-BAR', 'VCALENDAR']


def new_comp(name):
    from icalendar import cal
    cls = cal.component_factory.get(name)
    if cls is None:
        c = cal.Component()
        c.name = name
        return c
    return cls()


def rand_tree(rng, max_depth, budget, api_only=False, root=None, lower_names=False, _depth=1):
    """A live component tree with at most budget[0] further nodes."""
    name = root or rng.choice(KIND_WEIGHTS)
    if lower_names and name.startswith('X-') and rng.random() < 0.3:
        name = 'x-baz'
    c = new_comp(name)
    budget[0] -= 1
    adders = list(API_PROPS)
    if not api_only:
        adders += HAND_PROPS
    for f in rng.sample(adders, rng.choice([0, 1, 2, 2, 3, 4, 6])):
        f(rng, c)
    if _depth < max_depth and budget[0] > 0:
        fan = rng.choice([0, 1, 1, 2, 2, 3, 3, 4, 8]) if _depth > 1 else rng.choice([1, 2, 3, 4, 4, 5, 8])
        for _ in range(fan):
            if budget[0] <= 0:
                break
            if c.subcomponents and rng.random() < 0.25:
                dup = copy.deepcopy(rng.choice(c.subcomponents))       # repeated identical subcomponent
                n = len(dup.walk())
                if n <= budget[0]:
                    budget[0] -= n
                    c.add_component(dup)
                    continue
            c.add_component(rand_tree(rng, max_depth, budget, api_only, None, lower_names, _depth + 1))
    return c


def deep_chain(rng, depth):
    """a chain exactly `depth` deep with a sibling at each level"""
    root = new_comp('VCALENDAR')
    cur = root
    for i in range(depth - 1):
        nxt = new_comp(rng.choice(['VEVENT', 'X-FOO', 'VALARM', 'VTODO']))
        _p_summary(rng, nxt)
        sib = new_comp(rng.choice(['VEVENT', 'VTODO']))
        cur.add_component(sib)
        cur.add_component(nxt)
        cur = nxt
    return root


def providers():
    import icalendar
    return [('zoneinfo', icalendar.use_zoneinfo), ('pytz', icalendar.use_pytz)]


def ref_preorder(c):
    """independent recursive pre-order"""
    out = [c]
    for s in c.subcomponents:
        out.extend(ref_preorder(s))
    return out


def rebuild(c, prop_order=None, sub_order=None):
    """a shallow re-assembly of c with its properties inserted / subcomponents listed in another order"""
    n = new_comp(c.name)
    if type(n) is not type(c):
        n = type(c)()
        n.name = c.name
    keys = list(c.keys())
    for k in (prop_order if prop_order is not None else keys):
        n[k] = c[k]
    subs = list(c.subcomponents)
    n.subcomponents = [subs[i] for i in sub_order] if sub_order is not None else subs
    return n


# ------------------------------------------------------------------ perturbations

def nodes_with_parent(c, parent=None, idx=None):
    out = [(c, parent, idx)]
    for i, s in enumerate(c.subcomponents):
        out.extend(nodes_with_parent(s, c, i))
    return out


def different_value(rng, v):
    """a value of the same class whose to_ical() differs; None if this class is not handled"""
    from icalendar import prop
    t = type(v)
    if t is prop.vText:
        return prop.vText(str(v) + 'z', params=v.params) if hasattr(v, 'params') else prop.vText(str(v) + 'z')
    if t is prop.vInt:
        n = prop.vInt(int(v) + 1)
        n.params = v.params
        return n
    if t is prop.vCalAddress:
        n = prop.vCalAddress(str(v) + 'x')
        n.params = v.params
        return n
    if t is prop.vUri:
        return prop.vUri(str(v) + 'x')
    if t is prop.vFloat:
        return prop.vFloat(float(v) + 1.0)
    if t is prop.vDDDTypes:
        dt = v.dt
        if isinstance(dt, (datetime, date)):
            return prop.vDDDTypes(dt + timedelta(days=1))
        if isinstance(dt, timedelta):
            return prop.vDDDTypes(dt + timedelta(minutes=1))
        return None
    if t is prop.vDDDLists:
        dts = [d.dt for d in v.dts]
        distinct = []
        for d in dts:
            if d not in distinct:
                distinct.append(d)
        if len(distinct) >= 2 and len(dts) > len(distinct) and rng.random() < 0.7:
            # same members, other multiplicities: one occurrence of a repeated date becomes another member
            rep = next(d for d in distinct if dts.count(d) > 1)
            other = next(d for d in distinct if d != rep)
            i = dts.index(rep)
            return prop.vDDDLists(dts[:i] + [other] + dts[i + 1:])
        if len(distinct) >= 2 and rng.random() < 0.4:
            i = rng.randrange(len(dts))
            other = next(d for d in distinct if d != dts[i])
            return prop.vDDDLists(dts[:i] + [other] + dts[i + 1:])
        return prop.vDDDLists([d + timedelta(days=1) for d in dts])
    if t is prop.vGeo:
        return prop.vGeo((v.latitude + 1.0, v.longitude))
    if t is prop.vCategory:
        return prop.vCategory([str(x) for x in v.cats] + ['extra'])
    if t is prop.vUTCOffset:
        return prop.vUTCOffset(v.td + timedelta(minutes=15))
    if t is prop.vBinary:
        return prop.vBinary(v.obj + 'q')
    if t is prop.vRecur:
        n = prop.vRecur(v)
        n['INTERVAL'] = [2] if n.get('INTERVAL') != [2] else [3]
        return n
    if t is prop.vPeriod:
        return prop.vPeriod((v.start + timedelta(days=1), v.end + timedelta(days=1)))
    if t is prop.vTime:
        from datetime import time
        return prop.vTime(time((v.dt.hour + 1) % 24, v.dt.minute))
    return None


def perturbations(rng, t):
    """yield (kind, perturbed deep copy, expect_unequal) — every kind of single change, each applied at a
    random node.  expect_unequal is None where the property text does not say (parameter of a value
    whose class ignores parameters)."""
    from icalendar import prop
    n_nodes = len(ref_preorder(t))

    def fresh():
        cp = copy.deepcopy(t)
        return cp, nodes_with_parent(cp)

    def pick_with_props(nodes):
        c = [x for x in nodes if len(x[0]) > 0]
        return rng.choice(c) if c else None

    # value change (one per property of one node, and one random deep one)
    cp, nodes = fresh()
    pick = pick_with_props(nodes)
    if pick:
        node_i = nodes.index(pick)
        for k in list(pick[0].keys()):
            cp2, nodes2 = fresh()
            node = nodes2[node_i][0]
            v = node[k]
            if isinstance(v, list):
                if not v:
                    continue
                j = rng.randrange(len(v))
                nv = different_value(rng, v[j])
                if nv is None:
                    continue
                v[j] = nv
            else:
                nv = different_value(rng, v)
                if nv is None:
                    continue
                node[k] = nv
            yield 'value:' + k, cp2, True
    # type change: text <-> int under one key
    cp, nodes = fresh()
    pick = pick_with_props(nodes)
    if pick:
        node = pick[0]
        k = rng.choice(list(node.keys()))
        v = node[k]
        if not isinstance(v, list):
            node[k] = prop.vInt(7) if not isinstance(v, int) else prop.vText('7')
            yield 'type', cp, True
    # parameter change
    cp, nodes = fresh()
    pick = pick_with_props(nodes)
    if pick:
        node = pick[0]
        k = rng.choice(list(node.keys()))
        v = node[k]
        tgt = v[0] if isinstance(v, list) and v else v
        if hasattr(tgt, 'params') and not isinstance(tgt, list):
            tgt.params['X-PARAM'] = 'p'
            timebase = isinstance(tgt, (prop.TimeBase, prop.vDDDLists))
            # vDDDLists compares element parameters only: its own parameter map is not looked at
            if not isinstance(tgt, prop.vDDDLists):
                yield 'param', cp, (True if timebase else None)
    # TZID of a zoned value
    cp, nodes = fresh()
    for node, _, _ in nodes:
        done = False
        for k, v in node.items():
            if isinstance(v, prop.vDDDTypes) and 'TZID' in v.params:
                v.params['TZID'] = 'Other/Zone'
                done = True
                break
        if done:
            yield 'tzid-param', cp, True
            break
    # scalar -> one-element list, list -> first element
    cp, nodes = fresh()
    pick = pick_with_props(nodes)
    if pick:
        node = pick[0]
        k = rng.choice(list(node.keys()))
        v = node[k]
        if isinstance(v, list):
            if len(v) >= 1:
                node[k] = v[0]
                yield 'list-to-scalar', cp, True
        else:
            node[k] = [v]
            yield 'scalar-to-list', cp, True
    # removed / added / renamed property
    cp, nodes = fresh()
    pick = pick_with_props(nodes)
    if pick:
        node = pick[0]
        k = rng.choice(list(node.keys()))
        del node[k]
        yield 'prop-removed', cp, True
    cp, nodes = fresh()
    node = rng.choice(nodes)[0]
    node['X-ADDED'] = prop.vText('new')
    yield 'prop-added', cp, True
    cp, nodes = fresh()
    pick = pick_with_props(nodes)
    if pick:
        node = pick[0]
        k = rng.choice(list(node.keys()))
        node['X-RENAMED'] = node.pop(k)
        yield 'prop-renamed', cp, True
    # component kind
    cp, nodes = fresh()
    node, parent, idx = rng.choice(nodes)
    other = 'VTODO' if node.name != 'VTODO' else 'VEVENT'
    repl = new_comp(other)
    for k in node.keys():
        repl[k] = node[k]
    repl.subcomponents = node.subcomponents
    if parent is None:
        cp = repl
    else:
        parent.subcomponents[idx] = repl
    yield 'kind', cp, True
    # subcomponents: removed / added / duplicated / one of a repeated pair replaced
    if n_nodes > 1:
        cp, nodes = fresh()
        node, parent, idx = rng.choice(nodes[1:])
        del parent.subcomponents[idx]
        yield 'sub-removed', cp, True
        cp, nodes = fresh()
        node, parent, idx = rng.choice(nodes[1:])
        parent.subcomponents.insert(rng.randint(0, len(parent.subcomponents)), copy.deepcopy(node))
        yield 'sub-duplicated', cp, True
        # same length, same *set*, different multiset: [.., a, b ..] -> [.., a, a ..]
        cp, nodes = fresh()
        cands = [x for x in nodes if len(x[0].subcomponents) >= 2]
        if cands:
            node = rng.choice(cands)[0]
            i, j = rng.sample(range(len(node.subcomponents)), 2)
            if node.subcomponents[i] != node.subcomponents[j]:
                node.subcomponents[j] = copy.deepcopy(node.subcomponents[i])
                yield 'sub-multiset', cp, True
    cp, nodes = fresh()
    node = rng.choice(nodes)[0]
    extra = new_comp('VALARM')
    extra['ACTION'] = prop.vText('DISPLAY')
    node.subcomponents.insert(rng.randint(0, len(node.subcomponents)), extra)
    yield 'sub-added', cp, True


# ------------------------------------------------------------------ correspondence

def enc_comps(cs):
    return str(len(cs)) + ''.join(';' + enc_tree(tree_of(c)) for c in cs)


PREDS = {
    'T': lambda c: True,
    'F': lambda c: False,
    'L': lambda c: not c.subcomponents,
    'P' + enc('SUMMARY'): lambda c: 'SUMMARY' in c,
    'K2': lambda c: len(c) >= 2,
}


def spellings(rng, name):
    out = {name, name.lower(), name.title()}
    out.add(''.join(ch.upper() if rng.random() < 0.5 else ch.lower() for ch in name))
    return sorted(out)


def eq_flag(a, b):
    try:
        r = a == b
    except Exception as ex:   # never expected
        return 'err:' + type(ex).__name__
    return '1' if r is True else ('0' if r is False else 'other:' + repr(r))


def safe(f):
    """canonical answer of the implementation, exceptions mapped to a small enum"""
    try:
        return f()
    except Exception as ex:
        return 'err:' + type(ex).__name__


def corr_tree(ctx, t, rng, eq_budget):
    from icalendar import Calendar
    et = enc_tree(tree_of(t))
    pre = ref_preorder(t)
    nt = len(pre) >= 3
    ctx.count('tree_nodes', len(pre))

    def names_of_walk():
        w = t.walk()
        return str(len(w)) + ''.join('|' + enc(c.name) for c in w) + '\t' + str(len(w))
    ctx.corr('w_preorder', [et], safe(names_of_walk), nt)
    names = sorted({c.name for c in pre}) + ['VNOTHERE', 'X-FO']
    for n in names:
        for sp in spellings(rng, n):
            pk = rng.choice(list(PREDS))
            ctx.corr('w_walk', [et, 'S', enc(sp), pk], safe(lambda: enc_comps(t.walk(sp, PREDS[pk]))), nt)
    for pk, f in PREDS.items():
        ctx.corr('w_walk', [et, 'N', '', pk], safe(lambda: enc_comps(t.walk(select=f))), nt)
    for which in ('events', 'todos', 'timezones'):
        ctx.corr('w_acc', [et, which], safe(lambda: enc_comps(getattr(Calendar, which).fget(t))), nt)
    # equality
    others = [('copy', copy.deepcopy(t))]
    subs = t.subcomponents
    if 2 <= len(subs) <= 4:
        for perm in itertools.permutations(range(len(subs))):
            others.append(('perm-subs', rebuild(t, sub_order=list(perm))))
    elif len(subs) > 4:
        order = list(range(len(subs)))
        rng.shuffle(order)
        others.append(('perm-subs', rebuild(t, sub_order=order)))
    inner = [c for c in pre[1:] if 2 <= len(c.subcomponents) <= 4]
    if inner:
        tgt_i = pre.index(rng.choice(inner))
        for perm in list(itertools.permutations(range(len(pre[tgt_i].subcomponents))))[1:]:
            cp = copy.deepcopy(t)
            node = ref_preorder(cp)[tgt_i]
            node.subcomponents = [node.subcomponents[i] for i in perm]
            others.append(('perm-inner', cp))
    keys = list(t.keys())
    if 2 <= len(keys) <= 3:
        for perm in itertools.permutations(keys):
            others.append(('perm-props', rebuild(t, prop_order=list(perm))))
    elif len(keys) > 3:
        ks = list(keys)
        rng.shuffle(ks)
        others.append(('perm-props', rebuild(t, prop_order=ks)))
    for kind, p, _ in perturbations(rng, t):
        others.append(('perturb:' + kind.split(':')[0], p))
    for kind, o in others[:eq_budget]:
        eo = enc_tree(tree_of(o))
        ctx.count('eq:' + kind)
        ctx.corr('w_eq', [et, eo], eq_flag(t, o), nt)
        ctx.corr('w_eq', [eo, et], eq_flag(o, t), nt)


def correspondence(ctx):
    import icalendar
    rng = ctx.rng
    deep = ctx.tier == 'thorough' or ctx.escalate
    max_depth = 6 if deep else 4
    n_trees = ctx.vol(80, 6)
    prev = None
    try:
        for pname, use in providers():
            use()
            ctx.count('provider:' + pname)
            trees = [deep_chain(rng, max_depth), deep_chain(rng, 2), new_comp('VEVENT'), new_comp('X-FOO')]
            for i in range(n_trees):
                trees.append(rand_tree(rng, rng.randint(2, max_depth), [rng.choice([6, 12, 25, 40])],
                                       api_only=(i % 3 == 0), lower_names=(i % 5 == 4)))
            for t in trees:
                corr_tree(ctx, t, rng, eq_budget=60 if deep else 40)
                if prev is not None:
                    a, b = enc_tree(tree_of(t)), enc_tree(tree_of(prev))
                    ctx.count('eq:unrelated')
                    ctx.corr('w_eq', [a, b], eq_flag(t, prev))
                    ctx.corr('w_eq', [b, a], eq_flag(prev, t))
                prev = t
    finally:
        icalendar.use_zoneinfo()


# ------------------------------------------------------------------ oracle (implementation only)

class _Weird:
    pass


NON_COMPONENTS = [None, 'VEVENT', 1, 0, {}, {'SUMMARY': 'a'}, [], (), 1.5, b'x', object, _Weird()]


def tree_sig(c):
    return enc_tree(tree_of(c))


def check_walk(ctx, t, rng):
    from icalendar import Calendar
    inp = describe(t)
    ref = ref_preorder(t)
    got = t.walk()
    if len(got) != len(ref) or any(a is not b for a, b in zip(got, ref)):
        ctx.violation('walk-preorder', inp, f'walk() returned {[c.name for c in got]}, pre-order is {[c.name for c in ref]}')
        return
    if len({id(c) for c in got}) != len(got) and len({id(c) for c in ref}) == len(ref):
        ctx.violation('walk-once', inp, 'walk() returned a component twice')
    names = sorted({c.name for c in ref}) + ['VNOTHERE']
    for n in names:
        for sp in spellings(rng, n):
            for pk in rng.sample(list(PREDS), 2):
                f = PREDS[pk]
                want = [c for c in ref if c.name == n and f(c)]
                g = t.walk(sp, f)
                if len(g) != len(want) or any(a is not b for a, b in zip(g, want)):
                    ctx.violation('walk-name', dict(inp, name=sp, pred=pk),
                                  f'walk({sp!r}) returned {len(g)} components, expected {len(want)} named {n}')
    for which, n in (('events', 'VEVENT'), ('todos', 'VTODO'), ('timezones', 'VTIMEZONE')):
        if isinstance(t, Calendar):
            g = getattr(t, which)
            want = [c for c in ref if c.name == n]
            if len(g) != len(want) or any(a is not b for a, b in zip(g, want)):
                ctx.violation('accessor', dict(inp, accessor=which), f'{which} returned {len(g)}, expected {len(want)}')


def describe(t, **extra):
    """replayable description of a live tree: the exact object state (pickle) plus a readable rendering"""
    import base64
    d = {'ical': safe_ical(t)}
    try:
        d['pickle'] = base64.b64encode(pickle.dumps(t)).decode('ascii')
    except Exception as ex:
        d['pickle_error'] = type(ex).__name__
    d.update(extra)
    return d


def restore(inp):
    """the tree of a replay file: exact state if recorded, else parsed from the rendering"""
    import base64
    from icalendar import Component
    if inp.get('pickle'):
        return pickle.loads(base64.b64decode(inp['pickle']))
    if 'ical' in inp and not inp['ical'].startswith('<to_ical failed'):
        return Component.from_ical(inp['ical'].encode('utf-8'))
    return None


def safe_ical(t):
    try:
        return t.to_ical().decode('utf-8', 'replace')
    except Exception as ex:
        return f'<to_ical failed: {type(ex).__name__}> ' + repr(tree_of(t))[:2000]


def expect_eq(ctx, kind, a, b, inp, want, cls=None):
    for x, y, d in ((a, b, 'a==b'), (b, a, 'b==a')):
        try:
            r = x == y
            nr = x != y
        except Exception as ex:
            ctx.violation('eq-raises', dict(inp, case=kind), f'{d} raised {type(ex).__name__}: {ex}', cls)
            return False
        if r is not want or nr is not (not want):
            ctx.violation('eq-' + kind, dict(inp, case=kind), f'{d} is {r!r} (and != is {nr!r}), expected {want}', cls)
            return False
    return True


def check_equality(ctx, t, rng):
    inp = describe(t)
    expect_eq(ctx, 'reflexive', t, t, inp, True)
    for o in NON_COMPONENTS:
        for a, b, d in ((t, o, 'component == x'), (o, t, 'x == component')):
            try:
                r = a == b
                nr = a != b
            except Exception as ex:
                ctx.violation('eq-noncomponent', dict(inp, other=repr(o)), f'{d} raised {type(ex).__name__}: {ex}')
                continue
            if r is not False or nr is not True:
                ctx.violation('eq-noncomponent', dict(inp, other=repr(o)), f'{d} gave {r!r} for x={o!r}')
    # a plain mapping with the very same items is still not a component
    for o in (dict(t), __import__('icalendar').caselessdict.CaselessDict(t)):
        try:
            r = t == o
        except Exception as ex:
            ctx.violation('eq-noncomponent', dict(inp, other=type(o).__name__), f'raised {type(ex).__name__}')
            continue
        if r is not False:
            ctx.violation('eq-noncomponent', dict(inp, other=type(o).__name__),
                          f'component == {type(o).__name__} with the same items gave {r!r}')
    # order and case insensitivity
    subs = t.subcomponents
    perms = list(itertools.permutations(range(len(subs)))) if len(subs) <= 4 else \
        [rng.sample(range(len(subs)), len(subs)) for _ in range(6)]
    for perm in perms:
        expect_eq(ctx, 'perm-subs', t, rebuild(t, sub_order=list(perm)), dict(inp, order=list(perm)), True)
    keys = list(t.keys())
    for perm in (list(itertools.permutations(keys)) if len(keys) <= 4 else [rng.sample(keys, len(keys)) for _ in range(6)]):
        o = rebuild(t, prop_order=[rng.choice(KEYCASE)(k) for k in perm])
        expect_eq(ctx, 'perm-props', t, o, dict(inp, order=list(perm)), True)
    pre = ref_preorder(t)
    inner = [i for i, c in enumerate(pre) if i and len(c.subcomponents) >= 2]
    for i in inner[:3]:
        cp = copy.deepcopy(t)
        node = ref_preorder(cp)[i]
        rng.shuffle(node.subcomponents)
        ks = list(node.keys())
        rng.shuffle(ks)
        for k in ks:
            node.move_to_end(k)
        expect_eq(ctx, 'perm-inner', t, cp, dict(inp, node=i), True)
    # perturbations distinguish
    for kind, p, unequal in perturbations(rng, t):
        if unequal is None:
            continue
        expect_eq(ctx, 'perturb:' + kind, t, p, dict(inp, perturbed=safe_ical(p), perturbation=kind), False)


def check_copies(ctx, t, pname, reparse):
    from icalendar import Component
    inp = describe(t, provider=pname)
    try:
        b0 = t.to_ical()
    except Exception as ex:
        ctx.violation('to_ical-raises', inp, f'{type(ex).__name__}: {ex}')
        return
    copies = []
    try:
        copies.append(('deepcopy', copy.deepcopy(t)))
    except Exception as ex:
        ctx.violation('copy-raises', dict(inp, how='deepcopy'), f'{type(ex).__name__}: {ex}')
    try:
        copies.append(('pickle', pickle.loads(pickle.dumps(t))))
    except Exception as ex:
        ctx.violation('copy-raises', dict(inp, how='pickle'), f'{type(ex).__name__}: {ex}')
    if reparse:
        try:
            parsed = Component.from_ical(b0)
            copies.append(('reparse', parsed))
        except Exception as ex:
            parsed = None
            ctx.violation('copy-raises', dict(inp, how='reparse'), f'{type(ex).__name__}: {ex}')
        # a tree that came out of the parser is a tree like any other: its deep copy and its pickle are equal
        # to it and serialise identically (the parser builds unknown component kinds its own way)
        if parsed is not None:
            for how, mk in (('deepcopy-of-parsed', copy.deepcopy), ('pickle-of-parsed', lambda x: pickle.loads(pickle.dumps(x)))):
                try:
                    c2 = mk(parsed)
                except Exception as ex:
                    ctx.violation('copy-raises', dict(inp, how=how), f'{type(ex).__name__}: {ex}')
                    continue
                expect_eq(ctx, 'copy:' + how, parsed, c2, dict(inp, how=how), True)
                try:
                    if c2.to_ical() != parsed.to_ical():
                        ctx.violation('copy-bytes', dict(inp, how=how), f'the {how} copy serialises differently')
                except Exception as ex:
                    ctx.violation('copy-to_ical-raises', dict(inp, how=how), f'{type(ex).__name__}: {ex}')
    for how, c in copies:
        cls = None
        if how == 'reparse' and has_one_element_list(t):
            cls = 'one-element-list-vs-scalar'
        elif how == 'reparse' and has_scalar_recur(t):
            cls = 'vrecur-scalar-vs-list'
        if c is t:
            ctx.violation('copy-identity', dict(inp, how=how), 'the copy is the original object')
        expect_eq(ctx, 'copy:' + how, t, c, dict(inp, how=how), True, cls)
        try:
            b1 = c.to_ical()
        except Exception as ex:
            ctx.violation('copy-to_ical-raises', dict(inp, how=how), f'{type(ex).__name__}: {ex}')
            continue
        if b1 != b0:
            ctx.violation('copy-bytes', dict(inp, how=how), f'the {how} copy serialises differently', cls)


def has_scalar_recur(t):
    from icalendar.prop import vRecur
    def scalar(v):
        return isinstance(v, vRecur) and any(not isinstance(x, list) for x in v.values())
    return any(scalar(v) or (isinstance(v, list) and any(scalar(x) for x in v))
               for c in ref_preorder(t) for v in c.values())


def has_one_element_list(t):
    return any(isinstance(v, list) and len(v) == 1 for c in ref_preorder(t) for v in c.values())


_TZ_CACHE = {}


def real_timezone(pname, zid):
    """a generated VTIMEZONE (small window), cached per provider"""
    from icalendar import Timezone
    k = (pname, zid)
    if k not in _TZ_CACHE:
        _TZ_CACHE[k] = Timezone.from_tzid(zid, first_date=date(2019, 1, 1), last_date=date(2022, 1, 1))
    return copy.deepcopy(_TZ_CACHE[k])


def corpus_trees(rng, pname):
    """fixed witnesses, run first"""
    from icalendar import Calendar, Event, Todo
    out = []
    # D22: Event vs Todo with the same content; {e,e} vs {e,f}; D24 geo vs list
    e = Event()
    e.add('summary', 'a')
    out.append(('kind-witness', e))
    cal = Calendar()
    e1, e2 = Event(), Event()
    e1.add('summary', 'a')
    e2.add('summary', 'b')
    cal.add_component(e1)
    cal.add_component(copy.deepcopy(e1))
    cal.add_component(e2)
    out.append(('multiset-witness', cal))
    g = Event()
    g.add('geo', (1.0, 2.0))
    g.add('dtstart', zoned(rng))
    g.add('rdate', rand_dt_list(rng))
    out.append(('geo-zoned', g))
    c3 = Calendar()
    c3.add('prodid', '-//x//')
    c3.add('version', '2.0')
    ev = Event()
    ev.add('dtstart', zoned(rng, 2020))
    ev.add('uid', 'u1')
    c3.add_component(real_timezone(pname, 'Europe/Berlin'))
    c3.add_component(ev)
    out.append(('with-vtimezone', c3))
    # VTIMEZONEs below the top level (inside an unknown wrapper, inside an event) next to a top-level one:
    # walking and the accessors descend to every depth
    c4 = Calendar()
    c4.add('prodid', '-//x//')
    c4.add('version', '2.0')
    c4.add_component(real_timezone(pname, 'Europe/Berlin'))
    wrap = new_comp('X-WRAP')
    wrap.add_component(real_timezone(pname, 'America/New_York'))
    inner = Event()
    inner.add('uid', 'u2')
    inner.add_component(real_timezone(pname, 'Asia/Tokyo'))
    wrap.add_component(inner)
    c4.add_component(wrap)
    out.append(('nested-vtimezones', c4))
    # the same component object attached at several places: a position in the tree, not an object, is walked
    c5 = Calendar()
    shared = new_comp('VALARM')
    shared.add('action', 'DISPLAY')
    for i in range(2):
        evx = Event()
        evx.add('uid', 'shared-%d' % i)
        evx.add_component(shared)
        c5.add_component(evx)
    tdx = Todo()
    tdx.add_component(shared)
    tdx.add_component(shared)
    c5.add_component(tdx)
    out.append(('shared-instance', c5))
    return out


def oracle(ctx):
    import icalendar
    from icalendar import Event, Todo, Calendar
    rng = ctx.rng
    deep = ctx.tier == 'thorough' or ctx.escalate
    max_depth = 6 if deep else 4
    try:
        for pname, use in providers():
            use()
            # fixed witnesses
            e, td = Event(), Todo()
            e.add('summary', 'a')
            td.add('summary', 'a')
            ctx.evaluated(('kind', pname))
            expect_eq(ctx, 'kind', e, td, {'case': 'Event vs Todo with the same properties'}, False)
            a, b = Calendar(), Calendar()
            x, y = Event(), Event()
            x.add('summary', 'x')
            y.add('summary', 'y')
            a.subcomponents = [x, copy.deepcopy(x)]
            b.subcomponents = [copy.deepcopy(x), y]
            ctx.evaluated(('multiset', pname))
            expect_eq(ctx, 'multiset', a, b, {'case': '{x,x} vs {x,y}'}, False)
            d1, d2 = date(2021, 5, 1), date(2021, 5, 2)
            la, lb = Event(), Event()
            la.add('rdate', [d1, d1, d2])
            lb.add('rdate', [d1, d2, d2])
            ctx.evaluated(('date-list-multiset', pname))
            expect_eq(ctx, 'date-list-multiset', la, lb, {'case': 'RDATE a,a,b vs a,b,b'}, False)
            # the recorded finding, replayed on the implementation
            one = Event()
            one.add('attendee', ['a'])
            ctx.evaluated(('one-element-list', pname))
            check_copies(ctx, one, pname, True)
            rec = Event()
            rec.add('rrule', {'freq': 'weekly', 'count': 2})
            ctx.evaluated(('vrecur-scalar', pname))
            check_copies(ctx, rec, pname, True)
            for label, t in corpus_trees(rng, pname):
                ctx.evaluated(('corpus', label, pname))
                check_walk(ctx, t, rng)
                check_equality(ctx, t, rng)
                check_copies(ctx, t, pname, True)
            trees = [(deep_chain(rng, max_depth), True)]
            for i in range(ctx.vol(70, 6)):
                api = i % 2 == 0
                trees.append((rand_tree(rng, rng.randint(2, max_depth), [rng.choice([6, 12, 25, 40])], api_only=api,
                                        root=rng.choice(['VCALENDAR', 'VCALENDAR', None])), api))
            for t, api in trees:
                if rng.random() < 0.35:
                    for _ in range(rng.randint(1, 2)):
                        rng.choice(ref_preorder(t)).add_component(
                            real_timezone(pname, rng.choice(['Europe/Berlin', 'America/New_York', 'Asia/Tokyo'])))
                n = len(ref_preorder(t))
                ctx.evaluated(('tree', tree_sig(t), pname), n >= 3)
                ctx.count('oracle_tree_nodes', n)
                check_walk(ctx, t, rng)
                check_equality(ctx, t, rng)
                check_copies(ctx, t, pname, reparse=api)
    finally:
        icalendar.use_zoneinfo()


def replay(ctx, data):
    import icalendar
    inp = data['input']
    rng = ctx.rng
    if inp.get('provider') == 'pytz':
        icalendar.use_pytz()
    try:
        t = restore(inp)
        if t is not None:
            check_walk(ctx, t, rng)
            check_equality(ctx, t, rng)
            check_copies(ctx, t, inp.get('provider', 'zoneinfo'), True)
        else:
            oracle(ctx)
    finally:
        icalendar.use_zoneinfo()
    for v in ctx.violations:
        print('REPRODUCED', v['kind'], v['detail'], f"class={v['cls']}")
    if not ctx.violations:
        print('not reproduced on the current tree')
    return 1 if ctx.violations else 0
