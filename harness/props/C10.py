"""C10 - Serialisation is deterministic, pure and insertion-order independent."""
import hashlib
import os
import subprocess
import sys

from harness import calgen, parsecorr
from harness.proto import enc
from harness.trees import tree_of

LEAN = ['ICal.Props.C10']
LEVEL = 'proof'
FINGERPRINTS = ['cal.Component.property_items', 'cal.Component.content_line', 'cal.Component.content_lines',
                'cal.Component.to_ical', 'caselessdict.canonsort_keys', 'parser.Parameters.to_ical',
                'prop.vDatetime.to_ical', 'prop.vRecur.to_ical', 'cal.Calendar.add_missing_timezones']
RULE = ('API-built random calendars (all component kinds, nesting <= 3, properties of every value kind with '
        'parameters) and every fixture of the repository, serialised with sorted on and off; every permutation '
        '(<= 5 names) / random shuffles of the insertion history; the same script run in subprocesses under '
        'PYTHONHASHSEED 0, 1, 2, random (16 seeds in the thorough tier); non-trivial = the tree has at least two '
        'properties or a subcomponent')
ASSUMPTIONS = ['the class of a component is determined by its name through ComponentFactory (hand-set names of '
               'generic components are outside the model)',
               'interpreter hashing itself is not modelled: set enumeration is "any order" in the theorems and the '
               'hash-seed clause is validated by subprocess runs']

HASHSEED_SCRIPT = r'''
import sys, hashlib
from datetime import datetime, date, timedelta
from zoneinfo import ZoneInfo
from icalendar import Calendar, Event, Todo, Alarm
cal = Calendar(); cal.add('prodid', '-//x//'); cal.add('version', '2.0')
zones = ['Europe/Berlin', 'America/New_York', 'Asia/Tokyo', 'Australia/Sydney', 'Africa/Nairobi', 'America/Sao_Paulo']
for i, z in enumerate(zones):
    e = Event(); e.add('uid', 'u%d' % i); e.add('summary', 's', parameters={'x-b': 'b', 'language': 'en', 'altrep': 'x'})
    e.start = datetime(2021, 3, 1 + i, 10, tzinfo=ZoneInfo(z)); e.end = datetime(2021, 3, 1 + i, 11, tzinfo=ZoneInfo(z))
    e.add('categories', ['a', 'b']); e.add('rrule', {'freq': ['DAILY'], 'count': [3], 'byday': ['MO', 'TU']})
    e.add('rdate', [datetime(2021, 4, 1, 10, tzinfo=ZoneInfo(z))]); e.add('x-z', 'v');
    e.add('exdate', [datetime(2021, 5, 1, 10, tzinfo=ZoneInfo(zz)) for zz in zones[i:] + zones[:i]])   # a list that mixes zones
    e.add('x-slot-7', 'a'); e.add('x-slot-07', 'b'); e.add('x-slot-007', 'c'); e.add('attendee', 'mailto:a@b', parameters={'cn': 'A', 'role': 'CHAIR'})
    a = Alarm(); a.TRIGGER = timedelta(minutes=-5); e.add_component(a); cal.add_component(e)
from datetime import time as _time
m = Event(); m.add('uid', 'mixed')
# date lists that mix value kinds (each kind carries its own VALUE): whatever is written must not depend on hashing
m.add('rdate', [date(2021, 1, 1), (datetime(2021, 1, 2, 10), datetime(2021, 1, 2, 11))])
m.add('exdate', [date(2021, 2, 1), _time(10, 0)])
m.add('rdate', [(datetime(2021, 3, 2, 10), timedelta(hours=1)), date(2021, 3, 1), datetime(2021, 3, 3, 9)])
cal.add_component(m)
cal.add_missing_timezones(first_date=date(2020, 1, 1), last_date=date(2022, 1, 1))
b = cal.to_ical() + cal.to_ical(sorted=False)
# every component kind, holding every name any canonical order mentions: the first and the second serialisation
# of this (fresh) process must be the same bytes, whatever the hash seed
from icalendar import Journal, FreeBusy, Timezone, TimezoneStandard, TimezoneDaylight, Component
from icalendar.cal import component_factory
from icalendar.prop import vText
names = set(['UID', 'DTSTAMP', 'DTSTART', 'DTEND', 'DUE', 'DURATION', 'SUMMARY', 'DESCRIPTION', 'TZID', 'TZNAME', 'TZOFFSETFROM',
             'TZOFFSETTO', 'RRULE', 'RDATE', 'EXDATE', 'FREEBUSY', 'ORGANIZER', 'ATTENDEE', 'COMMENT', 'X-A', 'X-B', 'ACTION', 'TRIGGER',
             'VERSION', 'PRODID', 'CALSCALE', 'METHOD', 'LOCATION', 'PRIORITY', 'SEQUENCE', 'STATUS', 'URL', 'CLASS', 'CREATED'])
names |= set(['RECURRENCE-ID', 'LAST-MODIFIED', 'CATEGORIES', 'TRANSP', 'GEO', 'RESOURCES', 'CONTACT', 'RELATED-TO', 'ATTACH',
              'REPEAT', 'PERCENT-COMPLETE', 'COMPLETED', 'TZURL', 'X-LIC-LOCATION', 'REQUEST-STATUS', 'EXRULE'])
# (the classes' own canonical_order attributes are deliberately not read here: looking must not disturb them)
for cls in sorted(set(list(component_factory.values()) + [Component]), key=lambda k: k.__name__):
    c = cls()
    for n in sorted(names, reverse=True):
        c[n] = vText('v-' + n.lower())
    one, two = c.to_ical(), c.to_ical()
    if one != two:
        sys.stdout.write('NOT-IDEMPOTENT %s: first %r then %r\n' % (cls.__name__, one, two))
    b += one + c.to_ical(sorted=False)
sys.stdout.write(hashlib.sha256(b).hexdigest() + ' ' + ','.join(sorted(cal.get_used_tzids())) + ' ' + ','.join(t.tz_name for t in cal.timezones))
'''


def correspondence(ctx):
    import icalendar
    for name, data in calgen.fixtures():
        try:
            comps = icalendar.Calendar.from_ical(data, multiple=True)
        except ValueError:
            continue
        for c in comps:
            parsecorr.ser_case(ctx, c, True)
            parsecorr.ser_case(ctx, c, False)
    for _ in range(ctx.vol(300)):
        cal = calgen.rand_calendar(ctx.rng)
        parsecorr.ser_case(ctx, cal, True)
        parsecorr.ser_case(ctx, cal, False)


def balanced(b):
    stack = []
    for ln in b.decode('utf-8', 'replace').replace('\r\n ', '').split('\r\n'):
        if ln.upper().startswith('BEGIN:'):
            stack.append(ln[6:])
        elif ln.upper().startswith('END:'):
            if not stack or stack.pop() != ln[4:]:
                return False
    return not stack


def build_event(spec, order, kind='Event'):
    import icalendar
    e = getattr(icalendar, kind)()
    for i in order:
        name, value, params = spec[i]
        e.add(name, value, parameters=dict(params) if params else None)
    return e


def check_tree(ctx, c):
    t0 = tree_of(c)
    try:
        b1 = c.to_ical()
        b2 = c.to_ical()
        u1 = c.to_ical(sorted=False)
        u2 = c.to_ical(sorted=False)
    except (AssertionError, ValueError, UnicodeEncodeError):
        return
    t1 = tree_of(c)
    if b1 != b2 or u1 != u2:
        ctx.violation('not-idempotent', {'bytes': b1.decode('utf-8', 'replace')}, 'two serialisations differ')
    if t0 != t1:
        ctx.violation('not-pure', {'bytes': b1.decode('utf-8', 'replace')}, 'to_ical changed the tree')
    if not balanced(b1) or not balanced(u1):
        ctx.violation('unbalanced', {'bytes': b1.decode('utf-8', 'replace')}, 'BEGIN/END not balanced')
    # sorted=False: at every depth properties appear in insertion order (repeated values in their order),
    # then the subcomponents in their order
    def expected(comp):
        out = ['BEGIN']
        for k, v in comp.items():
            out += [k] * (len(v) if isinstance(v, list) else 1)
        for sub in comp.subcomponents:
            out += expected(sub)
        return out + ['END']
    want = expected(c)
    got = []
    for ln in u1.decode('utf-8', 'replace').replace('\r\n ', '').replace('\r\n\t', '').split('\r\n'):
        if ln:
            got.append(ln.split(':', 1)[0].split(';', 1)[0].upper())
    if got != want and not any(k in ('BEGIN', 'END') for w in c.walk() for k in w.keys()):
        i = next((j for j in range(min(len(got), len(want))) if got[j] != want[j]), min(len(got), len(want)))
        ctx.violation('unsorted-order', {'bytes': u1.decode('utf-8', 'replace')},
                      f'with sorted=False the line names differ from insertion order at line {i}: {got[i:i + 4]} vs {want[i:i + 4]}')


def check_permutations(ctx, rng):
    import itertools
    from datetime import date, datetime, timedelta
    pool = [('summary', 'S', {'language': 'en', 'altrep': 'x', 'x-b': '1'}), ('dtstart', datetime(2020, 1, 1, 10), None),
            ('dtend', datetime(2020, 1, 1, 11), None), ('uid', 'u', None), ('x-custom', 'v', {'b': '2', 'a': '1'}),
            ('location', 'L', None), ('sequence', 3, None), ('attendee', 'mailto:a', {'cn': 'A'}),
            ('attendee', 'mailto:b', {'role': 'R', 'cn': 'B'}), ('comment', 'c1', None), ('comment', 'c2', None),
            ('rrule', {'freq': ['DAILY'], 'count': [2]}, None), ('dtstamp', datetime(2020, 1, 1), None),
            ('categories', ['x', 'y'], None), ('priority', 1, None), ('description', 'D', None),
            # names that differ only in case-insensitive-irrelevant ways a "smart" sort key might conflate
            ('x-slot-7', 'a', None), ('x-slot-07', 'b', None), ('x-slot-007', 'c', None), ('x-a', '1', None),
            ('x-A1', '2', None), ('x-a01', '3', None), ('X-b_2', '4', None), ('x-b-2', '5', None),
            # repeated names whose earlier value is empty or zero (falsy in Python, a value like any other here)
            ('comment', '', None), ('percent-complete', 0, None), ('percent-complete', 50, None), ('x-empty', '', None),
            ('x-empty', 'later', None)]
    k = rng.randint(2, 6)
    spec = rng.sample(pool, k)
    if rng.random() < 0.4:
        spec = rng.sample(pool[-8:], min(k, 4)) + rng.sample(pool[:-8], max(0, k - 4))
    kind = rng.choice(['Event', 'Event', 'Todo', 'Journal', 'FreeBusy', 'Alarm', 'Timezone', 'TimezoneStandard', 'Calendar'])
    if rng.random() < 0.3:
        pair = rng.choice([[('comment', '', None), ('comment', 'c2', None)], [('percent-complete', 0, None), ('percent-complete', 50, None)],
                           [('x-empty', '', None), ('x-empty', 'later', None), ('x-empty', '', None)]])
        spec = pair + [x for x in spec if x[0] != pair[0][0]][:max(0, k - len(pair))]
        k = len(spec)
        names = [s_[0] for s_ in spec]
    built = build_event(spec, range(k), kind)
    base = built.to_ical()
    # every API call left its line: per name as many lines as calls, with sorting on and off
    for flag in (True, False):
        out = built.to_ical(sorted=flag).decode('utf-8', 'replace').replace('\r\n ', '')
        got_names = [ln.split(':', 1)[0].split(';', 1)[0].upper() for ln in out.split('\r\n')[1:-2]]
        for nm in {n.upper() for n, _, _ in spec}:
            calls = sum(1 for n, _, _ in spec if n.upper() == nm)
            if got_names.count(nm) != calls:
                ctx.violation('repeated-property-lost', {'names': [s_[0] for s_ in spec], 'values': [repr(s_[1]) for s_ in spec], 'component': kind, 'sorted': flag},
                              f'{calls} add() calls for {nm} but {got_names.count(nm)} lines in the output (sorted={flag}): {out!r}')
                return
    names = [s[0] for s in spec]
    perms = list(itertools.permutations(range(k))) if k <= 5 else [rng.sample(range(k), k) for _ in range(60)]
    for p in perms:
        # keep the relative order of repeated names
        ok = all(p.index(i) < p.index(j) for i in range(k) for j in range(i + 1, k) if names[i] == names[j])
        if not ok:
            continue
        ctx.evaluated(('perm', kind, tuple(names), tuple(p)))
        # permute parameter insertion order too
        spec2 = [(n, v, dict(reversed(list(pr.items()))) if pr else None) for n, v, pr in spec]
        b = build_event(spec2, p, kind).to_ical()
        if b != base:
            ctx.violation('insertion-order', {'names': names, 'perm': list(p), 'component': kind},
                          f'bytes differ for insertion order {p}: {b!r} vs {base!r}')
            return


def check_hashseed(ctx):
    seeds = ['0', '1', '2', 'random'] if ctx.tier == 'quick' and not ctx.escalate else [str(i) for i in range(15)] + ['random']
    outs = {}
    for s in seeds:
        env = dict(os.environ)
        env['PYTHONHASHSEED'] = s
        p = subprocess.run(['/venv/bin/python', '-c', HASHSEED_SCRIPT], env=env, stdout=subprocess.PIPE,
                           stderr=subprocess.PIPE, text=True, timeout=300)
        ctx.evaluated(('hashseed', s))
        if p.returncode != 0:
            ctx.violation('hashseed-script-failed', {'seed': s}, p.stderr[-400:])
            return
        outs[s] = p.stdout.strip()
        for ln in p.stdout.splitlines():
            if ln.startswith('NOT-IDEMPOTENT'):
                ctx.violation('not-idempotent', {'hashseed': s, 'component': ln.split(':')[0].split()[1]}, ln[:1500])
                return
    if len(set(outs.values())) != 1:
        ctx.violation('hash-seed-dependent', {'outputs': outs}, 'the same script produced different bytes under different PYTHONHASHSEED')
    ctx.count('hashseed_runs', len(seeds))


def check_reserved_names(ctx):
    """a property stored under the name BEGIN or END is written like any other and breaks the nesting"""
    from icalendar import Calendar, Event
    for nm in ('end', 'begin'):
        cal = Calendar()
        e = Event()
        e.add(nm, 'VEVENT')
        e.add('uid', '1')
        cal.add_component(e)
        b = cal.to_ical()
        ctx.evaluated(('reserved', nm))
        if not balanced(b):
            ctx.violation('unbalanced', {'bytes': b.decode('utf-8')}, f'a property named {nm.upper()} unbalances the output',
                          'property-named-begin-end')


def oracle(ctx):
    import icalendar
    check_reserved_names(ctx)
    for name, data in calgen.fixtures():
        try:
            comps = icalendar.Calendar.from_ical(data, multiple=True)
        except ValueError:
            continue
        for c in comps:
            ctx.evaluated(('fx', name))
            check_tree(ctx, c)
    for _ in range(ctx.vol(300)):
        cal = calgen.rand_calendar(ctx.rng)
        ctx.evaluated(('rand', ctx.rng.random()))
        check_tree(ctx, cal)
    for _ in range(ctx.vol(40, 5)):
        check_permutations(ctx, ctx.rng)
    check_hashseed(ctx)


def replay(ctx, data):
    print('replay: re-running the oracle with the recorded seed', data.get('seed'))
    oracle(ctx)
    for v in ctx.violations:
        print('REPRODUCED', v['kind'], v['detail'][:300])
    return 1 if ctx.violations else 0
