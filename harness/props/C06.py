"""C06 - Folding: lines <= 75 octets, no split characters, exact unfolding."""
import re

from harness import gen
from harness.proto import enc, encl, encb, has_surrogate

LEAN = ['ICal.Props.C06']
LEVEL = 'proof'
FINGERPRINTS = ['parser.foldline', 'parser.Contentline.to_ical', 'parser.Contentline.from_ical',
                'parser.Contentlines.to_ical', 'parser.Contentlines.from_ical', 'parser.Contentline.__new__']
RULE = ('every length 0..400 x character widths 1..4 (uniform lines), every alignment of one multi-octet character '
        'at character offsets 60..80 in ASCII filler, all strings <= 6 over {CR LF SP HT a} for the unfold scanner and '
        'the line splitter, seeded random mixed-width lines; non-trivial = the folded form has at least one fold or '
        'the input contains CR/LF/SP/HT at a fold point')
ASSUMPTIONS = ['python -O strips the assert that refuses LF in a content line (runtime configuration, not modelled)',
               'UTF-8 octet count of a character = Char.utf8Size']

WIDTH = {1: 'a', 2: 'é', 3: '€', 4: '😀'}


def lines_for(ctx):
    top = 400 if (ctx.tier == 'thorough' or ctx.escalate) else 240
    step = 1 if (ctx.tier == 'thorough' or ctx.escalate) else 1
    for wd, ch in WIDTH.items():
        for n in range(0, top // (1 if wd == 1 else wd) + 1, step):
            yield ch * n
    for wd in (2, 3, 4):
        for pos in range(60, 81):
            for tail in (0, 1, 80):
                yield 'a' * pos + WIDTH[wd] + 'b' * tail
                yield 'a' * pos + WIDTH[wd] * 3 + 'b' * tail
    for pos in range(70, 78):
        for ch in (' ', '\t', '\r', ':', ';'):
            yield 'x' * pos + ch + 'y' * 10
            yield 'x' * pos + ch * 3 + 'y' * 80
    # escape sequences sliding across the fold boundaries of pure-ASCII lines
    for pos in range(60, 160):
        for esc in ('\\n', '\\,', '\\\\', '\\;'):
            yield 'S:' + 'x' * pos + esc + 'y' * 12
    for _ in range(ctx.vol(400)):
        yield ''.join(ctx.rng.choice('ab\\,;n: ') for _ in range(ctx.rng.randint(60, 240)))
    for _ in range(ctx.vol(1500)):
        s = gen.rand_text(ctx.rng, 300, alphabet=list('abc :;\t\r'), wide=0.3)
        s = s.replace('\n', '')
        if not has_surrogate(s):
            yield s


def correspondence(ctx):
    from icalendar.parser import Contentline, Contentlines, foldline, uFOLD, NEWLINE
    for s in lines_for(ctx):
        folded = foldline(s)
        nt = '\r\n ' in folded
        ctx.corr('fold', [enc(s)], enc(folded), nt)
        if len(s) < 120 or nt and ctx.rng.random() < 0.3:
            ctx.corr('fold_bytes', [enc(s)], encb(Contentline(s).to_ical()), nt)
    # the unfold scanner and the newline splitter against Python's re
    for s in gen.all_strings(['\r', '\n', ' ', '\t', 'a'], 6):
        ctx.corr('unfold', [enc(s)], enc(uFOLD.sub('', s)), True)
        if len(s) <= 5:
            ctx.corr('splitnl', [enc(s)], encl(NEWLINE.split(s)), True)
            ctx.corr('lines_from', [enc(s)], encl([str(x) for x in Contentlines.from_ical(s)][:-1]), True)
    for _ in range(ctx.vol(400)):
        ls = []
        for _ in range(ctx.rng.randint(0, 5)):
            s = gen.rand_text(ctx.rng, 160, alphabet=list('abc :;\t\r'), wide=0.2).replace('\n', '')
            if not has_surrogate(s):
                ls.append(s)
        cl = Contentlines([Contentline(x) for x in ls])
        ctx.corr('lines_to', [encl(ls)], enc(cl.to_ical().decode('utf-8')), True)


def check_line(ctx, s):
    """the five clauses of the property on the bytes of Contentline(s).to_ical()"""
    from icalendar.parser import Contentline
    try:
        b = Contentline(s).to_ical()
    except (AssertionError, UnicodeEncodeError):
        return
    phys = b.split(b'\r\n')
    for i, p in enumerate(phys):
        if len(p) > 75:
            ctx.violation('width', {'line': s}, f'physical line {i} has {len(p)} octets')
            return
        try:
            p.decode('utf-8')
        except UnicodeDecodeError:
            ctx.violation('split-character', {'line': s}, f'physical line {i} is not valid UTF-8')
            return
        if i > 0 and not p.startswith(b' '):
            ctx.violation('continuation', {'line': s}, f'physical line {i} does not start with a space')
            return
    # strict unfolding: delete each CRLF + exactly one SP/HT
    restored = re.sub(b'\r\n[ \t]', b'', b).decode('utf-8')
    if restored != s:
        ctx.violation('unfold-strict', {'line': s}, f'removing CRLF+space gives {restored!r}')
    back = str(Contentline.from_ical(b))
    # octets that begin with EF BB BF are read as text with a byte order mark (C09: insignificant); the clause
    # of this property is the textual one above, so one leading U+FEFF may be taken as the mark here
    if back != s and not (s.startswith('\ufeff') and back == s[1:]):
        ctx.violation('unfold', {'line': s}, f'Contentline.from_ical gives {back!r}')


def check_component(ctx, rng):
    from icalendar import Calendar, Event
    c = Calendar()
    e = Event()
    e.add('summary', gen.rand_text(rng, 200, wide=0.3))
    e.add('description', gen.rand_text(rng, 300, wide=0.3))
    e.add('x-long-' + 'n' * rng.randint(0, 70), gen.rand_text(rng, 100), {'x-p': gen.rand_text(rng, 90, alphabet=list('ab c,:;'), wide=0.2).replace('"', '').replace('\n', '').replace('\r', '')})
    c.add_component(e)
    try:
        b = c.to_ical()
    except (UnicodeEncodeError, AssertionError, ValueError):
        return
    if not b.endswith(b'\r\n'):
        ctx.violation('terminator', {'bytes': b.decode('utf-8', 'replace')}, 'output does not end with CRLF')
    for p in b[:-2].split(b'\r\n'):
        if len(p) > 75:
            ctx.violation('component-width', {'bytes': b.decode('utf-8', 'replace')}, f'a physical line has {len(p)} octets')
            return
        try:
            p.decode('utf-8')
        except UnicodeDecodeError:
            ctx.violation('component-split-character', {'bytes': b.decode('utf-8', 'replace')}, 'a physical line is not valid UTF-8')
            return
    logical = [str(x) for x in c.content_lines() if x]
    from icalendar.parser import Contentlines
    back = [str(x) for x in Contentlines.from_ical(b) if x]
    if back != logical:
        ctx.violation('component-unfold', {'bytes': b.decode('utf-8', 'replace')}, 'unfolded lines differ from the content lines')


def oracle(ctx):
    for s in lines_for(ctx):
        ctx.evaluated(('l', s), len(s.encode('utf-8', 'replace')) > 74)
        check_line(ctx, s)
    for _ in range(ctx.vol(300)):
        ctx.evaluated(('c', ctx.rng.random()))
        check_component(ctx, ctx.rng)


def replay(ctx, data):
    if 'line' in data['input']:
        check_line(ctx, data['input']['line'])
    for v in ctx.violations:
        print('REPRODUCED', v['kind'], v['detail'])
    if not ctx.violations:
        print('not reproduced on the current tree')
    return 1 if ctx.violations else 0
