"""The translator's differential test of Component.from_ical: every `parse` correspondence case of
harness/parsecorr.py is also put to the op `body_parse` (lean/ICal/Driver/BodiesParse.lean), which runs the
definition that tools/py2lean.py regenerates from cal.py on every run (lean/ICal/Gen/BodiesParse.lean) with the
external pieces of lean/ICal/Model/ParsePieces.lean - same arguments (multiple, decoder table, text), same expected
answer (trees and error log of the real Component.from_ical, or err:ValueError).
With `ser=True` every `ser` case (Component.to_ical) is also put to the op `body_ser` (lean/ICal/Driver/BodiesSerLines.lean:
the regenerated to_ical / content_lines / content_line / property_items with the pieces of lean/ICal/Model/SerPieces.lean)."""


class Both:
    """a view of the check's context whose corr() registers a `parse` case for the op `body_parse` as well"""

    def __init__(self, ctx, ser=False):
        self._ctx = ctx
        self._ser = ser

    def __getattr__(self, name):
        return getattr(self._ctx, name)

    def corr(self, op, args, impl, nontrivial=True):
        self._ctx.corr(op, args, impl, nontrivial)
        if op == 'parse':
            self._ctx.corr('body_parse', args, impl, nontrivial)
        if op == 'ser' and self._ser:
            self._ctx.corr('body_ser', args, impl, nontrivial)
