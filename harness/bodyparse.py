"""The translator's differential test of Component.from_ical: every `parse` correspondence case of
harness/parsecorr.py is also put to the op `body_parse` (lean/ICal/Driver/BodiesParse.lean), which runs the
definition that tools/py2lean.py regenerates from cal.py on every run (lean/ICal/Gen/BodiesParse.lean) with the
external pieces of lean/ICal/Model/ParsePieces.lean - same arguments (multiple, decoder table, text), same expected
answer (trees and error log of the real Component.from_ical, or err:ValueError)."""


class Both:
    """a view of the check's context whose corr() registers a `parse` case for the op `body_parse` as well"""

    def __init__(self, ctx):
        self._ctx = ctx

    def __getattr__(self, name):
        return getattr(self._ctx, name)

    def corr(self, op, args, impl, nontrivial=True):
        self._ctx.corr(op, args, impl, nontrivial)
        if op == 'parse':
            self._ctx.corr('body_parse', args, impl, nontrivial)
