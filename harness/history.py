"""History probes shared by several properties: what an object answers after it was observed and then changed
must be what an identically built object answers that was changed without having been observed first.

`mapping_mutators()` covers every way Python offers to change an ordered mapping, including the C-level
OrderedDict methods that do not call an overridden __setitem__/__delitem__ (pop, popitem, move_to_end, clear,
setdefault, update, |=) and in-place edits of a list value, which touch no mapping method at all."""


def mapping_mutators():
    def first(m):
        return next(iter(m.keys()))

    def inplace(m):
        for k, v in m.items():
            if isinstance(v, list):
                v.append(v[0] if v else 'x')
                return
        raise LookupError('no list value')

    def inplace_pop(m):
        for k, v in m.items():
            if isinstance(v, list) and len(v) > 1:
                v.pop()
                return
        raise LookupError('no list value')
    return [
        ('pop-first', lambda m: m.pop(first(m))),
        ('pop-first-lower', lambda m: m.pop(first(m).lower())),
        ('popitem', lambda m: m.popitem()),
        ('popitem-first', lambda m: m.popitem(last=False)),
        ('move-first-to-end', lambda m: m.move_to_end(first(m))),
        ('move-last-to-front', lambda m: m.move_to_end(next(reversed(m.keys())), last=False)),
        ('del-first', lambda m: m.__delitem__(first(m))),
        ('clear', lambda m: m.clear()),
        ('inplace-list-append', inplace),
        ('inplace-list-pop', inplace_pop),
        ('pop-then-reinsert', lambda m: m.__setitem__(first(m), m.pop(first(m)))),
    ]


def check_mapping_history(ctx, kind, make, render, where):
    """make() -> a new mapping; render(m) -> hashable observation (may raise: then the exception type is the observation)"""
    def obs(m):
        try:
            return render(m)
        except Exception as e:  # noqa: BLE001
            return 'raised ' + type(e).__name__
    for label, mut in mapping_mutators():
        a, b = make(), make()
        before = obs(a)                 # a is observed first ...
        try:
            mut(a)
        except (LookupError, KeyError, TypeError):
            continue
        mut(b)                          # ... b is changed without having been observed
        ra, rb = obs(a), obs(b)
        ctx.evaluated((kind, label, repr(where)))
        if ra != rb:
            ctx.violation('stale-after-' + label, dict(where, history=label),
                          f'{kind}: observed {before!r}; after {label} it answers {ra!r}, an identical object changed the same '
                          f'way without the earlier observation answers {rb!r}')
